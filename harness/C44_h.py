"""
C44 — helper-assisted uploads are equivalent to direct uploads (partial claim).

Real code executed (immutable/offloaded.py, immutable/upload.py):
  helper side : Helper.remote_upload_chk/_check_chk/_did_chk_check/_make_chk_upload_helper/upload_finished,
                CHKCheckerAndUEBFetcher (all of it), CHKUploadHelper.__init__/remote_upload/_finished/_failed,
                CHKCiphertextFetcher (all of it), AskUntilSuccessMixin.call, LocalCiphertextReader (all of it)
  client side : AssistedUploader (all of it), RemoteEncryptedUploadable (all of it), EncryptAnUploadable.read_encrypted/
                _read_encrypted/_hash_and_encrypt_plaintext/_update_segment_hash, CHKUploader.start
with the environment replaced by: an in-memory file system whose file contents are provenance buffers, foolscap
references that call remote_<name> on the local object (optionally through a harness-owned queue, with connection loss),
an identity cipher that records its input stream, recording hashers, a constant clock, and a stand-in for the erasure
coder (`CHKUploader.start_encrypted`, the same override point the repository's own test_helper.py uses) that records
everything it obtains through the IEncryptedUploadable interface.

Obligations (props/C44.py): resume_fetch (fetcher + client reader from any amount already on disk), interrupted_state
(what a lost connection leaves behind), helper_upload_caps / direct_upload_caps (one whole upload each way, caps against the
same absolute expression), interrupt_resume (the history in one run, caps compared literally), checker_decision /
helper_decision / present_flow (already in the grid?), client_cap_fields (what the client makes of the helper's results),
two_clients / late_attach (message schedules with a second client and connection loss).
"""
import os as _os
from vlib import hlib
from vlib.hlib import ProvBuf, NS, assume
hlib.ensure_shims()
import _helperfx as X
from twisted.internet import defer
from twisted.python.failure import Failure
from foolscap.api import DeadReferenceError
from allmydata.immutable import offloaded as off, upload as up
from allmydata import uri as real_uri
from allmydata.util import log as real_log
from allmydata.storage.server import si_b2a as real_si_b2a

B = hlib.bounds()
NOTES = [
    "offloaded.os / offloaded.open / offloaded.fileutil.make_dirs: in-memory file system (_helperfx.FakeFS); file contents are lists of provenance buffers; "
    "rename replaces, open('ab') creates or appends, stat()[ST_SIZE] is the number of bytes written so far",
    "foolscap RemoteReference: _helperfx.RRef.callRemote(name, *args) calls target.remote_<name>(*args) (no schema checking, no serialisation); a reference whose "
    "connection is lost answers DeadReferenceError; delivery is immediate, or FIFO through a harness-owned queue in the schedule obligations",
    "offloaded.eventually: harness-owned FIFO queue drained by the harness",
    "offloaded.time / upload.time: constant clock",
    "progress ratios: float() in upload/offloaded and the literal 1.0 in offloaded's methods replaced by an inert stand-in (symbolic floats do not discharge; "
    "the progress display is not part of the property)",
    "offloaded.log / upload.log: no-op msg/err (err recorded); eager '%' formatting inside assigned log calls cut (see cuts); "
    "precondition(): same check, no message formatting",
    "offloaded.si_b2a: real function, results pre-computed for the storage indexes used (base32 under tracing costs ~0.4 s per call)",
    "upload.aes: identity cipher recording its input stream (AES-CTR has no seek: keystream position == stream position); "
    "upload.plaintext_hasher / plaintext_segment_hasher: recorders; plaintext is provenance ('pt', offset)",
    "CHKUploader.start_encrypted (zfec encoding + share pushing, C01/C06/C36) replaced by a recorder that reads size, parameters, storage index and the whole "
    "ciphertext through the IEncryptedUploadable interface in symbolic-length reads, then reports a fresh UEB-hash token",
    "offloaded.uri / upload.uri: CHKFileVerifierURI / CHKFileURI replaced by field recorders with the same constructor signatures (cap string formatting/parsing is C15/C38)",
    "offloaded.ReadBucketProxy (share header parsing, C01/C02): stand-in whose get_uri_extension answers UEB bytes / LayoutInvalid / DeadReferenceError per server; "
    "storage servers are in-memory fakes answering get_buckets with {shnum: bucket} (unsorted, several servers may hold the same share number), a lost connection or an error",
    "Helper.chk_checker (documented override point) answers 'not in the grid' in the transfer obligations; the real CHKCheckerAndUEBFetcher runs in checker_decision, "
    "helper_decision and present_flow",
    "Uploader.upload is driven unbound on a fake self (parent with encoding parameters / storage broker / secret holder); the uploadable is a real FileHandle over a "
    "provenance file with key, size and encoding parameters preset",
]

# ---- module-level environment (process-local; per-call state is reset at the top of every harness function) ----

FS = X.FakeFS()
NET = X.Net()
AES = X.IdAES()
LOG_OFF = X.NoLog(real_log)
LOG_UP = X.NoLog(real_log)
EVQ = []


def _eventually(f, *a, **kw):
    EVQ.append((f, a, kw))


def _drain():
    n = 0
    while EVQ:
        (f, a, kw) = EVQ.pop(0)
        f(*a, **kw)
        n += 1
        if n > 50:
            raise RuntimeError("runaway eventual-send loop")


SI1 = b"\x01" * 16
SI2 = b"\x02" * 16
_SI_NAMES = {SI1: real_si_b2a(SI1), SI2: real_si_b2a(SI2)}


def _si_b2a(si):
    try:
        return _SI_NAMES[si]
    except KeyError:
        raise hlib.HarnessError("si_b2a of an unexpected storage index")


off.os = FS.as_os()
off.open = FS.open
off.fileutil = NS(make_dirs=FS.make_dirs)
off.eventually = _eventually
off.time = NS(time=lambda: 1000.0)
up.time = NS(time=lambda: 1000.0)
off.log = LOG_OFF
up.log = LOG_UP
off.precondition = X.precondition
up.precondition = X.precondition
off.si_b2a = _si_b2a
up.si_b2a = _si_b2a
up.aes = AES
up.plaintext_hasher = X.RecHasher
up.plaintext_segment_hasher = X.RecHasher
up.storage_index_hash = lambda key: SI1
CAPS = X.CapMod(real_uri)
off.uri = CAPS
up.uri = CAPS

up.float = X.fake_float
off.float = X.fake_float

_CUT = {}
for _cls in (off.CHKCiphertextFetcher, off.AskUntilSuccessMixin, off.LocalCiphertextReader, off.CHKUploadHelper, off.Helper,
             off.CHKCheckerAndUEBFetcher):
    _CUT[_cls.__name__] = X.cut_class(_cls, consts=X.FLOAT_CONSTS)
for _cls in (up.RemoteEncryptedUploadable, up.AssistedUploader, up.EncryptAnUploadable, getattr(up, "_Accum", None)):
    if _cls is not None:
        _CUT[_cls.__name__] = X.cut_class(_cls)
# the chunk sizes are made symbolic through these class attributes
if not hasattr(off.CHKCiphertextFetcher, "CHUNK_SIZE") or not hasattr(up.EncryptAnUploadable, "CHUNKSIZE"):
    raise hlib.HarnessError("harness: CHKCiphertextFetcher.CHUNK_SIZE / EncryptAnUploadable.CHUNKSIZE no longer exist")
# CHKUploader.start (the direct upload the helper path is compared with): @log_call_deferred (eliot action: clock, uuid) dropped
up.CHKUploader.start = X.cut_fn(up.CHKUploader.start)
hlib.encoded(up.CHKUploader.__init__, up.UploadResults, up.HelperUploadResults, up.UploadStatus)


def _reset(queued=False):
    FS.reset()
    NET.reset(queued=queued)
    AES.reset()
    X.RecHasher.made = []
    X.RecVerifyCap.made = []
    LOG_OFF.errors = []
    LOG_UP.errors = []
    del EVQ[:]
    del X.STEER[:]
    ENC.reset()
    GRID.reset()


# ---- client side -------------------------------------------------------------------------------------------------

class _Client(object):
    """one uploading client: a FileHandle over a provenance file, the real EncryptAnUploadable and (when the helper asks
    for ciphertext) the real RemoteEncryptedUploadable"""

    def __init__(self, name, size, chunk, params, key=b"K" * 16):
        self.name = name
        self.file = X.ChunkFile(size)
        fh = up.FileHandle(self.file, None)
        fh._key = key
        fh._size = size
        fh.default_params_set = True
        fh._all_encoding_parameters = params
        self.fh = fh
        nh = len(X.RecHasher.made)
        self.eu = up.EncryptAnUploadable(fh, chunk_size=chunk)
        self.whole_hasher = X.RecHasher.made[nh]
        self.first_hasher = nh + 1
        self.status = up.UploadStatus()

    def make_reu(self, die_at_read=None):
        self.reu = up.RemoteEncryptedUploadable(self.eu, self.status)
        self.rref = X.RRef(NET, self.reu, self.name, die_at_read)
        return self.rref

    def segment_fed(self):
        """input of the per-segment plaintext hashers, in creation order (single-client scenarios only)"""
        out = []
        for h in X.RecHasher.made[self.first_hasher:]:
            out.extend(h.fed)
        return out


# ---- erasure-coder stand-in ------------------------------------------------------------------------------------------

class _Enc(object):
    """what the stand-in for CHKUploader.start_encrypted saw, per run"""

    def reset(self):
        self.runs = []
        self.read_plan = []
        self.fail = False
        self.hash = hlib.IdealHash(32)


ENC = _Enc()


class _View(object):
    def __init__(self, uploader):
        self.uploader = uploader
        self.size = None
        self.params = None
        self.si = None
        self.pieces = []
        self.token = None
        self.completed = False

    def stream(self):
        return X.join_pieces(self.pieces)


def _fake_start_encrypted(self, encrypted):
    """stand-in for CHKUploader.start_encrypted: consume the IEncryptedUploadable exactly through the calls the real
    Encoder makes (get_size, get_all_encoding_parameters, get_storage_index, read_encrypted(n, False)..., close)"""
    eu = up.IEncryptedUploadable(encrypted)
    view = _View(self)
    ENC.runs.append(view)
    plan = list(ENC.read_plan)

    def _size(size):
        view.size = size
        return eu.get_all_encoding_parameters()

    def _params(params):
        view.params = tuple(params)
        return eu.get_storage_index()

    def _si(si):
        view.si = si
        return _read(None)

    def _read(ignored):
        got = 0
        for piece in view.pieces:
            got = got + len(piece)
        if got >= view.size:
            return None
        want = view.size - got
        if plan:
            n = plan.pop(0)
            if n < want:
                want = n
        if len(view.pieces) > 40:
            raise RuntimeError("runaway encoder read loop")
        d2 = eu.read_encrypted(want, False)

        def _got(data):
            n = 0
            for piece in data:
                view.pieces.append(piece)
                n = n + len(piece)
            if n == 0:
                raise RuntimeError("ciphertext source ran dry before `size` bytes were delivered")
            return _read(None)
        d2.addCallback(_got)
        return d2

    def _done(ignored):
        if ENC.fail:
            raise RuntimeError("no servers would take the shares")
        (k, happy, n, segsize) = view.params
        # the UEB hash is an (ideal, injective) function of everything the encoder consumed and of nothing else
        view.token = ENC.hash.h("UEB", view.si, view.size, k, happy, n, segsize, tuple(view.stream()._canon()))
        view.completed = True
        cap = up.uri.CHKFileVerifierURI(view.si, view.token, k, n, view.size)
        ueb_data = {"needed_shares": k, "total_shares": n, "segment_size": segsize, "size": view.size}
        srv = NS(get_serverid=lambda: b"server-A")
        ur = up.UploadResults(file_size=view.size, ciphertext_fetched=0, preexisting_shares=0, pushed_shares=n,
                              sharemap={0: set([srv])}, servermap={srv: set([0])}, timings={"total": 1.0},
                              uri_extension_data=ueb_data, uri_extension_hash=view.token, verifycapstr=cap.to_string())
        self._upload_status.set_results(ur)
        return ur

    d = eu.get_size()
    d.addCallback(_size)
    d.addCallback(_params)
    d.addCallback(_si)
    d.addCallback(_done)
    return d


off.CHKUploadHelper.start_encrypted = _fake_start_encrypted
up.CHKUploader.start_encrypted = _fake_start_encrypted


# =====================================================================================================================
# 1. ciphertext fetch: resume from an arbitrary amount already on disk
# =====================================================================================================================

INCOMING = "/helper/CHK_incoming/si1"
ENCODING = "/helper/CHK_encoding/si1"


class _Counts(object):
    def __init__(self):
        self.c = {}

    def count(self, key, value=1):
        self.c[key] = self.c.get(key, 0) + value


def _fetcher(CH):
    status = up.UploadStatus()
    counts = _Counts()
    uh = NS(_upload_id=b"aaaaa", _upload_status=status, _helper=counts, log=lambda *a, **kw: 0)
    f = off.CHKCiphertextFetcher(uh, INCOMING, ENCODING, 0)
    f.CHUNK_SIZE = CH
    return f, status, counts


def _nfetches(size, have, CH):
    """number of read_encrypted requests needed: smallest n with n*CH >= size-have (no division by a symbolic)"""
    need = size - have
    n = 0
    while n * CH < need:
        n += 1
        if n > 64:
            raise hlib.HarnessError("harness: bound on fetches")
    return n


def h_resume_fetch(size: int, have: int, CH: int, ch: int, empty_file: bool, p: int) -> bool:
    """
    pre: 1 <= size <= 2 ** 62 and 0 <= have <= size and 1 <= CH and 1 <= ch
    pre: (B.get("nf", 1) - 1) * CH < size - have <= B.get("nf", 1) * CH
    pre: (B.get("nskip", 1) - 1) * ch < have <= B.get("nskip", 1) * ch
    pre: CH <= B.get("nsub", 2) * ch
    post: _ == True
    """
    # cases: nf = number of requests the missing part takes, nskip = number of client-side chunks the part already on the
    # helper's disk spans (what the client has to skip over, hashing), nsub = client-side chunks per request (at most)
    # pre-state: the helper's incoming file holds ciphertext[0:have) (what an interrupted earlier transfer left behind:
    # obligation interrupt_resume establishes that); have == 0: no file at all, or an empty one
    _reset()
    if have > 0:
        FS.files[INCOMING] = [ProvBuf.src("pt", have, 0)]
    elif empty_file:
        FS.files[INCOMING] = []
    existed = INCOMING in FS.files
    cl = _Client("A", size, ch, (3, 7, 10, size + 1))
    fetcher, status, counts = _fetcher(CH)
    done = X.collect(fetcher.when_done())
    fetcher.add_reader(cl.make_reu())
    _drain()
    X.check_steering()
    if len(done) != 1:
        return "fetcher did not finish (when_done fired %d times)" % len(done)
    if isinstance(done[0], Failure):
        return "resumed fetch failed: %r" % (done[0].value,)
    if FS.exists(INCOMING) or not FS.exists(ENCODING):
        return "complete ciphertext not moved from CHK_incoming to CHK_encoding"
    if FS.open_handles():
        return "file left open"
    data = FS.content(ENCODING)
    if len(data) != size:
        return "encoding file has %s bytes than the file" % ("more" if len(data) > size else "fewer")
    if 0 <= p and p < size and data.at(p) != ("pt", p):
        return "encoding file byte p is not ciphertext byte p"
    # every missing byte fetched exactly once: the requests tile [have, size) in order, each within the chunk size
    reads = NET.calls_of("A", "read_encrypted")
    pos = have
    for (offset, length) in reads:
        if offset != pos or length < 1 or length > CH:
            return "ciphertext request (offset, length) does not continue where the data on disk ends"
        pos = pos + length
    if pos != size:
        return "requests do not cover exactly the missing range"
    if len(reads) != _nfetches(size, have, CH):
        return "number of ciphertext requests"
    if len(NET.calls_of("A", "get_size")) != 1 or len(NET.calls) != 1 + len(reads):
        return "unexpected remote calls: %r" % ([c[1] for c in NET.calls],)
    if fetcher.get_ciphertext_fetched() != size - have or cl.reu._bytes_sent != size - have:
        return "fetched-bytes accounting"
    if counts.c.get("chk_upload_helper.fetched_bytes", 0) != size - have:
        return "fetched_bytes counter"
    if counts.c.get("chk_upload_helper.resumes", 0) != (1 if existed else 0):
        return "resumes counter"
    if status.get_size() != size:
        return "upload status size"
    # client side: the cipher and the plaintext hashers ran over the WHOLE file once, in order (skipped part included),
    # so keystream position == file position for every byte sent, and the hashes are those of an uninterrupted upload
    # (nothing missing => the client is not asked to read or encrypt anything)
    seen = size if size > have else 0
    r = X.fed_ok(AES.stream, seen, p, "cipher stream")
    if r is not True:
        return r
    r = X.fed_ok(cl.whole_hasher.fed, seen, p, "plaintext hasher")
    if r is not True:
        return r
    r = X.fed_ok(cl.segment_fed(), seen, p, "plaintext segment hasher")
    if r is not True:
        return r
    if AES.keys != ([b"K" * 16] if seen else []):
        return "one encryptor keyed with the uploadable's key"
    return True


# =====================================================================================================================
# 2. whole flow: Uploader.upload -> AssistedUploader -> Helper -> CHKUploadHelper -> fetch -> (encoder stand-in) -> results
# =====================================================================================================================

KEY = b"K" * 16
INC1 = "/helper/CHK_incoming/" + _SI_NAMES[SI1].decode("ascii")
ENC1 = "/helper/CHK_encoding/" + _SI_NAMES[SI1].decode("ascii")


class _StubChecker(object):
    """Helper.chk_checker override point (documented in the class): the already-in-grid check answers 'not there';
    the check itself is the subject of checker_decision / helper_decision"""
    made = []

    def __init__(self, peer_getter, storage_index, logparent):
        _StubChecker.made.append(storage_index)

    def check(self):
        return defer.succeed(False)


BROKER = NS(get_servers_for_psi=lambda si, for_upload=False: [], get_stub_server=lambda serverid: ("stub-server", serverid))
SECRETS = NS()


def _new_helper(checker=_StubChecker):
    h = off.Helper("/helper", BROKER, SECRETS, None, None)
    h.chk_checker = checker
    h.made = []
    real = off.Helper.chk_upload

    def _counting(*a, **kw):
        uh = real(*a, **kw)
        h.made.append(uh)
        return uh
    h.chk_upload = _counting
    return h


class _UHRef(X.RRef):
    """client's reference to a CHKUploadHelper: the RemoteEncryptedUploadable passed to upload() arrives at the helper as a
    reference to it"""

    def __init__(self, net, target, opts):
        X.RRef.__init__(self, net, target, "uh")
        self.opts = opts

    def callRemote(self, name, *args, **kwargs):
        if name == "upload":
            (reu,) = args
            rr = X.RRef(self.net, reu, self.opts["name"], self.opts.get("die_at_read"), self.opts.get("die_at_call"))
            self.opts["made"].append(rr)
            args = (rr,)
        return X.RRef.callRemote(self, name, *args, **kwargs)


class _HelperRef(X.RRef):
    """client's reference to the Helper"""

    def __init__(self, net, target, opts):
        X.RRef.__init__(self, net, target, "helper")
        self.opts = opts

    def callRemote(self, name, *args, **kwargs):
        d = X.RRef.callRemote(self, name, *args, **kwargs)
        if name == "upload_chk":
            d.addCallback(self._wrap)
        return d

    def _wrap(self, res):
        (hur, uh) = res
        if uh is not None:
            uh = _UHRef(self.net, uh, self.opts)
        return (hur, uh)


_upload = hlib.encoded(up.Uploader.upload)


def _client_upload(helper, name, size, params, die_at_read=None, die_at_call=None):
    """one `tahoe put`: the real Uploader.upload on a fresh uploadable (fresh EncryptAnUploadable inside), through the
    helper when one is given"""
    f = X.ChunkFile(size)
    fh = up.FileHandle(f, None)
    fh._key = KEY
    fh._size = size
    fh._all_encoding_parameters = params
    opts = {"name": name, "die_at_read": die_at_read, "die_at_call": die_at_call, "made": []}
    href = _HelperRef(NET, helper, opts) if helper is not None else None
    parent = NS(get_encoding_parameters=lambda: {"k": 3, "happy": 7, "n": 10, "max_segment_size": 131072},
                get_storage_broker=lambda: BROKER, _secret_holder=SECRETS)
    me = NS(parent=parent, running=True, stats_provider=None, URI_LIT_SIZE_THRESHOLD=up.Uploader.URI_LIT_SIZE_THRESHOLD,
            _parentmsgid=0, _helper=href, _all_uploads={}, _history=None)
    nenc = len(AES.encs)
    d = _upload(me, fh)
    d.addErrback(X.note_steering)
    out = []
    d.addBoth(out.append)
    return NS(name=name, file=f, fh=fh, out=out, opts=opts, nenc=nenc)


def _pump(hook=None):
    step = 0
    while True:
        _drain()
        if hook is not None:
            hook(step)
            _drain()
        if not NET.pending:
            break
        NET.pump_one()
        step += 1
        if step > 70:
            raise RuntimeError("runaway message loop")
    return step


def _view_ok(view, size, params, p):
    if view.size != size:
        return "the encoder was given a file size different from the client's"
    if view.params != tuple(params):
        return "the encoder was given encoding parameters different from the client's"
    if view.si != SI1:
        return "the encoder was given another storage index"
    data = view.stream()
    if len(data) != size:
        return "the encoder read %s ciphertext than the file has" % ("more" if len(data) > size else "less")
    if 0 <= p and p < size and data.at(p) != ("pt", p):
        return "ciphertext byte p handed to the encoder is not ciphertext byte p of the file"
    return True


def _caps_of(sess, what):
    if len(sess.out) != 1:
        return None, "%s: upload did not finish (%d results)" % (what, len(sess.out))
    ur = sess.out[0]
    if isinstance(ur, Failure):
        return None, "%s: upload failed: %r" % (what, ur.value)
    rc = ur.get_uri()
    vc = ur.get_verifycapstr()
    if not isinstance(rc, X.CapStr) or not isinstance(rc.cap, X.RecReadCap) or not isinstance(vc, X.CapStr) \
            or not isinstance(vc.cap, X.RecVerifyCap):
        return None, "%s: results carry no read cap / verify cap" % what
    return (rc.cap.fields(), vc.cap.fields()), None


def _tiles(reads, start, size, CH):
    """answered read_encrypted requests, in order, tile [start, size): each begins where the previous ended"""
    pos = start
    for (offset, length) in reads:
        if offset != pos or length < 1 or length > CH:
            return "ciphertext request does not continue where the ciphertext already on the helper's disk ends"
        pos = pos + length
    if pos != size:
        return "ciphertext requests do not cover exactly the missing range"
    return True


J = B.get("j", -1)
NFET = B.get("nf", 2)
NSUB = B.get("ns", 1)


def h_interrupt_resume(size: int, CH: int, ch: int, restart: bool, p: int) -> bool:
    """
    pre: 56 <= size <= 2 ** 62 and 1 <= CH and 1 <= ch
    pre: (NFET - 1) * CH < size <= NFET * CH and (NSUB - 1) * ch < CH <= NSUB * ch
    pre: J < 0 or J * CH < size
    post: _ == True
    """
    # NFET = number of helper-side chunks the whole file takes, NSUB = number of client-side chunks per helper-side chunk (cases)
    # J >= 0: a first upload whose connection is lost after the client answered J ciphertext requests, then the
    # upload is started again from scratch (new uploadable, new encryptor) against the same helper directory;
    # J < 0: one uninterrupted upload.  Then the same file is uploaded directly.  restart: the helper process was restarted
    # in between (a new Helper object over the same directory).
    _reset()
    # the encoding parameters are only handed through by the code under test: four distinct values (symbolic ones in
    # client_cap_fields)
    # (one plaintext segment: the per-segment plaintext hashing loop is C05's segment_hashes)
    (k, n, segsize) = (3, 10, size + 1)
    params = (k, 7, n, segsize)
    helper = _new_helper()
    saved = (up.EncryptAnUploadable.CHUNKSIZE, off.CHKCiphertextFetcher.CHUNK_SIZE)
    up.EncryptAnUploadable.CHUNKSIZE = ch
    off.CHKCiphertextFetcher.CHUNK_SIZE = CH
    try:
        have = 0
        if J >= 0:
            s1 = _client_upload(helper, "A", size, params, die_at_read=J)
            _drain()
            X.check_steering()
            if len(s1.out) != 1:
                return "interrupted upload neither failed nor finished"
            if not isinstance(s1.out[0], Failure):
                return "upload reported success although the connection was lost before all ciphertext had been fetched"
            have = J * CH
            if ENC.runs:
                return "encoding started on incomplete ciphertext"
            if FS.exists(ENC1) or not FS.exists(INC1):
                return "after the interruption: partial ciphertext not kept in CHK_incoming"
            part = FS.content(INC1)
            if len(part) != have:
                return "after the interruption: CHK_incoming holds a different amount than was fetched"
            if 0 <= p and p < have and part.at(p) != ("pt", p):
                return "after the interruption: CHK_incoming is not a prefix of the ciphertext"
            if FS.open_handles():
                return "after the interruption: file left open"
            if helper._active_uploads:
                return "failed upload still registered as active"
            if restart:
                helper = _new_helper()
        s2 = _client_upload(helper, "B", size, params)
        _drain()
        X.check_steering()
        (caps2, err) = _caps_of(s2, "upload through the helper")
        if err:
            return err
        if len(ENC.runs) != 1 or not ENC.runs[0].completed:
            return "the helper must encode exactly once"
        r = _view_ok(ENC.runs[0], size, params, p)
        if r is not True:
            return "through the helper: " + r
        r = _tiles(NET.calls_of("B", "read_encrypted"), have, size, CH)
        if r is not True:
            return r
        # the (fresh) encryptor of the second attempt ran over the whole file from byte 0: keystream position == file position
        r = X.fed_ok(AES.encs[s2.nenc].stream, size, p, "cipher stream of the resumed upload")
        if r is not True:
            return r
        if FS.files or FS.open_handles():
            return "helper directory not clean after a successful upload: %r" % (sorted(FS.files),)
        if helper._active_uploads:
            return "finished upload still registered as active"
        if s2.out[0].get_ciphertext_fetched() != size - have:
            return "ciphertext_fetched in the results"
        s3 = _client_upload(None, "D", size, params)
        _drain()
        X.check_steering()
        (caps3, err) = _caps_of(s3, "direct upload")
        if err:
            return err
        if len(ENC.runs) != 2:
            return "harness: direct upload did not reach the encoder stand-in"
        r = _view_ok(ENC.runs[1], size, params, p)
        if r is not True:
            return "harness: direct upload: " + r
        if caps2[1] != caps3[1]:
            return "verify cap through the helper differs from the direct one: %r vs %r" % (caps2[1], caps3[1])
        if caps2[0] != caps3[0]:
            return "read cap through the helper differs from the direct one: %r vs %r" % (caps2[0], caps3[0])
        if caps2[1] != (SI1, ENC.runs[0].token, k, n, size) or caps2[0] != (KEY, ENC.runs[0].token, k, n, size):
            return "cap fields are not (storage index | key, UEB hash of this encoding, k, N, size)"
        return True
    finally:
        (up.EncryptAnUploadable.CHUNKSIZE, off.CHKCiphertextFetcher.CHUNK_SIZE) = saved


# ---- the same, one step at a time (inductive form: wider bounds) ---------------------------------------------------------

def _expected_token(size, params):
    """UEB hash of the encoding of exactly this file: the ideal hash of (storage index, size, parameters, ciphertext[0:size))"""
    (k, happy, n, segsize) = params
    return ENC.hash.h("UEB", SI1, size, k, happy, n, segsize, (("pt", 0, size),))


def _with_chunks(CH, ch):
    saved = (up.EncryptAnUploadable.CHUNKSIZE, off.CHKCiphertextFetcher.CHUNK_SIZE)
    up.EncryptAnUploadable.CHUNKSIZE = ch
    off.CHKCiphertextFetcher.CHUNK_SIZE = CH
    return saved


def _restore_chunks(saved):
    (up.EncryptAnUploadable.CHUNKSIZE, off.CHKCiphertextFetcher.CHUNK_SIZE) = saved


def h_interrupted_state(size: int, CH: int, ch: int, p: int) -> bool:
    """
    pre: 56 <= size <= 2 ** 62 and 1 <= CH and 1 <= ch
    pre: (NFET - 1) * CH < size <= NFET * CH and (NSUB - 1) * ch < CH <= NSUB * ch
    pre: 0 <= J and J * CH < size
    post: _ == True
    """
    # an upload whose connection is lost after the client answered J ciphertext requests: what is left behind
    _reset()
    params = (3, 7, 10, size + 1)
    helper = _new_helper()
    saved = _with_chunks(CH, ch)
    try:
        s1 = _client_upload(helper, "A", size, params, die_at_read=J)
        _drain()
        X.check_steering()
    finally:
        _restore_chunks(saved)
    if len(s1.out) != 1:
        return "interrupted upload neither failed nor finished"
    if not isinstance(s1.out[0], Failure):
        return "upload reported success although the connection was lost before all ciphertext had been fetched"
    have = J * CH
    if ENC.runs:
        return "encoding started on incomplete ciphertext"
    if FS.exists(ENC1) or not FS.exists(INC1) or len(FS.files) != 1:
        return "partial ciphertext not kept in CHK_incoming (and only there)"
    part = FS.content(INC1)
    if len(part) != have:
        return "CHK_incoming holds a different amount than was fetched"
    if 0 <= p and p < have and part.at(p) != ("pt", p):
        return "CHK_incoming is not a prefix of the ciphertext"
    if FS.open_handles():
        return "file left open"
    if helper._active_uploads or len(helper.made) != 1:
        return "failed upload still registered as active"
    if len(NET.calls_of("A", "read_encrypted")) != J + 1:
        return "the helper kept asking a dead client"
    return True


PRE = B.get("pre", "none")        # state of the helper's directory: none | incoming | encoding


def h_helper_upload_caps(size: int, have: int, CH: int, ch: int, p: int) -> bool:
    """
    pre: 56 <= size <= 2 ** 62 and 1 <= CH and 1 <= ch and 0 <= have <= size
    pre: (NFET - 1) * CH < size - have <= NFET * CH and (NSUB - 1) * ch < CH <= NSUB * ch
    pre: have <= B.get("nskip", 2) * ch
    pre: PRE == "incoming" or have == 0
    post: _ == True
    """
    # one upload through the helper from an arbitrary state of the helper's directory:
    #   none: nothing there; incoming: CHK_incoming/<si> holds ciphertext[0:have) (any amount: a killed helper process may
    #   have written part of a chunk); encoding: CHK_encoding/<si> holds the whole ciphertext (an earlier upload failed while encoding)
    _reset()
    params = (3, 7, 10, size + 1)
    if PRE == "incoming":
        FS.files[INC1] = [ProvBuf.src("pt", have, 0)] if have > 0 else []
    elif PRE == "encoding":
        FS.files[ENC1] = [ProvBuf.src("pt", size, 0)]
    helper = _new_helper()
    saved = _with_chunks(CH, ch)
    try:
        s2 = _client_upload(helper, "B", size, params)
        _drain()
        X.check_steering()
    finally:
        _restore_chunks(saved)
    (caps, err) = _caps_of(s2, "upload through the helper")
    if err:
        return err
    if len(ENC.runs) != 1 or not ENC.runs[0].completed:
        return "the helper must encode exactly once"
    r = _view_ok(ENC.runs[0], size, params, p)
    if r is not True:
        return r
    want = _expected_token(size, params)
    if caps[1] != (SI1, want, 3, 10, size):
        return "verify cap is not (storage index, UEB hash of the encoding of this file, k, N, size): %r" % (caps[1],)
    if caps[0] != (KEY, want, 3, 10, size):
        return "read cap is not (key, UEB hash of the encoding of this file, k, N, size): %r" % (caps[0],)
    reads = NET.calls_of("B", "read_encrypted")
    if PRE == "encoding":
        if reads or len(AES.encs[s2.nenc].stream) != 0 or s2.file.nreads != 0:
            return "ciphertext already complete on the helper, but the client was asked to read/encrypt"
        fetched = 0
    else:
        r = _tiles(reads, have, size, CH)
        if r is not True:
            return r
        fetched = size - have
        seen = size if size > have else 0
        r = X.fed_ok(AES.encs[s2.nenc].stream, seen, p, "cipher stream")
        if r is not True:
            return r
    if s2.out[0].get_ciphertext_fetched() != fetched:
        return "ciphertext_fetched in the results"
    if FS.files or FS.open_handles():
        return "helper directory not clean after a successful upload: %r" % (sorted(FS.files),)
    if helper._active_uploads or len(helper.made) != 1:
        return "finished upload still registered as active"
    c = helper._counters
    if c["chk_upload_helper.upload_requests"] != 1 or c["chk_upload_helper.upload_need_upload"] != 1 \
            or c["chk_upload_helper.fetched_bytes"] != fetched or c["chk_upload_helper.encoded_bytes"] != size \
            or c["chk_upload_helper.resumes"] != (1 if PRE == "incoming" else 0):
        return "helper counters: %r" % (c,)
    return True


def h_direct_upload_caps(size: int, ch: int, p: int) -> bool:
    """
    pre: 56 <= size <= 2 ** 62 and 1 <= ch
    pre: size <= B.get("nchunks", 3) * ch
    post: _ == True
    """
    # the reference: the same file uploaded without a helper (Uploader.upload -> CHKUploader.start -> encoder stand-in)
    _reset()
    params = (3, 7, 10, size + 1)
    saved = _with_chunks(1, ch)
    try:
        s3 = _client_upload(None, "D", size, params)
        _drain()
        X.check_steering()
    finally:
        _restore_chunks(saved)
    (caps, err) = _caps_of(s3, "direct upload")
    if err:
        return err
    if len(ENC.runs) != 1 or not ENC.runs[0].completed:
        return "harness: the direct upload did not reach the encoder stand-in once"
    r = _view_ok(ENC.runs[0], size, params, p)
    if r is not True:
        return r
    want = _expected_token(size, params)
    if caps[1] != (SI1, want, 3, 10, size) or caps[0] != (KEY, want, 3, 10, size):
        return "direct upload: caps are not (storage index | key, UEB hash of the encoding of this file, k, N, size)"
    if NET.calls:
        return "harness: direct upload made remote calls"
    return True


# =====================================================================================================================
# 3. "already in the grid?": CHKCheckerAndUEBFetcher and Helper.remote_upload_chk
# =====================================================================================================================

from allmydata.immutable.layout import LayoutInvalid      # noqa: E402
from allmydata.util import hashutil as real_hashutil     # noqa: E402

NSH = B.get("N", 2)          # total_shares recorded in the UEB found on the grid (case)
_UEB = {}
for _n in (1, 2, 3, 4):
    _UEB[_n] = real_uri.pack_extension({"codec_name": b"crs", "codec_params": b"1000-1-%d" % _n, "size": 1000, "segment_size": 1000,
                                        "num_segments": 1, "needed_shares": 1, "total_shares": _n,
                                        "crypttext_hash": b"c" * 32, "crypttext_root_hash": b"r" * 32, "share_root_hash": b"s" * 32})


class _Grid(object):
    def reset(self):
        self.servers = []
        self.asked = []
        self.ueb_asked = []
        self.held = []
        self.hold = False


GRID = _Grid()


class _Bucket(object):
    def __init__(self, srv, shnum):
        self.srv, self.shnum = srv, shnum

    def __hash__(self):
        return 1000 + 16 * self.srv.idx + self.shnum

    def __eq__(self, other):
        return self is other

    def __repr__(self):
        return "<bucket %d on server %d>" % (self.shnum, self.srv.idx)


class _GridServer(object):
    """IServer + its storage server: get_buckets answers {shnum: bucket} for the shares it holds, or loses the connection,
    or fails some other way; reading the UEB of one of its shares works, is refused as malformed, or loses the connection"""

    def __init__(self, idx, kind, shares, ueb_kind):
        self.idx, self.kind, self.shares, self.ueb_kind = idx, kind, shares, ueb_kind

    def __hash__(self):
        return 500 + self.idx

    def __eq__(self, other):
        return self is other

    def get_storage_server(self):
        return self

    def get_serverid(self):
        return b"server-%d" % self.idx

    def get_name(self):
        return "srv%d" % self.idx

    def _answer(self):
        if self.kind == 1:
            return defer.fail(DeadReferenceError("connection lost", None, None))
        if self.kind == 2:
            return defer.fail(RuntimeError("server-side error"))
        # unsorted, several servers may hold the same share number
        return defer.succeed(dict((sh, _Bucket(self, sh)) for sh in reversed(self.shares)))

    def get_buckets(self, storage_index):
        GRID.asked.append(self.idx)
        if GRID.hold:
            d = defer.Deferred()
            GRID.held.append((d, self))
            return d
        return self._answer()


def _release_held():
    held, GRID.held = GRID.held, []
    for (d, srv) in held:
        srv._answer().chainDeferred(d)


class _RBP(object):
    """stand-in for layout.ReadBucketProxy (share header parsing is C01/C02): get_uri_extension answers what the server
    holding the share says"""

    def __init__(self, rref, server, storage_index):
        self.b = rref
        if server is not rref.srv:
            raise hlib.HarnessError("harness: ReadBucketProxy built with a bucket of another server")

    def get_uri_extension(self):
        GRID.ueb_asked.append(self.b)
        kind = self.b.srv.ueb_kind()
        if kind == 0:
            return defer.succeed(_UEB[NSH])
        if kind == 1:
            return defer.fail(LayoutInvalid("share is damaged"))
        return defer.fail(DeadReferenceError("connection lost", None, None))


off.ReadBucketProxy = _RBP


def _pick3(x):
    for v in (0, 1, 2):
        if x == v:
            return v
    raise hlib.HarnessError("harness: selector out of range")


def _build_grid(kinds, bits, uebs, nshares):
    """servers[i] holds share s iff bits[i*nshares+s]; bits are only looked at for servers that answer"""
    GRID.reset()
    for i, kx in enumerate(kinds):
        kind = _pick3(kx)
        shares = []
        if kind == 0:
            for s in range(nshares):
                if bits[i * nshares + s]:
                    shares.append(s)
        ux = uebs[i]
        GRID.servers.append(_GridServer(i, kind, shares, (lambda ux=ux: _pick3(ux))))


def _grid_model():
    """independent model of 'what the grid holds, as far as it answers'"""
    sharemap = {}
    for srv in GRID.servers:
        if srv.kind == 0:
            for sh in srv.shares:
                sharemap.setdefault(sh, set()).add(srv.get_serverid())
    return sharemap


def _present_model(sharemap):
    """the documented rule: the file counts as present iff the UEB could be read from the share that was tried and at
    least N = total_shares(UEB) distinct share numbers were found; returns (present, error text)"""
    if not sharemap:
        if GRID.ueb_asked:
            return None, "UEB requested although no server reported a share"
        return False, None
    if len(GRID.ueb_asked) != 1:
        return None, "the UEB must be fetched from exactly one of the shares found (fetched %d times)" % len(GRID.ueb_asked)
    b = GRID.ueb_asked[0]
    if b.srv.kind != 0 or b.shnum not in b.srv.shares:
        return None, "UEB requested from a share nobody reported"
    if b.srv.ueb_kind() != 0:
        return False, None
    return len(sharemap) >= NSH, None


def _plain(d):
    return dict((k, set(v)) for (k, v) in d.items())


def h_checker_decision(k0: int, k1: int, k2: int, u0: int, u1: int, u2: int,
                       e0: bool, e1: bool, e2: bool, e3: bool, e4: bool, e5: bool, e6: bool, e7: bool, e8: bool) -> bool:
    """
    pre: 0 <= k0 <= 2 and 0 <= k1 <= 2 and 0 <= k2 <= 2 and 0 <= u0 <= 2 and 0 <= u1 <= 2 and 0 <= u2 <= 2
    pre: B.get("P", 2) >= 3 or (k2 == 0 and u2 == 0 and not (e6 or e7 or e8))
    pre: B.get("S", 2) >= 3 or not (e2 or e5 or e8)
    post: _ == True
    """
    _reset()
    P, S = B.get("P", 2), B.get("S", 2)
    bits3 = [e0, e1, e2, e3, e4, e5, e6, e7, e8]
    bits = []
    for i in range(P):
        for s in range(S):
            bits.append(bits3[3 * i + s])
    _build_grid([k0, k1, k2][:P], bits, [u0, u1, u2][:P], S)
    c = off.CHKCheckerAndUEBFetcher(lambda si: list(GRID.servers), SI1, 0)
    d = c.check()
    d.addErrback(X.note_steering)
    out = X.collect(d)
    X.check_steering()
    if len(out) != 1:
        return "check() did not finish"
    if isinstance(out[0], Failure):
        return "check() must not fail (an unavailable file is a 'no'): %r" % (out[0].value,)
    if GRID.asked != list(range(P)):
        return "every server must be asked once"
    model = _grid_model()
    (present, err) = _present_model(model)
    if err:
        return err
    res = out[0]
    if not present:
        if res is not False:
            return "file reported as present although it is not completely there (shares found %r, N=%d)" % (sorted(model), NSH)
        return True
    if not isinstance(res, tuple) or len(res) != 3:
        return "file is completely there (shares %r, N=%d) but the check says %r" % (sorted(model), NSH, res)
    (sharemap, ueb_data, ueb_hash) = res
    if _plain(sharemap) != model:
        return "sharemap %r, servers said %r" % (_plain(sharemap), model)
    if ueb_data != real_uri.unpack_extension(_UEB[NSH]) or ueb_hash != real_hashutil.uri_extension_hash(_UEB[NSH]):
        return "UEB data / UEB hash are not those of the UEB that was fetched"
    return True


def _grid_helper():
    broker = NS(get_servers_for_psi=lambda si, for_upload=False: list(GRID.servers),
                get_stub_server=lambda serverid: ("stub-server", serverid))
    h = off.Helper("/helper", broker, SECRETS, None, None)        # chk_checker: the real CHKCheckerAndUEBFetcher
    h.made = []
    real = off.Helper.chk_upload

    def _counting(*a, **kw):
        uh = real(*a, **kw)
        h.made.append(uh)
        return uh
    h.chk_upload = _counting
    return h


def _ask(helper, si):
    d = defer.maybeDeferred(helper.remote_upload_chk, si)
    d.addErrback(X.note_steering)
    out = []
    d.addBoth(out.append)
    return out


def h_helper_decision(u0: int, u1: int, e0: bool, e1: bool, e2: bool, e3: bool, e4: bool, e5: bool,
                      active: bool, other_active: bool, concurrent: bool) -> bool:
    """
    pre: 0 <= u0 <= 2 and 0 <= u1 <= 2
    pre: B.get("S", 2) >= 3 or not (e2 or e5)
    pre: B.get("conc") is None or concurrent == (B["conc"] == 1)
    pre: B.get("act") is None or active == (B["act"] == 1)
    post: _ == True
    """
    # two servers that answer; which shares they hold and what the UEB fetch does is symbolic.  active: an upload of this
    # storage index is in progress on the helper; other_active: one of ANOTHER storage index is; then two clients ask about
    # the same file - one after the other, or (concurrent) the second before the servers have answered the first
    _reset()
    S = B.get("S", 2)
    bits3 = [e0, e1, e2, e3, e4, e5]
    bits = []
    for i in range(2):
        for s in range(S):
            bits.append(bits3[3 * i + s])
    _build_grid([0, 0], bits, [u0, u1], S)
    helper = _grid_helper()
    old = None
    if other_active:
        helper._active_uploads[SI2] = "upload of another file"
    if active:
        old = helper._make_chk_upload_helper(SI1, 0)
        helper._active_uploads[SI1] = old
    before = dict(helper._active_uploads)
    nmade = len(helper.made)
    GRID.hold = concurrent
    r1 = _ask(helper, SI1)
    if concurrent:
        r2 = _ask(helper, SI1)
        _release_held()
    else:
        r2 = _ask(helper, SI1)
    X.check_steering()
    if len(r1) != 1 or len(r2) != 1:
        return "upload_chk did not answer"
    for r in (r1[0], r2[0]):
        if isinstance(r, Failure):
            return "upload_chk failed: %r" % (r.value,)
        if not isinstance(r, tuple) or len(r) != 2:
            return "upload_chk must answer (results, upload helper): %r" % (r,)
    c = helper._counters
    if c["chk_upload_helper.upload_requests"] != 2:
        return "upload_requests counter"
    if active:
        # an upload of this file is running: both clients are attached to it, nobody asks the grid
        if r1[0] != (None, old) or r2[0] != (None, old):
            return "a second client for a file that is being uploaded must get the running upload helper"
        if GRID.asked or len(helper.made) != nmade or helper._active_uploads != before:
            return "running upload: the grid was asked again / a second upload helper was made"
        return True
    model = _grid_model()
    # which checks ran: concurrent -> both; one after the other -> the second only if the first found the file (otherwise
    # the second client is attached to the upload started for the first).  Each check that sees a share fetches the UEB
    # exactly once, from a share that was reported, and applies the documented rule.
    verdicts = []
    for b in GRID.ueb_asked:
        if b.srv.kind != 0 or b.shnum not in b.srv.shares:
            return "UEB requested from a share nobody reported"
        verdicts.append(b.srv.ueb_kind() == 0 and len(model) >= NSH)
    if not model:
        if GRID.ueb_asked:
            return "UEB requested although no server reported a share"
        first = False
    else:
        if not verdicts:
            return "shares were reported but no UEB was fetched"
        first = verdicts[0]
    nchecks = 2 if (concurrent or first) else 1
    if model and len(verdicts) != nchecks:
        return "each check fetches the UEB exactly once (%d checks, %d fetches)" % (nchecks, len(verdicts))
    if not model:
        verdicts = [False] * nchecks
    if len(GRID.asked) != 2 * nchecks:
        return "servers asked %d times for %d checks" % (len(GRID.asked), nchecks)
    if nchecks == 1:
        verdicts = [False, False]         # the second client needs the upload too
    ueb_data = real_uri.unpack_extension(_UEB[NSH])
    ueb_hash = real_hashutil.uri_extension_hash(_UEB[NSH])
    answers = [r1[0], r2[0]]
    made_now = helper.made[nmade:]
    for i, (hur, uh) in enumerate(answers):
        is_present = verdicts[i]
        if is_present:
            if uh is not None or hur is None:
                return "file is completely in the grid (shares %r, N=%d) but the helper wants an upload" % (sorted(model), NSH)
            if hur.uri_extension_hash != ueb_hash or hur.uri_extension_data != ueb_data:
                return "results for a file found in the grid do not carry the UEB hash / UEB data found there"
            if _plain(hur.sharemap) != model or hur.preexisting_shares != len(model) or hur.pushed_shares != 0:
                return "results for a file found in the grid: sharemap / share counts"
        else:
            if hur is not None or uh is None:
                return "file is not completely in the grid (shares %r, N=%d) but the helper reports it as uploaded" % (sorted(model), NSH)
            if not isinstance(uh, off.CHKUploadHelper):
                return "no upload helper"
    npresent = len([v for v in verdicts if v])
    need = [uh for (hur, uh) in answers if uh is not None]
    if need:
        # one upload helper per storage index, shared by everybody who needs the upload; registered as active
        if len(made_now) != 1 or any(uh is not made_now[0] for uh in need):
            return "clients uploading the same file must share one upload helper (made %d)" % len(made_now)
        if helper._active_uploads.get(SI1) is not made_now[0]:
            return "upload helper not registered as the active upload of this storage index"
    else:
        if made_now or SI1 in helper._active_uploads:
            return "upload helper made for a file that is already in the grid"
    if other_active != (SI2 in helper._active_uploads):
        return "the active upload of another storage index was disturbed"
    if FS.files or FS.ops:
        return "deciding must not touch the ciphertext directories: %r" % (FS.ops,)
    if c["chk_upload_helper.upload_already_present"] != npresent:
        return "upload_already_present counter"
    return True


# =====================================================================================================================
# 4. client side: what AssistedUploader makes of the helper's results
# =====================================================================================================================

class _ScriptedHelper(object):
    """a helper that answers upload_chk with prepared results: (results, None) = 'already in the grid', or
    (None, upload helper) whose upload() answers the prepared results without asking for any ciphertext"""

    def __init__(self, hur, need_upload):
        self.hur, self.need_upload = hur, need_upload
        self.calls = []

    def callRemote(self, name, *args):
        self.calls.append(name)
        if name == "upload_chk":
            if self.need_upload:
                return defer.succeed((None, self))
            return defer.succeed((self.hur, None))
        if name == "upload":
            return defer.succeed(self.hur)
        raise hlib.HarnessError("harness: unexpected call %r" % (name,))


def h_client_cap_fields(size: int, k: int, n: int, segsize: int, dsize: int, dk: int, dn: int, dseg: int, need_upload: bool) -> bool:
    """
    pre: 56 <= size <= 2 ** 62 and 1 <= k <= n <= 256 and 1 <= segsize
    pre: 0 <= dsize and 0 <= dk and 0 <= dn and 0 <= dseg
    post: _ == True
    """
    # (size, k, n, segsize): this client's file and parameters; (dsize, dk, dn, dseg): what the UEB data in the helper's
    # results say.  An honest helper reports the client's own values (helper_upload_caps); here they are arbitrary.
    _reset()
    hur = up.HelperUploadResults()
    hur.uri_extension_hash = b"T" * 32
    hur.uri_extension_data = {"needed_shares": dk, "total_shares": dn, "segment_size": dseg, "size": dsize}
    hur.sharemap = {0: set([b"server-0"]), 1: set([b"server-0", b"server-1"])}
    hur.preexisting_shares = 2
    hur.pushed_shares = 0
    hur.ciphertext_fetched = 0
    helper = _ScriptedHelper(hur, need_upload)
    cl = _Client("A", size, 1000, (k, 7, n, segsize))
    u = up.AssistedUploader(helper, BROKER)
    d = u.start(cl.eu, SI1)
    d.addErrback(X.note_steering)
    out = X.collect(d)
    X.check_steering()
    if len(out) != 1:
        return "AssistedUploader.start did not finish"
    agree = (dsize == size and dk == k and dn == n and dseg == segsize)
    if isinstance(out[0], Failure):
        if agree:
            return "results that agree with the client's own parameters were refused: %r" % (out[0].value,)
        return True
    ur = out[0]
    vc = ur.get_verifycapstr()
    if not isinstance(vc, X.CapStr) or not isinstance(vc.cap, X.RecVerifyCap):
        return "no verify cap in the results"
    # the cap never carries anything but this client's storage index, k, N, size; the UEB hash slot is the helper's
    if vc.cap.fields() != (SI1, b"T" * 32, k, n, size):
        return "verify cap fields %r are not (own storage index, helper's UEB hash, own k, own N, own size)" % (vc.cap.fields(),)
    if ur.get_file_size() != size or ur._uri_extension_hash != b"T" * 32:
        return "results: size / UEB hash"
    if helper.calls != (["upload_chk", "upload"] if need_upload else ["upload_chk"]):
        return "calls to the helper: %r" % (helper.calls,)
    if cl.file.nreads or AES.stream:
        return "the client read/encrypted the file although the helper never asked for ciphertext"
    if u.get_upload_status().get_active():
        return "upload status still active"
    sm = ur.get_sharemap()
    if sorted(sm) != [0, 1] or sm[1] != set([("stub-server", b"server-0"), ("stub-server", b"server-1")]):
        return "sharemap not translated to server objects"
    return True


# =====================================================================================================================
# 5. two clients, one file: message schedules (second client arrives at any point, first client's connection may be lost)
# =====================================================================================================================

ADIE = B.get("adie", -1)       # number of helper->A calls client A answers before its connection is lost (-1: never)
TMIN = B.get("tmin", 0)
TMAX = B.get("tmax", 9)
LATE = B.get("late", 0)        # 1 (obligation late_attach): only the schedules in which B's upload() message reaches an upload
#                                helper that has already ended successfully; 0 (two_clients): every schedule


def _pin(x, lo, hi):
    for v in range(lo, hi + 1):
        if x == v:
            return v
    raise hlib.HarnessError("harness: value outside its declared range")


def h_two_clients(size: int, CH: int, tjoin: int, p: int) -> bool:
    """
    pre: 56 <= size <= 2 ** 62 and 1 <= CH
    pre: (NFET - 1) * CH < size <= NFET * CH
    pre: TMIN <= tjoin <= TMAX
    post: _ == True
    """
    # every remote message goes through a FIFO queue and is delivered one per step.  Client A starts an upload; client B
    # starts an upload of the same file (same key, so same storage index and ciphertext) just before delivery step `tjoin`
    # (after A is done if tjoin is larger than the number of steps A needs); A's connection is lost after it answered
    # ADIE calls from the helper.  B's connection stays up.
    _reset(queued=True)
    params = (3, 7, 10, size + 1)
    helper = _new_helper()
    tj = _pin(tjoin, TMIN, TMAX)
    seen = {}

    def _on_deliver(rref, name, args):
        # what the helper's state is when B's two messages arrive
        # (B's first attempt only)
        if name == "upload_chk" and rref.opts["name"] == "B" and "active_at_chk" not in seen:
            seen["active_at_chk"] = SI1 in helper._active_uploads
        if name == "upload" and rref.opts["name"] == "B" and "ended_at_upload" not in seen:
            obs = rref.target._finished_observers
            seen["ended_at_upload"] = obs._fired
            seen["failed_at_upload"] = obs._fired and isinstance(obs._result, Failure)
    NET.on_deliver = _on_deliver
    saved = _with_chunks(CH, CH)
    try:
        sA = _client_upload(helper, "A", size, params, die_at_call=(ADIE if ADIE >= 0 else None))
        started = []
        a_done_when_b_started = []

        def hook(step):
            if step == tj and not started:
                a_done_when_b_started.append(len(sA.out) > 0)
                started.append(_client_upload(helper, "B", size, params))
        _pump(hook)
        if not started:
            a_done_when_b_started.append(len(sA.out) > 0)
            started.append(_client_upload(helper, "B", size, params))
            _pump()
        sB = started[0]
        X.check_steering()
        if "ended_at_upload" not in seen:
            return "harness: second client never sent upload()"
        if LATE == 1:
            # the upload B was attached to ended, successfully, between the helper's answer to upload_chk and the arrival
            # of B's upload(): B must still be given the results
            assume(seen["ended_at_upload"] and not seen["failed_at_upload"])
        if seen["failed_at_upload"]:
            # the upload B was attached to FAILED (A's connection was lost while A was the only reader) before B's
            # upload() arrived: B is handed that failure - and does what a user does, it starts the upload again
            if len(sB.out) != 1 or not isinstance(sB.out[0], Failure):
                return "second client was attached to an upload that had failed, but was not told so: %r" % (sB.out,)
            if isinstance(sB.out[0].value, (AttributeError, TypeError)):
                return "second client, attached late to a failed upload, got an internal error instead of the failure: %r" % (sB.out[0].value,)
            sB = _client_upload(helper, "B", size, params)
            _pump()
            X.check_steering()
    finally:
        _restore_chunks(saved)
    want = _expected_token(size, params)
    (capsB, err) = _caps_of(sB, "second client")
    if err:
        return err
    if capsB != ((KEY, want, 3, 10, size), (SI1, want, 3, 10, size)):
        return "second client: caps are not those of a direct upload of this file: %r" % (capsB,)
    if ADIE < 0:
        (capsA, err) = _caps_of(sA, "first client")
        if err:
            return err
        if capsA != capsB:
            return "the two clients got different caps for the same file"
    done_runs = [v for v in ENC.runs if v.completed]
    if not done_runs:
        return "nothing was encoded"
    for v in done_runs:
        r = _view_ok(v, size, params, p)
        if r is not True:
            return r
    # ciphertext requests that were answered (by either client), in order: each continues where the ciphertext the
    # helper holds ends; nothing is fetched twice for one encoding
    pos = 0
    for (who, name, args) in NET.answered:
        if name != "read_encrypted":
            continue
        (offset, length) = args
        if offset != pos or length < 1 or length > CH:
            return "ciphertext request (%s) does not continue where the ciphertext on the helper's disk ends" % who
        pos = pos + length
        if pos == size:
            pos = 0
    if pos != 0:
        return "a ciphertext transfer was left incomplete although a client with a live connection was attached"
    readsB = [a for (w, nm, a) in NET.answered if w == "B" and nm == "read_encrypted"]
    if sB.opts["made"] and readsB and len(AES.encs[sB.nenc].stream) > 0:
        encB = AES.encs[sB.nenc]
        lastB = readsB[-1]
        r = X.fed_ok(encB.stream, lastB[0] + lastB[1], p, "second client's cipher stream")
        if r is not True:
            return r
    if len(helper.made) > 3 or helper._active_uploads:
        return "upload helpers made: %d, still active: %d" % (len(helper.made), len(helper._active_uploads))
    if ADIE < 0 and seen["active_at_chk"]:
        # B's question arrived while A's upload was running and A stayed connected: one upload helper, one transfer, one encoding
        if len(helper.made) != 1 or len(ENC.runs) != 1:
            return "a second client of a running upload caused a second upload (helpers %d, encodings %d)" % (len(helper.made), len(ENC.runs))
    if FS.files:
        return "helper directory not clean after the last upload succeeded: %r" % (sorted(FS.files),)
    if [h for h in FS.open_handles() if "r" not in h.mode]:
        return "ciphertext file left open for writing"
    return True


# =====================================================================================================================
# 6. whole flow when the file may already be in the grid
# =====================================================================================================================

def h_present_flow(u0: int, u1: int, e0: bool, e1: bool, e3: bool, e4: bool) -> bool:
    """
    pre: 0 <= u0 <= 2 and 0 <= u1 <= 2
    pre: B.get("e0") is None or e0 == (B["e0"] == 1)
    post: _ == True
    """
    # real Uploader.upload -> AssistedUploader -> real Helper with the real checker over a symbolic grid (two servers, two
    # share numbers); the file is the one whose UEB is on the grid (size 1000, k=1, N=NSH, segsize 1000)
    _reset()
    _build_grid([0, 0], [e0, e1, e3, e4], [u0, u1], 2)
    helper = _grid_helper()
    size = 1000
    params = (1, 1, NSH, 1000)
    CH = 600           # two ciphertext requests if an upload is needed (the transfer itself: resume_fetch / helper_upload_caps)
    saved = _with_chunks(CH, CH)
    try:
        s = _client_upload(helper, "B", size, params)
        _drain()
        X.check_steering()
    finally:
        _restore_chunks(saved)
    (caps, err) = _caps_of(s, "upload through the helper")
    if err:
        return err
    model = _grid_model()
    (present, err) = _present_model(model)
    if err:
        return err
    if present:
        h = real_hashutil.uri_extension_hash(_UEB[NSH])
        if caps != ((KEY, h, 1, NSH, size), (SI1, h, 1, NSH, size)):
            return "file found in the grid: caps are not (key | SI, hash of the UEB found, k, N, size): %r" % (caps,)
        if helper.made or ENC.runs or FS.ops or s.file.nreads or AES.stream or NET.calls_of("B", "read_encrypted"):
            return "file found in the grid but something was fetched / encrypted / encoded again"
        ur = s.out[0]
        if ur.get_pushed_shares() != 0 or ur.get_preexisting_shares() != len(model):
            return "results: share counts"
        return True
    if len(helper.made) != 1 or len(ENC.runs) != 1 or not ENC.runs[0].completed:
        return "file not completely in the grid (shares %r, N=%d): exactly one upload must happen" % (sorted(model), NSH)
    r = _view_ok(ENC.runs[0], size, params, 0)
    if r is not True:
        return r
    want = ENC.runs[0].token
    if caps != ((KEY, want, 1, NSH, size), (SI1, want, 1, NSH, size)):
        return "caps after the upload: %r" % (caps,)
    if FS.files or helper._active_uploads:
        return "helper not clean after the upload"
    return True
