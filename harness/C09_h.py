"""
C09 -- mutable files read back what one writer wrote: the arithmetic / data-movement kernels.

Byte contents are provenance buffers (ProvBuf): the old file is the source "old" (absolute file
offsets), the written data the source "new".  Every check is made at a universally quantified probe
position.  Real code executed (log statements stripped):
  filenode.MutableFileVersion._update / _do_update_update / _do_modify_update(+closure m) /
      _build_uploadable_and_finish
  publish.TransformingUploadable.__init__/get_size/read, Publish.setup_encoding_parameters,
      Publish._encode_segment
  retrieve.Retrieve._setup_encoding_parameters / decode / _maybe_decode_and_decrypt_segment /
      _decode_blocks / _set_segment
  codec.CRSEncoder/CRSDecoder.set_params/encode/decode
"""
import inspect
from zope.interface import implementer
from vlib import hlib
from vlib.hlib import ProvBuf, NS, assume
hlib.ensure_shims()
from twisted.internet import defer
from allmydata import codec as codec_mod
from allmydata.interfaces import IMutableUploadable
from allmydata.util import cputhreadpool, mathutil
from allmydata.mutable import publish as pub_mod, retrieve as ret_mod, filenode as fn_mod, servermap as sm_mod
from allmydata.mutable.common import MODE_WRITE
from allmydata.mutable.layout import SDMF_VERSION, MDMF_VERSION

B = hlib.bounds()
NOTES = [
    "zfec.Encoder/zfec.Decoder (compiled) replaced by an ideal erasure code: encode records the k input pieces; decode of any k "
    "equal-sized blocks returns the k primary blocks of the (padded) segment the harness designates",
    "AES-CTR replaced by the identity on provenance buffers (position preserving, length preserving); os.urandom by a constant",
    "cputhreadpool._DISABLED = True (the repo's own synchronous-test switch): defer_to_thread runs inline",
    "Retrieve._set_current_status / status objects replaced by no-ops (string formatting only)",
    "ServermapUpdater run (MutableFileVersion._update_servermap) replaced by a recorder returning a fired Deferred",
]

cputhreadpool._DISABLED = True


def _lean_assert(cond, *args, **kwargs):
    """allmydata.util.assertutil._assert/precondition without the message formatting: formatting symbolic values
    (%r of every argument) costs seconds per failing path and made a failing assertion show up as a timeout"""
    if not cond:
        raise AssertionError("assertion failed (message formatting skipped by the harness)")
    return cond


ret_mod._assert = _lean_assert
ret_mod.precondition = _lean_assert
codec_mod.precondition = _lean_assert
NOTES.append("_assert/precondition in mutable.retrieve and codec replaced by a version that raises AssertionError without formatting its arguments")


class _EmptyBuf(ProvBuf):
    """stand-in for the literal b"": an empty provenance buffer that can also .join()"""
    __slots__ = ()

    def join(self, parts):
        if isinstance(parts, ProvBuf):
            # Publish._encode_segment joins when `not isinstance(data, bytes)`; a provenance buffer is the data itself
            return parts
        out = ProvBuf()
        for p in parts:
            out = out + p
        return out


CONSTS = {b"": _EmptyBuf(), b"\x00": hlib.ZeroByte(), b"\0": hlib.ZeroByte()}


# ---- ideal erasure code ---------------------------------------------------------------------------

class _Zfec(object):
    encoded = []      # list of (k, n, pieces) per Encoder.encode call
    segment = None    # padded plaintext/ciphertext segment the decoder hands back
    decoded = []      # (k, n, shares, ids) per decode call

    class Encoder(object):
        def __init__(self, k, n):
            self.k, self.n = k, n

        def encode(self, inshares, ids):
            _Zfec.encoded.append((self.k, self.n, list(inshares)))
            # k primary blocks are the inputs themselves; the rest are opaque parity blocks of equal size
            out = []
            for i in ids:
                out.append(inshares[i] if i < self.k else ProvBuf.src("parity%d" % i, len(inshares[0]), 0))
            return out

    class Decoder(object):
        def __init__(self, k, n):
            self.k, self.n = k, n

        def decode(self, shares, ids):
            _Zfec.decoded.append((self.k, self.n, list(shares), list(ids)))
            if len(shares) != self.k:
                raise hlib.HarnessError("ideal decoder: needs exactly k blocks")
            size = len(shares[0])
            for s in shares:
                if len(s) != size:
                    raise ValueError("ideal decoder: blocks of different size")
            seg = _Zfec.segment
            if size * self.k != len(seg):
                raise ValueError("ideal decoder: k blocks of %r bytes cannot be a segment of %r bytes" % (size, len(seg)))
            # the k primary blocks, handed back as ONE buffer (the real code joins the buffers before using them);
            # slicing it into k pieces here only to have them re-joined multiplies the paths
            return [seg]


codec_mod.zfec = _Zfec

hlib.encoded(codec_mod.CRSEncoder.set_params, codec_mod.CRSEncoder.encode, codec_mod.CRSDecoder.set_params,
             codec_mod.CRSDecoder.decode, mathutil.div_ceil, mathutil.next_multiple,
             pub_mod.TransformingUploadable.get_size)

_setup_pub = hlib.strip_logs(pub_mod.Publish.setup_encoding_parameters)
_encode_segment = hlib.strip_logs(pub_mod.Publish._encode_segment, consts=CONSTS)
hlib.strip_method(pub_mod.TransformingUploadable, "__init__")
hlib.strip_method(pub_mod.TransformingUploadable, "read", consts=CONSTS)
_setup_ret = hlib.strip_logs(ret_mod.Retrieve._setup_encoding_parameters)
hlib.strip_method(ret_mod.Retrieve, "_setup_encoding_parameters")
hlib.strip_method(ret_mod.Retrieve, "_decode_blocks", consts=CONSTS)
hlib.strip_method(ret_mod.Retrieve, "_maybe_decode_and_decrypt_segment")
hlib.strip_method(ret_mod.Retrieve, "_set_segment", consts=CONSTS)
hlib.strip_method(ret_mod.Retrieve, "decode")
hlib.strip_method(fn_mod.MutableFileVersion, "_update")
hlib.strip_method(fn_mod.MutableFileVersion, "_do_update_update")
hlib.strip_method(fn_mod.MutableFileVersion, "_do_modify_update", consts=CONSTS)
hlib.encoded(fn_mod.MutableFileVersion._build_uploadable_and_finish, fn_mod.MutableFileVersion.get_size,
             sm_mod.ServerMap.size_of_version)

# Publish.update is executed from its first statement up to and including the computation of `datalength`: the fake
# node's get_writekey (the first node call after that) raises a sentinel.  node.get_size() returns an ARBITRARY value
# (the node's cached size is only a hint and may be stale).
_pub_update = hlib.strip_logs(pub_mod.Publish.update)
pub_mod.time = NS(time=lambda: 1000.0)
NOTES.append("Publish.update is executed up to the computation of datalength (sentinel raised by the fake node's get_writekey); "
             "node.get_size() returns an arbitrary symbolic value; allmydata.mutable.publish.time is a constant clock")


class _Stop(Exception):
    pass


def _stop():
    raise _Stop()


def _publisher_for_update(u, offset, blockhashes, version, k, n, stale_node_size):
    """a Publish on which the real Publish.update ran up to the datalength computation, then the real
    setup_encoding_parameters(offset) (the next thing Publish.update does with these values)"""
    pub = pub_mod.Publish.__new__(pub_mod.Publish)
    pub._node = NS(get_size=lambda: stale_node_size, get_writekey=_stop)
    pub._status = _Status()
    pub._log_number = 0
    pub.log = lambda *a, **kw: 0
    pub._version = MDMF_VERSION
    pub.required_shares = k
    pub.total_shares = n
    pub.readkey = b"r" * 16
    try:
        _pub_update(pub, u, offset, blockhashes, version)
        raise hlib.HarnessError("Publish.update ran past the sentinel")
    except _Stop:
        pass
    _setup_pub(pub, offset=offset)
    return pub


# ideal cipher
pub_mod.aes = NS(create_encryptor=lambda key: None, encrypt_data=lambda e, data: data)
pub_mod.os = NS(urandom=lambda n: b"s" * n)


@implementer(IMutableUploadable)
class FakeData(object):
    """the data being written: `size` bytes of source "new", read sequentially"""

    def __init__(self, size, pos=0):
        self._size, self._pos = size, pos
        self.reads = []

    def get_size(self):
        return self._size

    def pos(self):
        return self._pos

    def read(self, length):
        n = self._size - self._pos
        if 0 <= length < n:           # like file.read(): a negative length means "everything that is left"
            n = length
        out = ProvBuf.src("new", n, self._pos)
        self._pos = self._pos + n
        self.reads.append(length)
        return [out]

    def close(self):
        pass


class _Status(object):
    def __getattr__(self, name):
        return lambda *a, **kw: None


def _result(d):
    out = []
    d.addCallbacks(lambda r: out.append(("ok", r)), lambda f: out.append(("err", f)))
    if not out:
        raise hlib.HarnessError("Deferred did not fire synchronously")
    if out[0][0] == "err":
        out[0][1].raiseException()
    return out[0][1]


def _seglen(size, segsize, s):
    """number of data bytes of segment s of a file of `size` bytes"""
    n = size - s * segsize
    if n < 0:
        return 0
    if n > segsize:
        return segsize
    return n


def _clamp(x, lo, hi):
    if x < lo:
        return lo
    if x > hi:
        return hi
    return x


def _verinfo(segsize, datalength, k, n, sdmf):
    return (3, b"R" * 32, (b"I" * 16 if sdmf else None), segsize, datalength, k, n, b"prefix", ())


def _version_obj(segsize, old_size, k, n, sdmf):
    fv = fn_mod.MutableFileVersion.__new__(fn_mod.MutableFileVersion)
    fv._version = _verinfo(segsize, old_size, k, n, sdmf)
    fv._servermap = sm_mod.ServerMap()
    fv._node = NS()
    fv._storage_broker = None
    fv._writekey = b"w" * 16
    return fv


# ---- 1. which old segments an in-place update fetches; SDMF goes through modify ----------------------

def h_update_range(old_size: int, offset: int, newlen: int, segsize: int, sdmf: bool, x: int) -> bool:
    """
    pre: segsize == B["segsize"] and 0 <= old_size and 0 <= offset <= old_size and 0 <= newlen
    pre: old_size <= segsize or not sdmf
    post: _ == True
    """
    fv = _version_obj(segsize, old_size, 3, 10, sdmf)
    calls = []
    fv._update_servermap = lambda mode=MODE_WRITE, update_range=None: (calls.append(("map", mode, update_range)), defer.succeed(None))[1]
    fv._decode_and_decrypt_segments = lambda ign, data, off: calls.append(("decode", data, off)) or "segs"
    fv._build_uploadable_and_finish = lambda segs, data, off: calls.append(("build", segs, data, off)) or "published"
    fv._modify = lambda m, backoffer: (calls.append(("modify", m, backoffer)), defer.succeed("modified"))[1]
    data = FakeData(newlen)
    res = _result(fv._update(data, offset))
    if sdmf:
        # SDMF: whole-file re-encode through the modify loop, nothing else
        if len(calls) != 1 or calls[0][0] != "modify" or calls[0][2] is not None or res != "modified":
            return "SDMF update does not go through _modify exactly once"
        return True
    if [c[0] for c in calls] != ["map", "decode", "build"] or res != "published":
        return "MDMF update pipeline is not servermap-update, decode, build+publish"
    if calls[0][1] != MODE_WRITE or calls[1][1:] != (data, offset) or calls[2][1:] != ("segs", data, offset):
        return "pipeline stages called with the wrong arguments"
    rng = calls[0][2]
    if rng is None:
        # `if update_range:` in _update_servermap: (0, 0) is truthy, a tuple always is
        return "no update range requested"
    (start, end) = rng
    if (start, end) != (fv._start_segment, fv._end_segment):
        return "recorded segments differ from the requested range"
    wend = offset + newlen
    # independent statement: every OLD byte that survives inside a segment that is rewritten must be fetched
    first_seg = offset // segsize                      # first rewritten segment
    if first_seg * segsize <= x < offset:
        if not (start * segsize <= x < (start + 1) * segsize):
            return "old byte before the write (same segment) is not in the fetched start segment"
    if newlen > 0 and wend < old_size:
        last_seg = (wend - 1) // segsize               # last rewritten segment
        if wend <= x < old_size and x < (last_seg + 1) * segsize:
            if not (end * segsize <= x < (end + 1) * segsize):
                return "old byte after the write (same segment) is not in the fetched end segment"
        # DESIGN statement: end segment = the segment of the last byte written
        if not (end * segsize <= wend - 1 < (end + 1) * segsize):
            return "end segment is not the segment of the last written byte"
    if not (start * segsize <= offset < (start + 1) * segsize):
        return "start segment is not the segment of the first written byte"
    if wend >= old_size and end != start:
        return "write reaches EOF: no end segment is needed (end == start expected)"
    return True


# ---- 2. in-place update: what the erasure coder is fed for segment j ----------------------------------

class _TapUploadable(object):
    """passes read() through to the real TransformingUploadable, records what it returned and hands the publisher an
    equally long single-run buffer ("seg"), so that read() and the piece splitting are checked one after the other
    instead of multiplying their paths"""

    def __init__(self, u):
        self.u = u
        self.got = []

    def get_size(self):
        return self.u.get_size()

    def read(self, length):
        r = self.u.read(length)
        self.got.append((length, r))
        return ProvBuf.src("seg", len(r), 0)


class _FakePublishClass(object):
    made = []

    def __init__(self, node, sb, servermap):
        _FakePublishClass.made.append(self)

    def update(self, u, offset, blockhashes, version):
        self.args = (u, offset, blockhashes, version)
        return defer.succeed("published")


def h_update_stitch(old_size: int, offset: int, newlen: int, maxseg: int, k: int, j: int, piece: int, p: int, stale: int) -> bool:
    """
    pre: k == B["k"] and maxseg == B["maxseg"]
    pre: 1 <= old_size and 0 <= offset <= old_size and 0 <= newlen and 0 <= j and 0 <= piece < k and 0 <= p and 0 <= stale
    post: _ == True
    """
    n = k + 2
    saved = (pub_mod.DEFAULT_MUTABLE_MAX_SEGMENT_SIZE, fn_mod.Publish)
    pub_mod.DEFAULT_MUTABLE_MAX_SEGMENT_SIZE = maxseg
    fn_mod.Publish = _FakePublishClass
    _FakePublishClass.made = []
    _Zfec.encoded = []
    try:
        # the old version was written by the same code with the same k: its segment size follows the same rule
        segsize = mathutil.next_multiple(maxseg, k)
        fv = _version_obj(segsize, old_size, k, n, False)
        ranges = []
        fv._update_servermap = lambda mode=MODE_WRITE, update_range=None: (ranges.append(update_range), defer.succeed(None))[1]

        def _decoded(ign, data, off):
            # contract of Retrieve.decode (obligation update_decode): the plaintext of the requested old segments
            s0, s1 = fv._start_segment, fv._end_segment
            return [ProvBuf.src("old", _seglen(old_size, segsize, s0), s0 * segsize),
                    ProvBuf.src("old", _seglen(old_size, segsize, s1), s1 * segsize), "blockhashes"]
        fv._decode_and_decrypt_segments = _decoded
        data = FakeData(newlen)
        if _result(fv._update(data, offset)) != "published":
            return "update did not publish"
        if len(_FakePublishClass.made) != 1:
            return "not exactly one Publish"
        (u, uoff, bht, uver) = _FakePublishClass.made[0].args
        if uoff != offset or bht != "blockhashes" or uver is not fv._version:
            return "Publish.update called with the wrong offset/blockhashes/version"
        new_size = offset + newlen if offset + newlen > old_size else old_size
        if u.get_size() != offset + newlen:
            return "uploadable size is not offset+len(data)"
        pub = _publisher_for_update(u, uoff, bht, uver, k, n, stale)
        if pub.segment_size != segsize:
            return "publisher's segment size differs from the old version's"
        # independent statement of which segments change: from the segment holding the first written byte to the
        # segment holding the last written byte, or to the end of the file when the write reaches/passes EOF
        s0 = offset // segsize
        if pub.starting_segment != s0:
            return "publisher does not start at the segment of the first written byte"
        if newlen >= 1:
            s_last = (new_size - 1) // segsize if offset + newlen >= old_size else (offset + newlen - 1) // segsize
            if pub.end_segment != s_last:
                return "publisher does not stop at the segment of the last byte that changes"
        assume(pub.starting_segment <= j <= pub.end_segment)
        # consistent uploadable state after segments s0..j-1 were read (full segments): the stream begins at s0*segsize
        marker = (j - s0) * segsize
        u._read_marker = marker
        data._pos = _clamp(marker - (offset - s0 * segsize), 0, newlen)
        tap = _TapUploadable(u)
        pub.data = tap
        _result(_encode_segment(pub, j))
    finally:
        pub_mod.DEFAULT_MUTABLE_MAX_SEGMENT_SIZE, fn_mod.Publish = saved
    if len(_Zfec.encoded) != 1:
        return "segment not encoded exactly once"
    (ek, en, pieces) = _Zfec.encoded[0]
    if (ek, en) != (k, n) or len(pieces) != k:
        return "wrong codec parameters"
    base = j * segsize
    have = _seglen(new_size, segsize, j)          # data bytes of segment j of the NEW file
    if have < 1:
        return "a segment beyond the end of the new file was pushed"
    if len(tap.got) != 1:
        return "segment data not read exactly once"
    (asked, got) = tap.got[0]
    if asked != have or len(got) != have:
        return "publisher did not read exactly the data bytes of segment j"
    if p < have:
        xx = base + p
        want = ("new", xx - offset) if offset <= xx < offset + newlen else ("old", xx)
        if got.at(p) != want:
            return "byte read for the segment is not the byte of the updated file"
    psize = len(pieces[piece])
    if psize * k < have or (psize - 1) * k >= have:
        return "piece size is not ceil(segment bytes / k)"
    q = piece * psize + p
    if p < psize:
        src = pieces[piece].at(p)
        if q < have:
            if src != ("seg", q):
                return "pieces fed to the encoder are not the segment in order"
        elif src != (ProvBuf.ZERO, 0):
            return "padding is not zero bytes"
    # the uploadable state stays consistent for the next segment
    if u._read_marker != marker + have:
        return "read marker not advanced by the segment size"
    if data._pos != _clamp(marker + have - (offset - s0 * segsize), 0, newlen):
        return "new-data position inconsistent after the read"
    return True


# ---- 2a/2b/2c: the same chain as update_stitch, cut into three contracts (sum instead of product of paths) ----

def _s_last(old_size, offset, newlen, segsize):
    """last segment whose bytes change: to the end of the file if the write reaches/passes EOF, else the segment of
    the last written byte (for an empty write: the segment strictly containing `offset`, none if offset is aligned)"""
    wend = offset + newlen
    if wend >= old_size:
        return (wend - 1) // segsize if wend > old_size else (old_size - 1) // segsize
    return (wend + segsize - 1) // segsize - 1


def _run_update(fv, old_size, segsize, data, offset):
    ranges = []
    fv._update_servermap = lambda mode=MODE_WRITE, update_range=None: (ranges.append(update_range), defer.succeed(None))[1]

    def _decoded(ign, d, off):
        s0, s1 = fv._start_segment, fv._end_segment
        fv._bufs = [ProvBuf.src("old", _seglen(old_size, segsize, s0), s0 * segsize),
                    ProvBuf.src("old", _seglen(old_size, segsize, s1), s1 * segsize), "blockhashes"]
        return fv._bufs
    fv._decode_and_decrypt_segments = _decoded
    return _result(fv._update(data, offset))


def h_update_plan(old_size: int, offset: int, newlen: int, maxseg: int, k: int, stale: int) -> bool:
    """
    pre: k == B["k"] and maxseg == B["maxseg"]
    pre: 1 <= old_size and 0 <= offset <= old_size and 0 <= newlen and 0 <= stale
    post: _ == True
    """
    n = k + 2
    saved = (pub_mod.DEFAULT_MUTABLE_MAX_SEGMENT_SIZE, fn_mod.Publish)
    pub_mod.DEFAULT_MUTABLE_MAX_SEGMENT_SIZE = maxseg
    fn_mod.Publish = _FakePublishClass
    _FakePublishClass.made = []
    try:
        segsize = mathutil.next_multiple(maxseg, k)
        fv = _version_obj(segsize, old_size, k, n, False)
        data = FakeData(newlen)
        if _run_update(fv, old_size, segsize, data, offset) != "published":
            return "update did not publish"
        if len(_FakePublishClass.made) != 1:
            return "not exactly one Publish"
        (u, uoff, bht, uver) = _FakePublishClass.made[0].args
        if uoff != offset or bht != "blockhashes" or uver is not fv._version:
            return "Publish.update called with the wrong offset/blockhashes/version"
        if not isinstance(u, pub_mod.TransformingUploadable) or u._newdata is not data or u._offset != offset or u._segment_size != segsize:
            return "uploadable built from the wrong data/offset/segment size"
        if u._start is not fv._bufs[0] or u._end is not fv._bufs[1]:
            return "start/end boundary segments handed over in the wrong places"
        if u._first_segment_offset != offset - (offset // segsize) * segsize or u._read_marker != 0:
            return "uploadable's in-segment offset wrong"
        if u.get_size() != offset + newlen:
            return "uploadable size is not offset+len(data)"
        new_size = offset + newlen if offset + newlen > old_size else old_size
        # the node's cached size (`stale`) is arbitrary: the plan must depend on the version's own data length only
        pub = _publisher_for_update(u, uoff, bht, uver, k, n, stale)
    finally:
        pub_mod.DEFAULT_MUTABLE_MAX_SEGMENT_SIZE, fn_mod.Publish = saved
    if pub.data is not u:
        return "publisher does not read from the uploadable it was given"
    if pub.datalength != new_size:
        return "publisher's data length is not max(size of the version being updated, offset+len(data))"
    if pub.segment_size != segsize:
        return "publisher's segment size differs from the old version's"
    ns = pub.num_segments
    if not ((ns - 1) * segsize < new_size <= ns * segsize):
        return "num_segments is not that of the updated file"
    if (ns - 1) * segsize + pub.tail_segment_size != new_size:
        return "tail segment size is not that of the updated file"
    if pub.starting_segment != offset // segsize or pub._current_segment != pub.starting_segment:
        return "publisher does not start at the segment of the first written byte"
    if pub.end_segment != _s_last(old_size, offset, newlen, segsize):
        return "publisher does not stop at the segment of the last byte that changes"
    return True


def h_transform_read(old_size: int, offset: int, newlen: int, segsize: int, t: int, short: int, p: int) -> bool:
    """
    pre: segsize == B["segsize"]
    pre: 1 <= old_size and 0 <= offset <= old_size and 0 <= newlen and 0 <= t and 0 <= p and 0 <= short
    post: _ == True
    """
    fv = _version_obj(segsize, old_size, 3, 10, False)
    fv._update_servermap = lambda mode=MODE_WRITE, update_range=None: defer.succeed(None)
    data = FakeData(newlen)
    _result(fv._do_update_update(data, offset))
    s0r, s1r = fv._start_segment, fv._end_segment
    u = pub_mod.TransformingUploadable(data, offset, segsize,
                                       ProvBuf.src("old", _seglen(old_size, segsize, s0r), s0r * segsize),
                                       ProvBuf.src("old", _seglen(old_size, segsize, s1r), s1r * segsize))
    s0 = offset // segsize
    wend = offset + newlen
    new_size = wend if wend > old_size else old_size
    # file positions the publisher reads: [s0*segsize, E), one segment (full or the file's tail) per read
    e = (_s_last(old_size, offset, newlen, segsize) + 1) * segsize
    if e > new_size:
        e = new_size
    pos = s0 * segsize + t * segsize
    assume(pos < e)
    length = segsize if pos + segsize <= e else e - pos
    # the publisher reads the whole segment (short == 0); any shorter read from the same (segment-aligned) state must
    # return a prefix of it
    assume(short < length)
    length = length - short
    fso = offset - s0 * segsize
    u._read_marker = t * segsize
    data._pos = _clamp(t * segsize - fso, 0, newlen)
    r = u.read(length)
    if len(r) != length:
        return "read returned the wrong number of bytes"
    if p < length:
        xx = pos + p
        want = ("new", xx - offset) if offset <= xx < wend else ("old", xx)
        if r.at(p) != want:
            return "byte read for the segment is not the byte of the updated file"
    if u._read_marker != t * segsize + length:
        return "read marker not advanced by the amount read"
    if data._pos != _clamp(t * segsize + length - fso, 0, newlen):
        return "new-data position inconsistent after the read"
    return True


class _SeqData(object):
    """uploadable handing out single-run buffers of source "seg" at the current position"""

    def __init__(self, size, pos):
        self.size, self._pos, self.asked = size, pos, []

    def get_size(self):
        return self.size

    def read(self, length):
        self.asked.append(length)
        out = ProvBuf.src("seg", length, self._pos)
        self._pos += length
        return [out]


def h_encode_pieces(datalength: int, maxseg: int, k: int, sdmf: bool, j: int, piece: int, p: int) -> bool:
    """
    pre: k == B["k"] and maxseg == B["maxseg"] and sdmf == B["sdmf"]
    pre: 1 <= datalength and 0 <= j and 0 <= piece < k and 0 <= p
    post: _ == True
    """
    n = k + 2
    saved = pub_mod.DEFAULT_MUTABLE_MAX_SEGMENT_SIZE
    pub_mod.DEFAULT_MUTABLE_MAX_SEGMENT_SIZE = maxseg
    _Zfec.encoded = []
    try:
        pub = NS(_version=(SDMF_VERSION if sdmf else MDMF_VERSION), data=NS(get_size=lambda: datalength),
                 required_shares=k, total_shares=n, datalength=datalength, readkey=b"r" * 16, _status=_Status())
        _setup_pub(pub, offset=0)
        segsize = pub.segment_size
        assume(j < pub.num_segments)
        src = _SeqData(datalength, j * segsize)
        pub.data = src
        (res, salt) = _result(_encode_segment(pub, j))
    finally:
        pub_mod.DEFAULT_MUTABLE_MAX_SEGMENT_SIZE = saved
    have = _seglen(datalength, segsize, j)
    if src.asked != [have]:
        return "publisher did not read exactly the data bytes of segment j"
    if len(_Zfec.encoded) != 1:
        return "segment not encoded exactly once"
    (ek, en, pieces) = _Zfec.encoded[0]
    if (ek, en) != (k, n) or len(pieces) != k:
        return "wrong codec parameters"
    (shares, ids) = res
    if len(shares) != n or list(ids) != list(range(n)) or shares[piece] is not pieces[piece]:
        return "encoder output is not one block per share number"
    psize = len(pieces[piece])
    if psize * k < have or (psize - 1) * k >= have:
        return "piece size is not ceil(segment bytes / k)"
    q = piece * psize + p
    if p < psize:
        got = pieces[piece].at(p)
        if q < have:
            if got != ("seg", j * segsize + q):
                return "pieces fed to the encoder are not the segment in order"
        elif got != (ProvBuf.ZERO, 0):
            return "padding is not zero bytes"
    return True


# ---- 3. publisher and retriever agree on the layout ---------------------------------------------------

def _retriever(segsize, datalength, k, n, sdmf, offset, read_length):
    r = ret_mod.Retrieve.__new__(ret_mod.Retrieve)
    r.verinfo = _verinfo(segsize, datalength, k, n, sdmf)
    r._data_length = datalength
    r._offset = offset
    r._read_length = read_length
    r._verify = False
    r._pause_deferred = None
    r._stopped = False
    r._log_number = 0
    r.log = lambda *a, **kw: 0      # methods not log-stripped (e.g. a helper a refactor extracted) still run
    r._status = _Status()
    r._set_current_status = lambda state: None
    r._node = NS(get_readkey=lambda: b"r" * 16)
    r._decrypt_segment = lambda segment_and_salt: defer.succeed(segment_and_salt[0])     # ideal cipher
    return r


def h_param_agreement(datalength: int, maxseg: int, k: int, n: int, sdmf: bool) -> bool:
    """
    pre: k == B["k"] and maxseg == B["maxseg"] and sdmf == B["sdmf"] and k <= n <= 255
    pre: 1 <= datalength <= B["size_max"]
    post: _ == True
    """
    saved = pub_mod.DEFAULT_MUTABLE_MAX_SEGMENT_SIZE
    pub_mod.DEFAULT_MUTABLE_MAX_SEGMENT_SIZE = maxseg
    try:
        pub = NS(_version=(SDMF_VERSION if sdmf else MDMF_VERSION), data=NS(get_size=lambda: datalength),
                 required_shares=k, total_shares=n, datalength=datalength)
        _setup_pub(pub, offset=0)
    finally:
        pub_mod.DEFAULT_MUTABLE_MAX_SEGMENT_SIZE = saved
    seg = pub.segment_size
    want_min = datalength if sdmf else maxseg
    if seg % k != 0 or seg < want_min or seg - k >= want_min:
        return "segment size is not the least multiple of k >= the format's segment size"
    ns = pub.num_segments
    if not ((ns - 1) * seg < datalength <= ns * seg):
        return "publisher's num_segments is not ceil(datalength/segsize)"
    if sdmf and ns != 1:
        return "SDMF must be one segment"
    tail = pub.tail_segment_size
    if (ns - 1) * seg + tail != datalength or not (1 <= tail <= seg):
        return "segments do not tile the file"
    if pub.piece_size * k != seg:
        return "k blocks do not tile a full segment"
    tb = pub.tail_fec.get_block_size()
    if tb * k < tail or (tb - 1) * k >= tail:
        return "tail block size is not ceil(tail/k)"
    if (pub.starting_segment, pub.end_segment) != (0, ns - 1):
        return "whole-file publish does not push segments 0..n-1"
    r = _retriever(seg, datalength, k, n, sdmf, 0, datalength)
    r._setup_encoding_parameters()
    if (r._version == SDMF_VERSION) != sdmf:
        return "format misdetected"
    if r._num_segments != ns or r._segment_size != seg:
        return "retriever disagrees on the number/size of segments"
    if r._tail_data_size != tail:
        return "retriever disagrees on the tail data size"
    if r._segment_decoder.share_size != pub.piece_size or r._tail_decoder.share_size != tb:
        return "decoder block sizes differ from the encoder's"
    if r._tail_segment_size != tb * k:
        return "padded tail size is not k * tail block size"
    if (r._start_segment, r._last_segment, r._current_segment) != (0, ns - 1, 0):
        return "whole-file read does not cover segments 0..n-1"
    return True


# ---- 4. read: what reaches the consumer for segment j -------------------------------------------------

class _Consumer(object):
    def __init__(self):
        self.writes = []

    def write(self, data):
        self.writes.append(data)


def _padded_segment(datalength, segsize, k, j):
    have = _seglen(datalength, segsize, j)
    padded = mathutil.next_multiple(have, k)
    # one run; positions >= `have` are the codec's padding: they carry source offsets >= datalength, which no
    # expected byte ever has, so delivering padding in place of data is still detected
    return have, ProvBuf.src("file", padded, j * segsize)


def h_retrieve_trim(datalength: int, segsize: int, k: int, offset: int, read_length: int, j: int, p: int, sdmf: bool) -> bool:
    """
    pre: k == B["k"] and sdmf == B["sdmf"] and (sdmf or segsize == B["segsize"])
    pre: 1 <= datalength and 0 <= offset < datalength and 1 <= read_length and offset + read_length <= datalength
    pre: segsize >= k and 0 <= j and 0 <= p
    post: _ == True
    """
    if sdmf:
        segsize = mathutil.next_multiple(datalength, k)
        j = 0
    n = k + 2
    r = _retriever(segsize, datalength, k, n, sdmf, offset, read_length)
    r._setup_encoding_parameters()
    assume(r._start_segment <= j <= r._last_segment)
    r._current_segment = j
    r._consumer = _Consumer()
    have, _Zfec.segment = _padded_segment(datalength, segsize, k, j)
    bs = len(_Zfec.segment) // k
    results = []
    nblocks = k + 1 if B.get("extra") else k           # more than k validated blocks may be on hand
    for sh in range(nblocks):
        results.append({sh: (ProvBuf.src("blk%d" % sh, bs, 0), b"salt")})
    _Zfec.decoded = []
    d = r._maybe_decode_and_decrypt_segment(results, j)
    _result(d)
    if len(_Zfec.decoded) != 1 or len(_Zfec.decoded[0][2]) != k:
        return "decoder not called once with exactly k blocks"
    if len(r._consumer.writes) != 1:
        return "consumer not written exactly once for the segment"
    w = r._consumer.writes[0]
    lo = offset if j == r._start_segment else j * segsize
    hi = offset + read_length if j == r._last_segment else (j + 1) * segsize
    if not (j * segsize <= lo <= hi <= (j + 1) * segsize):
        return "start/last segment do not contain the ends of the requested range"
    if len(w) != hi - lo:
        return "wrong number of bytes delivered for the segment"
    if p < hi - lo and w.at(p) != ("file", lo + p):
        return "delivered byte is not the file byte at that position"
    if r._current_segment != j + 1:
        return "current segment not advanced"
    return True


def h_update_decode(datalength: int, segsize: int, k: int, segnum: int, p: int) -> bool:
    """
    pre: k == B["k"] and segsize == B["segsize"] and segsize >= k
    pre: 1 <= datalength and 0 <= segnum and 0 <= p
    post: _ == True
    """
    n = k + 2
    r = _retriever(segsize, datalength, k, n, False, None, None)
    assume(segnum * segsize < datalength)
    have, _Zfec.segment = _padded_segment(datalength, segsize, k, segnum)
    bs = len(_Zfec.segment) // k
    blocks = dict((sh, (ProvBuf.src("blk%d" % sh, bs, 0), b"salt")) for sh in range(k))
    out = _result(r.decode(blocks, segnum))
    if len(out) != have:
        return "decoded boundary segment has the wrong length (padding not trimmed / data cut)"
    if p < have and out.at(p) != ("file", segnum * segsize + p):
        return "decoded boundary segment byte wrong"
    return True


# ---- 5. SDMF / modify-based update: the splice --------------------------------------------------------

def h_modify_splice(old_len: int, offset: int, newlen: int, p: int) -> bool:
    """
    pre: 0 <= old_len and 0 <= offset <= old_len and 0 <= newlen and 0 <= p
    post: _ == True
    """
    fv = _version_obj(old_len, old_len, 3, 10, True)
    got = []
    fv._modify = lambda m, backoffer: (got.append(m), defer.succeed("ok"))[1]
    data = FakeData(newlen)
    _result(fv._do_modify_update(data, offset))
    if len(got) != 1:
        return "modifier not registered"
    old = ProvBuf.src("old", old_len, 0)
    new = got[0](old, None, True)
    end = offset + newlen
    want_len = end if end > old_len else old_len
    if len(new) != want_len:
        return "spliced length wrong"
    if len(old) != old_len or old.at(p) != (("old", p) if p < old_len else None):
        return "old contents mutated"
    if p < want_len:
        want = ("new", p - offset) if offset <= p < end else ("old", p)
        if new.at(p) != want:
            return "splice changed a byte outside the write or misplaced the data"
    return True



# ---- 6. where the MDMF write proxy puts the blocks inside the share -------------------------------------

from allmydata.mutable import layout as lay_mod
hlib.encoded(lay_mod.MDMFSlotWriteProxy.__init__, lay_mod.MDMFSlotWriteProxy.put_block, lay_mod.MDMFSlotWriteProxy.put_encprivkey,
             lay_mod.MDMFSlotWriteProxy.put_blockhashes)


def h_mdmf_block_layout(datalength: int, segsize: int, k: int, j: int) -> bool:
    """
    pre: k == B["k"] and segsize == B["segsize"] and 1 <= datalength and 0 <= j
    post: _ == True
    """
    n = k + 2
    w = lay_mod.MDMFSlotWriteProxy(1, None, b"S" * 16, (b"we", b"rs", b"cs"), 5, k, n, segsize, datalength)
    # independent model of the file's segments and of the publisher's block sizes (encode_pieces / param_agreement)
    ns = (datalength + segsize - 1) // segsize
    assume(j < ns)
    salt = 16
    full_block = segsize // k

    def blk(i):
        have = _seglen(datalength, segsize, i)
        return (have + k - 1) // k
    size_j = blk(j)
    if j + 1 < ns and size_j != full_block:
        return "model error"
    base = w._offsets['share_data']
    fixed_end = (lay_mod.MDMFHEADERSIZE + lay_mod.PRIVATE_KEY_SIZE + lay_mod.SIGNATURE_SIZE
                 + lay_mod.VERIFICATION_KEY_SIZE + lay_mod.SHARE_HASH_CHAIN_SIZE)
    if w._offsets['enc_privkey'] != lay_mod.MDMFHEADERSIZE or base != fixed_end:
        return "share data does not start right after the fixed-size header/key/signature/hash-chain area"
    # the block the publisher produces for segment j is accepted and queued at its slot
    w.put_block(ProvBuf.src("blk", size_j, 0), j, ProvBuf.src("salt", salt, 0))
    if len(w._writevs) != 1:
        return "put_block did not queue exactly one write"
    (off, data) = w._writevs[0]
    want_off = base + j * (salt + full_block)              # all earlier segments are full ones
    if off != want_off or len(data) != salt + size_j:
        return "block j is not written at share_data + j*(salt+block) with its salt in front"
    if data.at(0) != ("salt", 0) or (size_j > 0 and data.at(salt) != ("blk", 0)):
        return "salt/block order wrong"
    end_j = off + len(data)
    # blocks are disjoint and contiguous: the next block starts where this one ends; the last one ends exactly where
    # the block hash tree begins (also when datalength is an exact multiple of the segment size)
    if j + 1 < ns:
        if end_j != base + (j + 1) * (salt + full_block):
            return "gap/overlap between consecutive blocks"
    else:
        if end_j != w._offsets['block_hash_tree']:
            return "last block does not end where the block hash tree starts (overlap or gap)"
    total = (ns - 1) * (salt + full_block) + salt + blk(ns - 1)
    if w._offsets['block_hash_tree'] - base != total:
        return "share data area is not the sum of the (salt + block) sizes"
    # a block of any other size is refused
    try:
        w.put_block(ProvBuf.src("blk", size_j + 1, 0), j, ProvBuf.src("salt", salt, 0))
        return "oversized block accepted"
    except lay_mod.LayoutInvalid:
        pass
    # later fields start after the data: the block hash tree write lands at offsets['block_hash_tree'], EOF after it
    w.put_encprivkey(b"k" * 10)
    w.put_blockhashes([b"h" * 32, b"h" * 32])
    (boff, bdata) = w._writevs[-1]
    if boff != w._offsets['block_hash_tree'] or w._offsets['EOF'] != boff + 64:
        return "block hash tree not placed right after the share data"
    return True
