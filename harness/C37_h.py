"""
C37 — Spans / DataSpans behave like a set of integers / a partial map offset->byte.
One operation from an ARBITRARY valid state (<= NSPANS spans described by symbolic
gaps and lengths), arbitrary operands, and a universally quantified probe position p.
No upper bound on any integer.
"""
from vlib import hlib
from vlib.hlib import ProvBuf, assume
from allmydata.util import spans as S

B = hlib.bounds()
hlib.encoded(S.Spans.add, S.Spans.remove, S.Spans.__contains__, S.Spans.__and__, S.Spans.__sub__,
             S.Spans.__add__, S.Spans.len, S.Spans._check, S.overlap, S.adjacent,
             S.DataSpans.add, S.DataSpans.remove, S.DataSpans.get, S.DataSpans.pop, S.DataSpans.get_spans,
             S.DataSpans.assert_invariants)


def _mk(n, gl):
    """gl = [(gap, len), ...]; first gap >= 0, later gaps >= 1 (non-adjacent), len >= 1."""
    out = []
    pos = 0
    for i in range(n):
        g, l = gl[i]
        start = pos + g
        out.append((start, l))
        pos = start + l
    return out


def _valid(n, gl, nmax):
    if not (0 <= n <= nmax):
        return False
    for i in range(n):
        g, l = gl[i]
        if l < 1:
            return False
        if g < (0 if i == 0 else 1):
            return False
    return True


def _member(spans, p):
    for (s, l) in spans:
        if s <= p < s + l:
            return True
    return False


def _inv_ok(sp):
    prev_end = None
    for (s, l) in sp:
        if l < 1 or s < 0:
            return False
        if prev_end is not None and not (s > prev_end):
            return False
        prev_end = s + l
    return True


def _spans_obj(lst):
    o = S.Spans()
    o._spans = list(lst)
    return o


def h_spans_add(n: int, g0: int, l0: int, g1: int, l1: int, g2: int, l2: int, start: int, length: int, p: int) -> bool:
    """
    pre: _valid(n, [(g0, l0), (g1, l1), (g2, l2)], B.get("nspans", 3))
    pre: start >= 0 and length > 0
    post: _ == True
    """
    pre = _mk(n, [(g0, l0), (g1, l1), (g2, l2)])
    o = _spans_obj(pre)
    r = o.add(start, length)
    if r is not o:
        return "add does not return self"
    if not _inv_ok(o._spans):
        return "invariant broken"
    want = _member(pre, p) or (start <= p < start + length)
    if _member(o._spans, p) != want:
        return "membership wrong at probe"
    if ((p, 1) in o) != want and p >= 0:
        return "__contains__ disagrees"
    return True


def h_spans_remove(n: int, g0: int, l0: int, g1: int, l1: int, g2: int, l2: int, start: int, length: int, p: int) -> bool:
    """
    pre: _valid(n, [(g0, l0), (g1, l1), (g2, l2)], B.get("nspans", 3))
    pre: start >= 0 and length > 0
    post: _ == True
    """
    pre = _mk(n, [(g0, l0), (g1, l1), (g2, l2)])
    o = _spans_obj(pre)
    o.remove(start, length)
    if not _inv_ok(o._spans):
        return "invariant broken"
    want = _member(pre, p) and not (start <= p < start + length)
    if _member(o._spans, p) != want:
        return "membership wrong at probe"
    return True


def h_spans_len_contains(n: int, g0: int, l0: int, g1: int, l1: int, g2: int, l2: int, start: int, length: int) -> bool:
    """
    pre: _valid(n, [(g0, l0), (g1, l1), (g2, l2)], B.get("nspans", 3))
    pre: start >= 0 and length > 0
    post: _ == True
    """
    pre = _mk(n, [(g0, l0), (g1, l1), (g2, l2)])
    o = _spans_obj(pre)
    total = 0
    inside = False
    for (s, l) in pre:
        total = total + l
        if s <= start and start + length <= s + l:
            inside = True
    if o.len() != total:
        return "len is not the cardinality"
    if bool(o) != (total > 0):
        return "truthiness"
    if ((start, length) in o) != inside:
        return "__contains__ is not 'whole range held'"
    return True


def h_spans_setops(na: int, a0: int, a1: int, a2: int, a3: int, nb: int, b0: int, b1: int, b2: int, b3: int, op: int, p: int) -> bool:
    """
    pre: _valid(na, [(a0, a1), (a2, a3)], B.get("na", 2)) and _valid(nb, [(b0, b1), (b2, b3)], B.get("nb", 2))
    pre: 0 <= op <= 2 and (B.get("op") is None or op == B["op"])
    post: _ == True
    """
    A = _mk(na, [(a0, a1), (a2, a3)])
    Bq = _mk(nb, [(b0, b1), (b2, b3)])
    oa, ob = _spans_obj(A), _spans_obj(Bq)
    if op == 0:
        r = oa & ob
        want = _member(A, p) and _member(Bq, p)
    elif op == 1:
        r = oa - ob
        want = _member(A, p) and not _member(Bq, p)
    else:
        r = oa + ob
        want = _member(A, p) or _member(Bq, p)
    if oa._spans != A or ob._spans != Bq:
        return "operands mutated"
    if not _inv_ok(r._spans):
        return "invariant broken"
    if _member(r._spans, p) != want:
        return "set operation wrong at probe"
    # the result must be a value of its own: a later in-place edit of it must not change an operand
    if r is oa or r is ob or r._spans is oa._spans or r._spans is ob._spans:
        return "result aliases an operand"
    q = p if p >= 0 else 0
    r.add(q, 1)
    if oa._spans != A or ob._spans != Bq:
        return "editing the result changed an operand"
    return True


# ---- DataSpans on provenance buffers ---------------------------------------

def _mkdata(n, gl):
    out = []
    pos = 0
    for i in range(n):
        g, l = gl[i]
        start = pos + g
        out.append((start, ProvBuf.src("old%d" % i, l, 0)))
        pos = start + l
    return out


def _data_at(chunks, p):
    for (s, d) in chunks:
        if s <= p < s + len(d):
            t, o = d.at(p - s)
            return (t, o)
    return None


def _dinv_ok(chunks):
    prev_end = None
    for (s, d) in chunks:
        if len(d) < 1:
            return False
        if prev_end is not None and not (s > prev_end):
            return False
        prev_end = s + len(d)
    return True


def h_dataspans_add(n: int, g0: int, l0: int, g1: int, l1: int, start: int, length: int, p: int) -> bool:
    """
    pre: _valid(n, [(g0, l0), (g1, l1)], 2)
    pre: start >= 0 and length >= 0
    post: _ == True
    """
    pre = _mkdata(n, [(g0, l0), (g1, l1)])
    ds = S.DataSpans()
    ds.spans = list(pre)
    ds.add(start, ProvBuf.src("new", length, 0))
    if not _dinv_ok(ds.spans):
        return "invariant broken"
    got = _data_at(ds.spans, p)
    if start <= p < start + length:
        want = ("new", p - start)
    else:
        want = _data_at(pre, p)
    if got != want:
        return "later write must win / other bytes untouched"
    return True


def h_dataspans_remove(n: int, g0: int, l0: int, g1: int, l1: int, start: int, length: int, p: int) -> bool:
    """
    pre: _valid(n, [(g0, l0), (g1, l1)], 2)
    pre: start >= 0 and length > 0
    post: _ == True
    """
    pre = _mkdata(n, [(g0, l0), (g1, l1)])
    ds = S.DataSpans()
    ds.spans = list(pre)
    ds.remove(start, length)
    if not _dinv_ok(ds.spans):
        return "invariant broken"
    got = _data_at(ds.spans, p)
    want = None if (start <= p < start + length) else _data_at(pre, p)
    if got != want:
        return "remove wrong at probe"
    return True


def h_dataspans_get_pop(n: int, g0: int, l0: int, g1: int, l1: int, start: int, length: int, p: int, do_pop: bool) -> bool:
    """
    pre: _valid(n, [(g0, l0), (g1, l1)], 2)
    pre: start >= 0 and length > 0
    post: _ == True
    """
    pre = _mkdata(n, [(g0, l0), (g1, l1)])
    ds = S.DataSpans()
    ds.spans = list(pre)
    held = False
    for (s, d) in pre:
        if s <= start and start + length <= s + len(d):
            held = True
    r = ds.pop(start, length) if do_pop else ds.get(start, length)
    if held:
        if r is None or len(r) != length:
            return "held range not returned"
        if start <= p < start + length:
            if r.at(p - start) != _data_at(pre, p):
                return "wrong byte returned"
    else:
        if r is not None:
            return "returned data for a range not fully held"
    after = _data_at(ds.spans, p)
    if do_pop and held:
        want = None if (start <= p < start + length) else _data_at(pre, p)
    else:
        want = _data_at(pre, p)
    if after != want:
        return "state after get/pop wrong"
    sp = ds.get_spans()
    if _member(sp._spans, p) != (after is not None):
        return "get_spans disagrees with held bytes"
    return True
