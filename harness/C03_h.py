"""
C03 — immutable availability with k good shares: the SegmentFetcher state machine.

One event from an ARBITRARY valid fetcher state (DESIGN 4, C03 clauses a-d).  A state is
a set of share records (share number, server, status), k, the no-more-shares flag and the
per-server diversity limit; the event is a loop run, add_shares, no_more_shares or a
block-request notification.  All of this is symbolic (small ints); share numbers and
servers are dict keys, so every path realises one (state, event) pair (path-per-state,
DESIGN 1.4) and runs the REAL SegmentFetcher methods on it.
"""
from vlib import hlib
from vlib.hlib import assume
hlib.ensure_shims()
import _matching as M
from allmydata.immutable.downloader import fetcher as F
from allmydata.immutable.downloader.common import OVERDUE, COMPLETE, CORRUPT, DEAD, BADSEGNUM, BadSegmentNumberError
from allmydata.interfaces import NotEnoughSharesError, NoSharesError

B = hlib.bounds()
NOTES = [
    "foolscap eventually() in downloader.fetcher is replaced by a harness queue that is drained in FIFO order after the event",
    "DownloadNode is a recorder (fetch_failed / process_blocks / want_more_shares / get_num_segments); Share objects are recorders whose get_block returns an observer "
    "recording subscribe/cancel; block data are tokens",
    "after the solver-decided forks have fixed the state and the event the real methods run on the realised state with CrossHair opcode tracing off "
    "(_matching.run_concrete); identical to traced execution on concrete data",
]
hlib.encoded(F.SegmentFetcher._do_loop, F.SegmentFetcher._find_and_use_share, F.SegmentFetcher._block_request_activity,
             F.SegmentFetcher._no_shares_error, F.SegmentFetcher.add_shares, F.SegmentFetcher.no_more_shares,
             F.SegmentFetcher.loop, F.SegmentFetcher.stop, F.SegmentFetcher._start_share, F.SegmentFetcher._ask_for_more_shares,
             F.SegmentFetcher._cancel_all_requests, F.SegmentFetcher.__init__)

_QUEUE = []


def _eventually(f, /, *a, **kw):
    _QUEUE.append((f, a, kw))


F.eventually = _eventually

NSH = int(B.get("NSH", 3))          # share numbers 0..NSH-1
NSV = int(B.get("NSV", 2))          # servers 0..NSV-1
NREC = int(B.get("NREC", 2))        # at most this many share records
KMAX = int(B.get("KMAX", 2))
PAIRS = [(sh, sv) for sh in range(NSH) for sv in range(NSV)]
UNUSED, ACTIVE, OVERDUE_ST, COMPLETE_ST = 0, 1, 2, 3
STATES = [OVERDUE, COMPLETE, CORRUPT, DEAD, BADSEGNUM]


class _Obs(object):
    def __init__(self, share):
        self.share = share
        self.subs = []
        self.cancelled = 0

    def subscribe(self, cb, **kw):
        self.subs.append((cb, kw))

    def cancel(self):
        self.cancelled += 1


class _Share(object):
    def __init__(self, shnum, server, rtt=0.0):
        self._shnum = shnum
        self._server = "srv%d" % server
        self._dyhb_rtt = rtt
        self.asked = []
        self.obs = []

    def get_block(self, segnum):
        self.asked.append(segnum)
        o = _Obs(self)
        self.obs.append(o)
        return o

    def __repr__(self):
        return "<sh%d on %s>" % (self._shnum, self._server)

    __str__ = __repr__


class _Node(object):
    _si_prefix = "si"

    def __init__(self, numsegs, authoritative):
        self.num_segments = numsegs
        self.auth = authoritative
        self.failed = []
        self.processed = []
        self.hungry = 0

    def get_num_segments(self):
        return (self.num_segments, self.auth)

    def fetch_failed(self, sf, f):
        self.failed.append((sf, f))

    def process_blocks(self, segnum, blocks):
        self.processed.append((segnum, dict(blocks)))

    def want_more_shares(self):
        self.hungry += 1


def _build(recs, k, nms, limit, node):
    """A fetcher in the state described by recs = [(pair index, status)], through the real constructor."""
    sf = F.SegmentFetcher(node, 0, k, None)
    sf._no_more_shares = nms
    sf._max_shares_per_server = limit
    shares = []
    for (pi, st) in recs:
        shnum, server = PAIRS[pi]
        sh = _Share(shnum, server)
        shares.append(sh)
        if st == UNUSED:
            sf._shares.append(sh)
        elif st in (ACTIVE, OVERDUE_ST):
            o = sh.get_block(0)
            o.subscribe(sf._block_request_activity, share=sh, shnum=shnum)
            sf._share_observers[sh] = o
            sf._shares_from_server.add(sh._server, sh)
            if st == ACTIVE:
                sf._active_share_map[shnum] = sh
            else:
                sf._overdue_share_map.add(shnum, sh)
        elif st == COMPLETE_ST:
            sf._blocks[shnum] = ("block", shnum, server)
    sf._shares.sort(key=lambda s: (s._dyhb_rtt, s._shnum))
    return sf, shares


def _rep_ok(sf):
    """representation invariant of a running fetcher (what _build establishes and every step must keep)."""
    outstanding = set(sf._active_share_map.values())
    for s in sf._overdue_share_map.values():
        outstanding |= s
    if set(sf._share_observers.keys()) != outstanding:
        return "observers are not exactly the outstanding (active + overdue) shares"
    from_srv = set()
    for srv, shs in sf._shares_from_server.items():
        if not shs:
            return "empty entry in _shares_from_server"
        for sh in shs:
            if sh._server != srv:
                return "share filed under the wrong server"
        from_srv |= shs
    if from_srv != outstanding:
        return "_shares_from_server is not exactly the outstanding shares"
    for shnum, sh in sf._active_share_map.items():
        if sh._shnum != shnum:
            return "active map keyed by the wrong share number"
    for shnum, shs in sf._overdue_share_map.items():
        if not shs or any(sh._shnum != shnum for sh in shs):
            return "overdue map inconsistent"
    if any(sh in outstanding for sh in sf._shares):
        return "an outstanding share is still in the unused list"
    for srv, shs in sf._shares_from_server.items():
        if len(shs) > sf._max_shares_per_server:
            return "more outstanding requests on one server than the diversity limit"
    return None


def _drain():
    n = 0
    while _QUEUE:
        f, a, kw = _QUEUE.pop(0)
        f(*a, **kw)
        n += 1
        if n > 50:
            raise hlib.HarnessError("eventual-send queue does not drain")


def _step_check(recs, k, nms, limit, ev, evarg, auth_small):
    """ev: 0 loop; 1 no_more_shares; 2 add_shares([new share evarg=pair]) ; 3.. activity on record ev-3 with STATES[evarg]."""
    del _QUEUE[:]
    node = _Node(1 if auth_small else 4, True if auth_small else False)
    if auth_small:
        node.num_segments, node.auth = 0, True        # segment 0 is beyond the (authoritative) end of the file
    sf, shares = _build(recs, k, nms, limit, node)
    bad = _rep_ok(sf)
    if bad:
        raise hlib.HarnessError("pre-state is not valid: " + bad)
    asked_before = dict((sh, len(sh.asked)) for sh in shares)
    blocks_before = dict(sf._blocks)
    new_share = None
    if ev == 0:
        sf.loop()
    elif ev == 1:
        sf.no_more_shares()
        nms = True
    elif ev == 2:
        new_share = _Share(PAIRS[evarg][0], PAIRS[evarg][1])
        shares.append(new_share)
        asked_before[new_share] = 0
        sf.add_shares([new_share])
    else:
        sh = shares[ev - 3]
        state = STATES[evarg]
        o = sf._share_observers[sh]
        (cb, kw) = o.subs[0]
        if state is COMPLETE:
            cb(state=state, block=("block", sh._shnum, "fresh"), **kw)
        elif state is DEAD:
            cb(state=state, f="failure-token", **kw)
        else:
            cb(state=state, **kw)
    _drain()

    # ---- independent model of the share sets after the event -----------------------------------------
    st = {}
    for i, (pi, s0) in enumerate(recs):
        st[shares[i]] = s0
    if new_share is not None:
        st[new_share] = UNUSED
    gone = set()
    if ev >= 3:
        sh = shares[ev - 3]
        state = STATES[evarg]
        if state is OVERDUE:
            st[sh] = OVERDUE_ST
        elif state is COMPLETE:
            st[sh] = COMPLETE_ST
        else:
            gone.add(sh)
            del st[sh]
    complete_nums = set(sh._shnum for sh, s in st.items() if s == COMPLETE_ST)
    # every share number that could still yield a block: complete, outstanding, or not yet tried
    potential = set(sh._shnum for sh in st)

    terminal_fail = len(node.failed)
    terminal_ok = len(node.processed)
    if terminal_fail + terminal_ok > 1:
        return "more than one terminal notification"
    if auth_small:
        if terminal_fail != 1 or not node.failed[0][1].check(BadSegmentNumberError) or sf._running:
            return "segment number beyond the end of the file must fail with BadSegmentNumberError"
        return True
    if terminal_ok:
        segnum, blocks = node.processed[0]
        if sf._running:
            return "fetcher still running after process_blocks"
        if segnum != 0 or len(blocks) < k:
            return "process_blocks with %d blocks, k=%d" % (len(blocks), k)
        if set(blocks.keys()) != complete_nums:
            return "delivered blocks are not exactly the validated ones"
        for shnum, b in blocks.items():
            if b[0] != "block" or b[1] != shnum:
                return "block filed under the wrong share number"
        return True
    if len(complete_nums) >= k:
        return "k validated blocks are available but process_blocks was not called"
    if terminal_fail:
        (who, f) = node.failed[0]
        if who is not sf or sf._running:
            return "fetch_failed protocol"
        if not nms:
            return "gave up although the share finder had not said no_more_shares"
        if len(potential) >= k:
            return "gave up although %d distinct share numbers (>= k=%d) were still complete/outstanding/untried" % (len(potential), k)
        if len(st) == 0:
            if not f.check(NoSharesError):
                return "no shares at all must be NoSharesError"
        elif not f.check(NotEnoughSharesError):
            return "too few shares must be NotEnoughSharesError"
        return True
    # ---- not terminal: the fetcher must still be alive and not stuck ------------------------------------
    if not sf._running:
        return "fetcher stopped without notifying the node"
    bad = _rep_ok(sf)
    if bad:
        return "representation invariant broken: " + bad
    if nms and len(potential) < k:
        return "fewer than k distinct share numbers remain and the finder is exhausted, but the fetch was not failed (the read would hang)"
    active_nums = set(sf._active_share_map.keys())
    have = complete_nums | active_nums
    if set(sf._blocks.keys()) != complete_nums:
        return "_blocks is not the set of validated blocks"
    outstanding = set(sf._share_observers.keys())
    model_out = set(sh for sh, s in st.items() if s in (ACTIVE, OVERDUE_ST))
    started = outstanding - model_out
    if not model_out <= outstanding:
        return "an outstanding request was dropped"
    for sh in started:
        if st.get(sh) != UNUSED:
            return "started a share that was not in the unused list"
        if len(sh.asked) != asked_before[sh] + 1 or sh.asked[-1] != 0:
            return "get_block not called exactly once for a started share"
        if sf._active_share_map.get(sh._shnum) is not sh:
            return "started share not recorded as active"
    for sh in shares:
        if sh not in started and len(sh.asked) != asked_before[sh]:
            return "get_block called on a share that was not started"
    unused = [sh for sh, s in st.items() if s == UNUSED and sh not in started]
    if sorted(map(id, sf._shares)) != sorted(map(id, unused)):
        return "unused list is not (old unused + added) - started"
    if len(have) < k:
        # (d) the diversity limit only postpones: no usable share may be left lying around
        for sh in unused:
            if sh._shnum not in have:
                return "share %r is usable (its number is neither validated nor being fetched) but was left unused" % (sh,)
        # (c) no dead state
        if not outstanding and not (node.hungry > 0 and not nms):
            return "nothing outstanding, no request for more shares: the fetch is stuck"
        if not nms and node.hungry == 0:
            return "needs more shares but did not ask the finder for them"
    return True


def _recs_ok(n, p0, s0, p1, s1, p2, s2):
    if not (0 <= n <= NREC):
        return False
    ps = [p0, p1, p2]
    ss = [s0, s1, s2]
    for i in range(3):
        if i < n:
            if not (0 <= ps[i] < len(PAIRS) and 0 <= ss[i] <= 3):
                return False
            if i > 0 and not (ps[i - 1] < ps[i]):      # records are a set of distinct (share number, server) pairs
                return False
        elif ps[i] != 0 or ss[i] != 0:
            return False
    return True


def h_step(n: int, p0: int, s0: int, p1: int, s1: int, p2: int, s2: int,
           k: int, nms: bool, limit: int, ev: int, evarg: int, badseg: bool) -> bool:
    """
    pre: _recs_ok(n, p0, s0, p1, s1, p2, s2)
    pre: 1 <= k <= KMAX and 1 <= limit <= B.get("LIMIT", 2)
    pre: 0 <= ev < 3 + n and 0 <= evarg < max(len(PAIRS), 5)
    pre: B.get("k") is None or k == B.get("k")
    pre: B.get("n") is None or n == B.get("n")
    pre: B.get("nms") is None or nms == bool(B.get("nms"))
    pre: B.get("limit") is None or limit == B.get("limit")
    pre: B.get("s0lo") is None or (s0 <= 1) == bool(B.get("s0lo"))
    pre: (not badseg) or ev == 0
    post: _ == True
    """
    nn = M.pick(list(range(NREC + 1)), n)
    ps = [p0, p1, p2]
    ss = [s0, s1, s2]
    recs = []
    for i in range(nn):
        recs.append((M.pick(list(range(len(PAIRS))), ps[i]), M.pick([0, 1, 2, 3], ss[i])))
    kk = M.pick(list(range(KMAX + 1)), k)
    lim = M.pick([0, 1, 2, 3], limit)
    e = M.pick(list(range(3 + NREC)), ev)
    # ---- reachable-state invariants ----
    act = {}
    per_server = {}
    for (pi, st) in recs:
        shnum, server = PAIRS[pi]
        if st == ACTIVE:
            assume(shnum not in act)                       # at most one active request per share number
            act[shnum] = True
        if st in (ACTIVE, OVERDUE_ST):
            per_server[server] = per_server.get(server, 0) + 1
    for server, c in per_server.items():
        assume(c <= lim)                                   # the diversity limit was respected when they were started
    # a running fetcher never sits on k validated blocks (it delivers them in the same loop run)
    assume(len(set(PAIRS[pi][0] for (pi, st) in recs if st == COMPLETE_ST)) < kk)
    if e == 0 or e == 1:
        assume(evarg == 0)
    elif e == 2:
        assume(evarg < len(PAIRS))
        for (pi, st) in recs:
            assume(pi != evarg)                            # the finder reports each (server, share) once
    else:
        assume(recs[e - 3][1] in (ACTIVE, OVERDUE_ST))     # notifications come from outstanding requests only
        assume(evarg < 5)
        if recs[e - 3][1] == OVERDUE_ST:
            assume(evarg != 0)                             # OVERDUE is announced once
    a = M.pick(list(range(max(len(PAIRS), 5))), evarg)
    nm = True if nms else False
    bs = True if badseg else False
    return M.run_concrete(_step_check, recs, kk, nm, lim, e, a, bs)


# =====================================================================================================
# Share-level request bookkeeping: a share that cannot supply bytes it really needs must be abandoned
# (DEAD to every waiting fetcher), so that the fetcher can fail over.  Real Share.get_block / loop /
# _do_loop / _send_requests / _got_data / _got_error / _trigger_loop / _fail.
# =====================================================================================================
from twisted.internet import defer
from twisted.python.failure import Failure
from allmydata.immutable.downloader import share as SH
from allmydata.immutable.downloader.share import Share, DataUnavailable
from allmydata.util import observer as OBS
from allmydata.util.spans import Spans, DataSpans

SH.eventually = _eventually
OBS.eventually = _eventually
hlib.encoded(Share.get_block, Share.schedule_loop, Share.loop, Share._do_loop, Share._send_requests, Share._send_request,
             Share._got_data, Share._got_error, Share._trigger_loop, Share._fail, OBS.EventStreamObserver)
NOTES.append("share_truncated: Share is built with __new__; _get_satisfaction is stubbed to 'nothing can be validated yet' and _desire to the symbolic (wanted, needed) "
             "spans, so the obligation is about the request/response bookkeeping only (what is validated from received data is C02); the storage server is a fake whose "
             "read(start, length) returns the bytes of a share image of symbolic length (short or empty answers past the end) or fails; eventually() in downloader.share and "
             "util.observer is the harness queue")


class _BlockEv(object):
    def finished(self, n, when):
        pass

    def error(self, when):
        pass


class _ShareDS(object):
    def add_misc_event(self, *a):
        pass

    def add_block_request(self, *a):
        return _BlockEv()


class _TruncServer(object):
    """storage server facade + remote bucket: the share image is `size` bytes long"""

    def __init__(self, size, fail_read):
        self.size = size
        self.fail_read = fail_read
        self.reads = []

    def get_name(self):
        return b"srvT"

    def callRemote(self, name, *a):
        if name != "read":
            raise hlib.HarnessError("unexpected remote call %r" % (name,))
        (start, length) = a
        self.reads.append((start, length))
        if self.fail_read:
            return defer.fail(RuntimeError("connection lost"))
        end = min(start + length, self.size)
        return defer.succeed(b"d" * max(0, end - start))


def _trunc_check(ws, wl, ns, nl, size, fail_read, nobs):
    del _QUEUE[:]
    srv = _TruncServer(size, fail_read)
    sh = Share.__new__(Share)
    sh._rref = srv
    sh._server = srv
    sh._shnum = 0
    sh._si_prefix = "si"
    sh._lp = None
    sh._alive = True
    sh._loop_scheduled = False
    sh._pending = Spans()
    sh._received = DataSpans()
    sh._unavailable = Spans()
    sh._requested_blocks = []
    sh._download_status = _ShareDS()
    sh.had_corruption = False
    wanted = Spans()
    if wl:
        wanted.add(ws, wl)
    needed = Spans()
    if nl:
        needed.add(ns, nl)
    sh._get_satisfaction = lambda: False
    calls = []

    def desire():
        # speculative ("wanted") bytes are desired only until the first answers are in (in the real _desire they depend on
        # what is still unknown); needed bytes stay desired until they are consumed
        calls.append(1)
        return (Spans(wanted) if len(calls) == 1 else Spans(), Spans(needed))
    sh._desire = desire
    events = []
    for i in range(nobs):
        o = Share.get_block(sh, 0)
        o.subscribe(lambda i=i, **kw: events.append((i, kw)))
    n = 0
    while _QUEUE:
        f, a, kw = _QUEUE.pop(0)
        f(*a, **kw)
        n += 1
        if n > 60:
            return "the share keeps looping (requests are re-sent forever)"
    for (st, ln) in srv.reads:
        if ln <= 0:
            return "empty read request sent"
    asked = Spans()
    for (st, ln) in srv.reads:
        asked.add(st, ln)
    want_all = wanted + needed
    if len(srv.reads) > 2 * (2 + len(list(want_all))):
        return "far more read requests than desired spans: %r" % (srv.reads,)
    if asked.dump() != want_all.dump():
        return "requested %s, desired %s" % (asked.dump(), want_all.dump())
    lost = fail_read and want_all.len() > 0
    missing = Spans()
    if nl and ns + nl > size:
        missing.add(max(ns, size), ns + nl - max(ns, size))
    must_die = lost or missing.len() > 0
    dead = [(i, kw) for (i, kw) in events if kw.get("state") is DEAD]
    if must_die:
        if sh._alive:
            return ("the share can never supply needed bytes %s (image is %d bytes long%s) but it was not abandoned: its block requests never "
                    "finish and the fetcher cannot fail over" % (missing.dump(), size, ", reads fail" if fail_read else ""))
        if sorted(set(i for (i, kw) in dead)) != list(range(nobs)) or len(dead) != len(events):
            return "not every waiting block request was told DEAD (and nothing else): %r" % (events,)
        if not fail_read and not all(kw["f"].check(DataUnavailable) for (i, kw) in dead):
            return "DEAD without a DataUnavailable failure"
        return True
    if not sh._alive or events:
        return "share abandoned (or observers notified) although every needed byte was supplied: %r" % (events,)
    if sh._pending.len():
        return "answered requests are still marked pending: %s" % sh._pending.dump()
    got = sh._received.get_spans()
    avail = Spans(0, size) if size else Spans()
    if got.dump() != (want_all & avail).dump():
        return "received %s, the server supplied %s" % (got.dump(), (want_all & avail).dump())
    if sh._unavailable.dump() != (want_all - avail).dump():
        return "unavailable %s, expected %s" % (sh._unavailable.dump(), (want_all - avail).dump())
    return True


def h_share_trunc(ws: int, wl: int, ns: int, nl: int, size: int, fail_read: bool, nobs: int) -> bool:
    """
    pre: 0 <= ws <= B.get("SPAN", 4) and 0 <= wl <= B.get("SPAN", 4) and 0 <= ns <= B.get("SPAN", 4) and 0 <= nl <= B.get("SPAN", 4)
    pre: 0 <= size <= 2 * B.get("SPAN", 4) + 1 and 1 <= nobs <= 2
    pre: (wl > 0 or ws == 0) and (nl > 0 or ns == 0)
    pre: (B.get("nobs") is None or nobs == B.get("nobs")) and (B.get("fr") is None or fail_read == bool(B.get("fr")))
    post: _ == True
    """
    n = int(B.get("SPAN", 4))
    vals = list(range(n + 1))
    a = [M.pick(vals, x) for x in (ws, wl, ns, nl)]
    sz = M.pick(list(range(2 * n + 2)), size)
    fr = True if fail_read else False
    no = M.pick([0, 1, 2], nobs)
    return M.run_concrete(_trunc_check, a[0], a[1], a[2], a[3], sz, fr, no)


# =====================================================================================================
# (a) every CommonShare must become authoritative, whatever the order of "share number first seen" and
#     "UEB validated"   (real ShareFinder._create_share / update_num_segments / CommonShare)
# (b) a Share that did not validate the UEB itself must desire the block at the writer's offset for the
#     REAL block size   (real Share.__init__/_guess_offsets/get_block/_desire/_desire_data)
# =====================================================================================================
from allmydata.immutable.downloader import finder as FI
from allmydata.immutable.downloader import node as ND
from allmydata.immutable.downloader.share import CommonShare
from allmydata.immutable import layout as LAY
from allmydata.hashtree import IncompleteHashTree

FI.eventually = _eventually
hlib.encoded(FI.ShareFinder._create_share, FI.ShareFinder.update_num_segments, CommonShare.__init__, CommonShare.set_authoritative_num_segments,
             CommonShare.set_block_hash_root, CommonShare.get_needed_block_hashes, CommonShare.need_block_hash_root,
             ND.DownloadNode.get_num_segments, ND.DownloadNode._calculate_sizes, ND.DownloadNode.get_desired_ciphertext_hashes,
             Share.__init__, Share._guess_offsets, Share._desire, Share._desire_data, Share._desire_block_hashes,
             Share._desire_share_hashes, Share._desire_UEB, Share._desire_offsets)
NOTES.append("commonshare_authoritative: finder.Share is replaced (for the call) by a recorder that keeps the CommonShare it was given; 'UEB validated' is modelled as "
             "node.num_segments := real value followed by the real ShareFinder.update_num_segments() (the last two steps of DownloadNode.validate_and_store_UEB)")
NOTES.append("desire_real_geometry: the node's real geometry (segment_size, num_segments, block sizes, have_UEB, hash trees of the real size) is stored as "
             "_parse_and_store_UEB would after ANOTHER share validated the UEB; the share's actual_offsets are the real writer's offset table (layout.make_write_bucket_proxy)")


def _pickv(values, v):
    """the concrete member of `values` equal to the symbolic v (if-chain: one fork per value)"""
    for x in values:
        if v == x:
            return x
    raise AssertionError("value out of range")


class _RecShare(object):
    made = []

    def __init__(self, rref, server, verifycap, commonshare, node, download_status, shnum, dyhb_rtt, logparent):
        self.cs = commonshare
        self.shnum = shnum
        _RecShare.made.append(self)


def _cs_check(guess, real, events):
    """events: list of ints; -1 = the UEB is validated now; s >= 0 = a DYHB answer announces share number s."""
    nd = ND.DownloadNode.__new__(ND.DownloadNode)
    nd.num_segments = None
    nd.guessed_num_segments = guess
    fd = FI.ShareFinder.__new__(FI.ShareFinder)
    fd.node = nd
    fd._commonshares = {}
    fd._si_prefix = "si"
    fd._node_logparent = None
    fd.verifycap = hlib.NS(storage_index=b"x" * 16)
    fd._download_status = None
    saved = FI.Share
    FI.Share = _RecShare
    _RecShare.made = []
    try:
        validated = False
        for i, e in enumerate(events):
            if e < 0:
                nd.num_segments = real
                FI.ShareFinder.update_num_segments(fd)
                validated = True
            else:
                FI.ShareFinder._create_share(fd, e, object(), hlib.NS(sid=i), 0.0)
    finally:
        FI.Share = saved
    by_num = {}
    for sh in _RecShare.made:
        if sh.cs.shnum != sh.shnum:
            return "share %d was given the CommonShare of share %d" % (sh.shnum, sh.cs.shnum)
        if by_num.setdefault(sh.shnum, sh.cs) is not sh.cs:
            return "two shares with number %d do not have the same CommonShare" % sh.shnum
        if fd._commonshares.get(sh.shnum) is not sh.cs:
            return "CommonShare not registered with the finder"
    for shnum, cs in by_num.items():
        if validated:
            if not cs._block_hash_tree_is_authoritative:
                return ("the UEB has been validated (%d segments) but the CommonShare of share %d is not authoritative: the first "
                        "set_block_hash_root() would assert and a good share would be abandoned" % (real, shnum))
            if cs._block_hash_tree_leaves != real or len(cs._block_hash_tree) != len(IncompleteHashTree(real)):
                return "block hash tree of share %d is sized for %d segments, the file has %d" % (shnum, cs._block_hash_tree_leaves, real)
            try:
                cs.set_block_hash_root(b"r" * 32)
                cs.get_needed_block_hashes(real - 1)
            except AssertionError:
                return "CommonShare of share %d refuses its block hash root after the UEB is known" % shnum
        else:
            if cs._block_hash_tree_is_authoritative or cs._block_hash_tree_leaves != guess:
                return "before the UEB is known the CommonShare must carry the guessed size, non-authoritative"
    return True


def h_commonshare(guess: int, real: int, n: int, e0: int, e1: int, e2: int, e3: int) -> bool:
    """
    pre: 1 <= guess <= B.get("NSEGMAX", 3) and 1 <= real <= B.get("NSEGMAX", 3)
    pre: 1 <= n <= 4 and -1 <= e0 <= 2 and -1 <= e1 <= 2 and -1 <= e2 <= 2 and -1 <= e3 <= 2
    pre: (n > 1 or e1 == 0) and (n > 2 or e2 == 0) and (n > 3 or e3 == 0)
    pre: B.get("real") is None or real == B.get("real")
    post: _ == True
    """
    vals = list(range(1, int(B.get("NSEGMAX", 3)) + 1))
    g = _pickv(vals, guess)
    r = _pickv(vals, real)
    nn = _pickv([1, 2, 3, 4], n)
    evs = [_pickv([-1, 0, 1, 2], e) for e in (e0, e1, e2, e3)][:nn]
    assume(len([e for e in evs if e < 0]) <= 1)       # the UEB is validated at most once per node
    return M.run_concrete(_cs_check, g, r, evs)


class _VServer(object):
    def get_version(self):
        return {b"http://allmydata.org/tahoe/protocols/storage/v1": {b"tolerates-immutable-read-overrun": True}}

    def get_name(self):
        return b"srvV"


def _desire_check(k, mg, mr, size, segnum, N):
    del _QUEUE[:]
    guess_seg = k * mg
    real_seg = k * mr
    # ---- independent arithmetic for the writer's layout --------------------------------------------
    numsegs = (size + real_seg - 1) // real_seg
    if segnum >= numsegs:
        return "SKIP"
    bs = real_seg // k
    tail = size - (numsegs - 1) * real_seg
    tail_bs = (tail + k - 1) // k
    blocklen = tail_bs if segnum == numsegs - 1 else bs
    data_size = (numsegs - 1) * bs + tail_bs
    # ---- a fresh Share, created while the node is still guessing ----------------------------------------
    nd = ND.DownloadNode.__new__(ND.DownloadNode)
    nd._verifycap = hlib.NS(size=size, needed_shares=k, total_shares=N, storage_index=b"x" * 16)
    nd.segment_size = None
    nd.num_segments = None
    nd.guessed_segment_size = guess_seg
    nd.have_UEB = False
    gsegs = (size + guess_seg - 1) // guess_seg
    cs = CommonShare(gsegs, "si", 0, None)
    sh = Share(object(), _VServer(), nd._verifycap, cs, nd, _ShareDS(), 0, 0.0, None)
    # ---- another share validates the UEB: the node learns the real geometry -----------------------------
    r = nd._calculate_sizes(real_seg)
    nd.segment_size = real_seg
    nd.num_segments = r["num_segments"]
    nd.block_size = r["block_size"]
    nd.tail_block_size = r["tail_block_size"]
    nd.tail_segment_size = r["tail_segment_size"]
    nd.tail_segment_padded = r["tail_segment_padded"]
    nd.have_UEB = True
    nd.share_hash_tree = IncompleteHashTree(N)
    nd.ciphertext_hash_tree = IncompleteHashTree(nd.num_segments)
    nd.ciphertext_hash_tree_leaves = nd.num_segments
    cs.set_authoritative_num_segments(nd.num_segments)
    if nd.num_segments != numsegs:
        raise hlib.HarnessError("segment count model disagrees with _calculate_sizes")
    # the share has read its (real) offset table
    nsh = len(IncompleteHashTree(N).needed_hashes(0, include_leaf=True))
    wbp = LAY.make_write_bucket_proxy(None, None, data_size, bs, numsegs, nsh, 100)
    sh.actual_offsets = dict(wbp._offsets)
    sh._fieldsize = wbp.fieldsize
    sh._fieldstruct = wbp.fieldstruct
    Share.get_block(sh, segnum)
    (want, need) = Share._desire(sh)
    data0 = wbp._offsets["data"]
    block = Spans(data0 + segnum * bs, blocklen)
    # block data plus the (unused) plaintext-hash-tree area behind it: nothing else is ever desired there, so a block
    # request that is too long or misplaced shows up here
    region = Spans(data0, wbp._offsets["crypttext_hash_tree"] - data0)
    got = (need + want) & region
    if got.dump() != block.dump():
        return ("k=%d file=%d real segsize=%d (guess %d) segment %d: the share desires %s of the block-data region, the writer put the block at %s"
                % (k, size, real_seg, guess_seg, segnum, got.dump(), block.dump()))
    if (need & block).dump() != block.dump():
        return "the block span is only 'wanted', not 'needed', although the offsets are known"
    return True


def h_desire(k: int, mg: int, mr: int, size: int, segnum: int) -> bool:
    """
    pre: 1 <= k <= 3 and 1 <= mg <= B.get("MMAX", 3) and 1 <= mr <= B.get("MMAX", 3)
    pre: 1 <= size <= B.get("SIZEMAX", 16) and 0 <= segnum <= B.get("SEGMAX", 3)
    pre: B.get("k") is None or k == B.get("k")
    post: _ == True
    """
    mm = list(range(1, int(B.get("MMAX", 3)) + 1))
    kk = _pickv([1, 2, 3], k)
    g = _pickv(mm, mg)
    r = _pickv(mm, mr)
    sz = _pickv(list(range(1, int(B.get("SIZEMAX", 16)) + 1)), size)
    sn = _pickv(list(range(int(B.get("SEGMAX", 3)) + 1)), segnum)
    assume(sn * kk * r < sz)            # the segment exists in the real file
    res = M.run_concrete(_desire_check, kk, g, r, sz, sn, 4)
    assume(res != "SKIP")
    return res
