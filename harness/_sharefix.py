"""
Shared fixtures for the storage-container harnesses (C22-C25, C28, C29): installs the fake
filesystem and the struct stand-in into the storage modules and builds symbolic container
pre-states on it.
"""
from vlib import hlib
from vlib.hlib import ProvBuf, assume
hlib.ensure_shims()
from _fakefile import FS, FStruct, BlobJoiner, Crash, Garbage, FBuf    # noqa: F401
import _fakefile
from allmydata.storage import immutable as imm, mutable as mut, lease as lease_mod
from allmydata.storage import immutable_schema, mutable_schema, lease_schema
from allmydata.storage import server as server_mod
from allmydata.storage.lease import LeaseInfo

NOTES = list(_fakefile.NOTES) + [
    "si_b2a/storage_index_to_dir (concrete storage index), HashedLeaseSerializer._hash_secret (blake2b) and "
    "timing_safe_compare on concrete secret tokens: the real functions, executed with tracing switched off",
]

# ---- install the environment stand-ins (once per process) ---------------------------------------
for _m in (imm, mut):
    _m.open = FS.open
    _m.os = FS.os
    _m.struct = FStruct
imm.fileutil = FS.fileutil
server_mod.open = FS.open
server_mod.os = FS.os
server_mod.fileutil = FS.fileutil
lease_mod.struct = FStruct
immutable_schema.struct = FStruct
mutable_schema.struct = FStruct

# concrete-argument helpers run untraced (real functions, tracing off): base32 of the storage index,
# blake2b of the secret tokens, the sha256d-based timing_safe_compare of tokens
server_mod.si_b2a = _fakefile.untraced(server_mod.si_b2a)
server_mod.storage_index_to_dir = _fakefile.untraced(server_mod.storage_index_to_dir)
_real_hash_secret = lease_schema.HashedLeaseSerializer._hash_secret
_hs = _fakefile.untraced(_real_hash_secret)
lease_schema.HashedLeaseSerializer._hash_secret = classmethod(lambda cls, secret: _hs(secret))
lease_mod.timing_safe_compare = _fakefile.untraced(lease_mod.timing_safe_compare)
mut.timing_safe_compare = _fakefile.untraced(mut.timing_safe_compare)

MSF = mut.MutableShareFile
SF = imm.ShareFile
DATA_OFFSET = MSF.DATA_OFFSET          # 468
HEADER_SIZE = MSF.HEADER_SIZE          # 100
MLEASE = MSF.LEASE_SIZE                # 92
ILEASE = SF.LEASE_SIZE                 # 72
MAX_SIZE = MSF.MAX_SIZE
U64 = 1 << 64
U32 = 1 << 32

# zero fill `b"\x00" * n` becomes a provenance run of n zeros (no realisation of n)
_ZC = {b"\x00": hlib.ZeroByte()}
# every MutableShareFile method that builds zero fill (today _change_container_size and _write_share_data; a
# refactor may move the expression into a helper): recompiled with the zero-run stand-in
_zc_methods = hlib.strip_class_consts(MSF, _ZC)
for _m in ("_change_container_size", "_write_share_data"):
    if _m not in _zc_methods and _m in vars(MSF):
        hlib.strip_method(MSF, _m, consts=_ZC)
# mutable_schema._header builds the initial container with b"".join([...]) of packed records
mutable_schema._header = hlib.strip_logs(mutable_schema._header, consts={b"": BlobJoiner()})

NODEID = b"N" * 20
NODEID2 = b"M" * 20
WE_GOOD = b"W" * 32
WE_BAD = b"X" * 32


def tok(prefix, i, size=32):
    """Distinct concrete secret tokens."""
    s = ("%s%d" % (prefix, i)).encode("ascii")
    return s + b"." * (size - len(s))


MAGIC = {1: mutable_schema._magic(1), 2: mutable_schema._magic(2)}
MSCHEMA = dict((s.version, s) for s in mutable_schema.ALL_SCHEMAS)
ISCHEMA = dict((s.version, s) for s in immutable_schema.ALL_SCHEMAS)


def hashed(version, secret):
    """What a container of the given schema version stores for a secret."""
    if version == 1:
        return secret
    return _hs(secret)


def mlease_rec(owner, expiry, renew, cancel, nodeid=NODEID):
    return FStruct.pack(">LL32s32s20s", owner, expiry, renew, cancel, nodeid)


def ilease_rec(owner, renew, cancel, expiry):
    return FStruct.pack(">L32s32sL", owner, renew, cancel, expiry)


def mk_mutable(path, dl, elo, slots, extras, version=2, we=WE_GOOD, nodeid=NODEID):
    """
    A mutable container in an arbitrary consistent state:
      header(magic, nodeid, write enabler, data_length=dl, extra_lease_offset=elo),
      4 in-header lease slots `slots` (packed records), dl bytes of data ("old"),
      elo-468-dl bytes of slack that may hold stale bytes ("stale"), the extra lease count and
      `extras` extra lease records.
    Representation invariant (every state the code itself produces satisfies it):
      0 <= dl, 468 + dl <= elo <= 468 + MAX_SIZE, file size == elo + 4 + 92*len(extras).
    """
    head = [(FStruct.pack(">32s20s32sQQ", MAGIC[version], nodeid, we, dl, elo), 0, HEADER_SIZE)]
    for r in slots:
        head.append((r, 0, MLEASE))
    tail = [("old", 0, dl), ("stale", 0, elo - DATA_OFFSET - dl), _fakefile.to_runs(FStruct.pack(">L", len(extras)))[0]]
    for r in extras:
        tail.append((r, 0, MLEASE))
    return FS.put(path, head, tail, elo - DATA_OFFSET + 4 + MLEASE * len(extras), split=DATA_OFFSET, mkdirs=False)


def mutable_inv(dl, elo):
    return 0 <= dl and DATA_OFFSET + dl <= elo and elo <= DATA_OFFSET + MAX_SIZE


def mk_immutable(path, dlen, leases, version=2, hdr_len=None):
    """An immutable container: header(version, saturated length, lease count), dlen data bytes ("old"), lease records."""
    if hdr_len is None:
        hdr_len = dlen if dlen < U32 - 1 else U32 - 1
    head = [(FStruct.pack(">LLL", version, hdr_len, len(leases)), 0, 0xc)]
    tail = [("old", 0, dlen)]
    for r in leases:
        tail.append((r, 0, ILEASE))
    return FS.put(path, head, tail, dlen + ILEASE * len(leases), split=0xc, mkdirs=False)


def rec_values(st, pos, fmt):
    """Decode a record straight from the file state (harness-side observation, independent of the code under test)."""
    return FStruct.unpack_runs(fmt, st.peek_runs(pos, FStruct.calcsize(fmt)))


class Parent(object):
    """`parent` of MutableShareFile (logging only)."""

    def log(self, *a, **kw):
        return 0


class Clock(object):
    """`clock` of StorageServer / BucketWriter: seconds() and callLater() (timers recorded, fired by the harness)."""

    def __init__(self, now=0):
        self.now = now
        self.timers = []

    def seconds(self):
        return self.now

    def callLater(self, delay, fn, *a, **kw):
        t = Timer(self, delay, fn, a, kw)
        self.timers.append(t)
        return t


class Timer(object):
    def __init__(self, clock, delay, fn, a, kw):
        self.clock, self.delay, self.fn, self.a, self.kw = clock, delay, fn, a, kw
        self.cancelled = False
        self.called = False
        self.resets = []

    def active(self):
        return not (self.cancelled or self.called)

    def cancel(self):
        if not self.active():
            raise RuntimeError("AlreadyCancelled/AlreadyCalled")
        self.cancelled = True

    def reset(self, delay):
        if not self.active():
            raise RuntimeError("AlreadyCancelled/AlreadyCalled")
        self.resets.append(delay)

    def fire(self):
        if not self.active():
            raise hlib.HarnessError("firing an inactive timer")
        self.called = True
        self.fn(*self.a, **self.kw)


SS = server_mod.StorageServer
SHAREDIR = "/s/shares"
INCOMING = "/s/shares/incoming"
SI = b"\x00" * 16
SI_DIR = server_mod.storage_index_to_dir(SI)          # "aa/aaaaaaaaaaaaaaaaaaaaaaaaaa"
BUCKET = SHAREDIR + "/" + SI_DIR
INBUCKET = INCOMING + "/" + SI_DIR


def share_path(shnum):
    return "%s/%d" % (BUCKET, shnum)


def incoming_path(shnum):
    return "%s/%d" % (INBUCKET, shnum)


def mk_server(readonly=False, reserved=0, clock=None):
    """A StorageServer built with __new__ (no crawlers, no reactor) on the fake filesystem."""
    ss = SS.__new__(SS)
    ss.my_nodeid = NODEID
    ss.storedir = "/s"
    ss.sharedir = SHAREDIR
    ss.incomingdir = INCOMING
    ss.reserved_space = reserved
    ss.no_storage = False
    ss.readonly_storage = readonly
    ss.stats_provider = None
    ss.latencies = dict((k, []) for k in ("allocate", "write", "close", "read", "get", "writev", "readv",
                                          "add-lease", "renew", "cancel"))
    ss._clock = clock or Clock()
    ss._bucket_writers = {}
    ss._call_on_bucket_writer_close = []
    return ss


BASE_DIRS = ("/", "/s", SHAREDIR, INCOMING, SHAREDIR + "/aa", BUCKET)


def reset(extra_dirs=()):
    FS.reset(BASE_DIRS + tuple(extra_dirs))


def guard(fn, *args):
    """Run a harness body; an exception escaping from the code under test becomes a violation string WITHOUT
    formatting the exception (its arguments may be symbolic: CrossHair cannot str() them outside tracing)."""
    try:
        return fn(*args)
    except hlib.HarnessError:
        raise
    except Exception as e:
        if hlib.REPLAY:
            return "unexpected exception escaped from the code under test: %r" % (e,)
        return "unexpected exception escaped from the code under test: " + type(e).__name__
