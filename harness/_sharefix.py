"""
Shared fixtures for the storage-container harnesses (C22-C25, C28, C29): installs the fake
filesystem and the struct stand-in into the storage modules and builds symbolic container
pre-states on it.
"""
from vlib import hlib
from vlib.hlib import ProvBuf, assume
hlib.ensure_shims()
from _fakefile import FS, FStruct, BlobJoiner, Crash, Garbage, FBuf    # noqa: F401
import _fakefile
from allmydata.storage import immutable as imm, mutable as mut, lease as lease_mod
from allmydata.storage import immutable_schema, mutable_schema, lease_schema
from allmydata.storage.lease import LeaseInfo

NOTES = list(_fakefile.NOTES)

# ---- install the environment stand-ins (once per process) ---------------------------------------
for _m in (imm, mut):
    _m.open = FS.open
    _m.os = FS.os
    _m.struct = FStruct
imm.fileutil = FS.fileutil
lease_mod.struct = FStruct
immutable_schema.struct = FStruct
mutable_schema.struct = FStruct

MSF = mut.MutableShareFile
SF = imm.ShareFile
DATA_OFFSET = MSF.DATA_OFFSET          # 468
HEADER_SIZE = MSF.HEADER_SIZE          # 100
MLEASE = MSF.LEASE_SIZE                # 92
ILEASE = SF.LEASE_SIZE                 # 72
MAX_SIZE = MSF.MAX_SIZE
U64 = 1 << 64
U32 = 1 << 32

# zero fill `b"\x00" * n` becomes a provenance run of n zeros (no realisation of n)
_ZC = {b"\x00": hlib.ZeroByte()}
hlib.strip_method(MSF, "_change_container_size", consts=_ZC)
hlib.strip_method(MSF, "_write_share_data", consts=_ZC)
# mutable_schema._header builds the initial container with b"".join([...]) of packed records
mutable_schema._header = hlib.strip_logs(mutable_schema._header, consts={b"": BlobJoiner()})

NODEID = b"N" * 20
NODEID2 = b"M" * 20
WE_GOOD = b"W" * 32
WE_BAD = b"X" * 32


def tok(prefix, i, size=32):
    """Distinct concrete secret tokens."""
    s = ("%s%d" % (prefix, i)).encode("ascii")
    return s + b"." * (size - len(s))


MAGIC = {1: mutable_schema._magic(1), 2: mutable_schema._magic(2)}
MSCHEMA = dict((s.version, s) for s in mutable_schema.ALL_SCHEMAS)
ISCHEMA = dict((s.version, s) for s in immutable_schema.ALL_SCHEMAS)


def hashed(version, secret):
    """What a container of the given schema version stores for a secret."""
    if version == 1:
        return secret
    return lease_schema.HashedLeaseSerializer._hash_secret(secret)


def mlease_rec(owner, expiry, renew, cancel, nodeid=NODEID):
    return FStruct.pack(">LL32s32s20s", owner, expiry, renew, cancel, nodeid)


def ilease_rec(owner, renew, cancel, expiry):
    return FStruct.pack(">L32s32sL", owner, renew, cancel, expiry)


def mk_mutable(path, dl, elo, slots, extras, version=2, we=WE_GOOD, nodeid=NODEID):
    """
    A mutable container in an arbitrary consistent state:
      header(magic, nodeid, write enabler, data_length=dl, extra_lease_offset=elo),
      4 in-header lease slots `slots` (packed records), dl bytes of data ("old"),
      elo-468-dl bytes of slack that may hold stale bytes ("stale"), the extra lease count and
      `extras` extra lease records.
    Representation invariant (every state the code itself produces satisfies it):
      0 <= dl, 468 + dl <= elo <= 468 + MAX_SIZE, file size == elo + 4 + 92*len(extras).
    """
    if len(slots) != 4:
        raise hlib.HarnessError("need 4 slots")
    pieces = [FStruct.pack(">32s20s32sQQ", MAGIC[version], nodeid, we, dl, elo)]
    pieces.extend(slots)
    pieces.append(ProvBuf.src("old", dl))
    pieces.append(ProvBuf.src("stale", elo - DATA_OFFSET - dl))
    pieces.append(FStruct.pack(">L", len(extras)))
    pieces.extend(extras)
    return FS.put(path, pieces, split=DATA_OFFSET)


def mutable_inv(dl, elo):
    return 0 <= dl and DATA_OFFSET + dl <= elo and elo <= DATA_OFFSET + MAX_SIZE


def mk_immutable(path, dlen, leases, version=2, hdr_len=None):
    """An immutable container: header(version, saturated length, lease count), dlen data bytes ("old"), lease records."""
    if hdr_len is None:
        hdr_len = dlen if dlen < U32 - 1 else U32 - 1
    pieces = [FStruct.pack(">LLL", version, hdr_len, len(leases)), ProvBuf.src("old", dlen)]
    pieces.extend(leases)
    return FS.put(path, pieces, split=0xc)


def rec_values(st, pos, fmt):
    """Decode a record straight from the file state (harness-side observation, independent of the code under test)."""
    return FStruct.unpack(fmt, st.peek(pos, FStruct.calcsize(fmt)))


class Parent(object):
    """`parent` of MutableShareFile (logging only)."""

    def log(self, *a, **kw):
        return 0
