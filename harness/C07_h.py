"""
C07 — share placement is complete, respects read-only servers, maximises spread.

Path-per-input (DESIGN 1.4): read-only flags, the existing-share relation and the
insertion orders are symbolic; every path realises one layout, runs the REAL
happiness_upload.share_placement on it and compares with z3-decided optima
(harness/_matching.py).

Precondition (the only call site, immutable/upload.py PeerSelector.get_share_placements;
mark_readonly_peer moves a peer from `peers` to `readonly_peers`):
  peers = writable peers, non-empty; readonly_peers disjoint from peers;
  peers_to_shares keys are peers or read-only peers, every value a non-empty set
  (add_peer_with_share creates a key together with its first share); shares = range(N)
  and existing share numbers are < N.
"""
from vlib import hlib
from vlib.hlib import assume
import _matching as M
from allmydata.immutable import happiness_upload as HP

B = hlib.bounds()
NOTES = [
    "peer ids are distinct ints 100+8p (deterministic across processes; colliding in small hash tables so that set iteration "
    "order follows insertion order); real server ids are bytes, the code under test only hashes/compares/sorts them",
    "after the solver-decided forks have fixed every input bit, share_placement runs on the realised plain-Python layout with "
    "CrossHair's opcode tracing off (_matching.run_concrete refuses non-builtin values); identical to traced execution on concrete data",
    "optima (largest number of distinct servers / largest merged happiness over all constraint-respecting total assignments) are "
    "decided by z3 queries in a private context, not by an augmenting-path implementation",
]
hlib.encoded(HP.share_placement, HP._calculate_mappings, HP._servermap_flow_graph, HP._distribute_homeless_shares,
             HP._compute_maximum_graph, HP._convert_mappings, HP._extract_ids, HP._flow_network, HP._reindex,
             HP.residual_network, HP.augmenting_path_for, HP.bfs, HP.calculate_happiness)

P = int(B.get("P", 3))
S = int(B.get("S", 3))
FIX = B.get("fix") or []
RO = B.get("ro")                    # None = read-only flags symbolic; else a list of 0/1 pinning them (case split)
PPERMS = M.perms(P)
ORDERS = B.get("orders")            # None = canonical insertion orders only; "all" or a list of indices into PPERMS
LABEL = [100 + 8 * p for p in range(6)]
EXCLUDED = []                       # known witness classes, filled by the worker between rounds


def _order_ok(o):
    if ORDERS is None:
        return o == 0
    if ORDERS == "all":
        return 0 <= o < len(PPERMS)
    ok = False
    for i in ORDERS:
        if o == i % len(PPERMS):
            ok = True
    return ok


def _ro_ok(ro):
    # at least one writable peer among the first P; flags beyond P are off
    any_w = False
    for p in range(P):
        if not ro[p]:
            any_w = True
    if not any_w:
        return False
    for p in range(P, len(ro)):
        if ro[p]:
            return False
    if RO is not None:
        for p in range(P):
            if bool(ro[p]) != bool(RO[p]):
                return False
    return True


def _pre(ro, bits, dorder, porder):
    return (_ro_ok(ro) and M.bits_zero_beyond(bits, P * S) and M.bits_fixed(bits, FIX)
            and _order_ok(dorder) and _order_ok(porder) and (dorder == porder or not B.get("tie_orders")))


def cls_of(romask, rel):
    return "ro=%s;rel=%s" % ("".join("1" if r else "0" for r in romask[:len(rel)]), M.rel_str(rel, S))


def _layout(romask, rel, dperm, pperm):
    """(peers, readonly_peers, shares, peers_to_shares) as the call site would hold them."""
    peers = set()
    readonly = set()
    for p in pperm:
        if romask[p]:
            readonly.add(LABEL[p])
        else:
            peers.add(LABEL[p])
    p2s = {}
    for p in dperm:
        if rel[p]:
            p2s[LABEL[p]] = set(rel[p])
    return peers, readonly, set(range(S)), p2s


def _allowed(romask, rel):
    """(server, share) pairs a placement may use: any share on a writable server, held shares on a read-only one."""
    out = []
    for p in range(len(rel)):
        for s in range(S):
            if (not romask[p]) or (s in rel[p]):
                out.append((LABEL[p], s))
    return out


def _valid(res, peers, readonly, p2s):
    """completeness + read-only clause; returns None if fine, else a message."""
    if not isinstance(res, dict):
        return "result is not a dict"
    if set(res.keys()) != set(range(S)):
        return "placement keys %r are not exactly the share numbers" % (sorted(res.keys()),)
    for s, v in res.items():
        if v is None:
            return "share %d is not assigned to any server" % s
        if v not in peers and v not in readonly:
            return "share %d assigned to %r which is not one of the servers" % (s, v)
        if v in readonly and s not in p2s.get(v, ()):
            return "read-only server %r is assigned share %d which it does not hold" % (v, s)
    return None


def _run(romask, rel, dperm, pperm):
    rel = [set(r) for r in rel]
    peers, readonly, shares, p2s = _layout(romask, rel, dperm, pperm)
    snap = (set(peers), set(readonly), set(shares), dict((k, set(v)) for k, v in p2s.items()), list(p2s.keys()))
    res = HP.share_placement(peers, readonly, shares, p2s)
    if (peers, readonly, shares, p2s, list(p2s.keys())) != snap:
        return rel, peers, readonly, p2s, res, "share_placement mutated its arguments (the selector reuses them in the next round)"
    return rel, peers, readonly, p2s, res, None


def _valid_check(romask, rel, dperm, pperm):
    rel, peers, readonly, p2s, res, err = _run(romask, rel, dperm, pperm)
    if err:
        return err
    bad = _valid(res, peers, readonly, p2s)
    if bad:
        return bad
    # what the caller does next with it
    if HP.calculate_happiness(res) != len(set(res.values())):
        return "calculate_happiness is not the number of distinct servers"
    return True


def _spread_check(romask, rel, excluded):
    cls = cls_of(romask, rel)
    if cls in excluded:
        return "EXCLUDED"
    rel, peers, readonly, p2s, res, err = _run(romask, rel, list(range(P)), list(range(P)))
    bad = err or _valid(res, peers, readonly, p2s)
    if bad:
        return "(invalid placement, see complete_readonly) " + bad
    got = len(set(res.values()))
    want = M.max_spread_z3(range(S), _allowed(romask, rel))
    if got != want:
        return "placement %r uses %d distinct servers, %d are achievable under the constraints [%s]" % (
            sorted(res.items()), got, want, cls)
    return True


def _happy_check(romask, rel, excluded):
    cls = cls_of(romask, rel)
    if cls in excluded:
        return "EXCLUDED"
    rel, peers, readonly, p2s, res, err = _run(romask, rel, list(range(P)), list(range(P)))
    bad = err or _valid(res, peers, readonly, p2s)
    if bad:
        return "(invalid placement, see complete_readonly) " + bad
    existing = [(LABEL[p], s) for p in range(P) for s in rel[p]]
    merged = set(existing) | set((v, s) for s, v in res.items())
    got = M.max_matching_z3(merged)
    want = M.max_merged_happiness_z3(range(S), _allowed(romask, rel), existing)
    if got != want:
        return "placement %r merged with the existing shares has happiness %d, %d is reachable [%s]" % (
            sorted(res.items()), got, want, cls)
    return True


def _args(r0, r1, r2, r3, bits):
    ro = [True if r else False for r in (r0, r1, r2, r3)]
    rel = M.rel_from_bits(bits, P, S)
    return ro, rel


def h_valid(r0: bool, r1: bool, r2: bool, r3: bool,
            b0: bool, b1: bool, b2: bool, b3: bool, b4: bool, b5: bool, b6: bool, b7: bool,
            b8: bool, b9: bool, b10: bool, b11: bool,
            dorder: int, porder: int) -> bool:
    """
    pre: _pre([r0, r1, r2, r3], [b0, b1, b2, b3, b4, b5, b6, b7, b8, b9, b10, b11], dorder, porder)
    post: _ == True
    """
    ro, rel = _args(r0, r1, r2, r3, [b0, b1, b2, b3, b4, b5, b6, b7, b8, b9, b10, b11])
    dperm = M.pick(PPERMS, dorder)
    pperm = M.pick(PPERMS, porder)
    return M.run_concrete(_valid_check, ro, rel, dperm, pperm)


def h_spread(r0: bool, r1: bool, r2: bool, r3: bool,
             b0: bool, b1: bool, b2: bool, b3: bool, b4: bool, b5: bool, b6: bool, b7: bool,
             b8: bool, b9: bool, b10: bool, b11: bool) -> bool:
    """
    pre: _pre([r0, r1, r2, r3], [b0, b1, b2, b3, b4, b5, b6, b7, b8, b9, b10, b11], 0, 0)
    post: _ == True
    """
    ro, rel = _args(r0, r1, r2, r3, [b0, b1, b2, b3, b4, b5, b6, b7, b8, b9, b10, b11])
    r = M.run_concrete(_spread_check, ro, rel, list(EXCLUDED))
    assume(r != "EXCLUDED")
    return r


def h_happy(r0: bool, r1: bool, r2: bool, r3: bool,
            b0: bool, b1: bool, b2: bool, b3: bool, b4: bool, b5: bool, b6: bool, b7: bool,
            b8: bool, b9: bool, b10: bool, b11: bool) -> bool:
    """
    pre: _pre([r0, r1, r2, r3], [b0, b1, b2, b3, b4, b5, b6, b7, b8, b9, b10, b11], 0, 0)
    post: _ == True
    """
    ro, rel = _args(r0, r1, r2, r3, [b0, b1, b2, b3, b4, b5, b6, b7, b8, b9, b10, b11])
    r = M.run_concrete(_happy_check, ro, rel, list(EXCLUDED))
    assume(r != "EXCLUDED")
    return r


def _classify(r0, r1, r2, r3, *bits):
    bits = list(bits)[:12]
    rel = [[s for s in range(S) if bits[p * S + s]] for p in range(P)]
    return cls_of([r0, r1, r2, r3], rel)


CLASSIFY = {"h_spread": _classify, "h_happy": _classify}


# ---- _servermap_flow_graph: structure of the flow network ---------------------------------------

def _flow_graph_check(rel, pperm, extra):
    rel = [set(r) for r in rel]
    peers = set()
    for p in pperm:
        peers.add(LABEL[p])
    shares = set(range(S))
    servermap = {}
    for p in pperm:
        if rel[p]:
            servermap[LABEL[p]] = set(rel[p])
    if extra:
        # a server outside `peers` (already used by an earlier phase) and a share outside `shares` must be ignored
        servermap[LABEL[P]] = set([0])
        servermap.setdefault(LABEL[pperm[0]], set()).add(S + 1)
    g = HP._servermap_flow_graph(peers, shares, servermap)
    if not servermap:
        return True if g == [] else "empty servermap must give the empty graph"
    n = len(peers) + len(shares) + 2
    if len(g) != n:
        return "graph has %d vertices, expected %d" % (len(g), n)
    # vertex numbering is the code's own (_reindex over the same iterables); recover it from the source row
    if sorted(g[0]) != list(range(1, len(peers) + 1)):
        return "source must point at the peer vertices 1..|peers|"
    p2i, i2p = HP._reindex(peers, 1)
    s2i, i2s = HP._reindex(shares, len(peers) + 1)
    if sorted(p2i.values()) != list(range(1, len(peers) + 1)) or sorted(s2i.values()) != list(range(len(peers) + 1, n - 1)):
        return "_reindex does not number the vertices consecutively"
    lab2p = dict((LABEL[p], p) for p in range(P))
    for peer, i in p2i.items():
        want = sorted(s2i[s] for s in rel[lab2p[peer]])
        if sorted(g[i]) != want or len(g[i]) != len(want):
            return "peer vertex %d has edges %r, the peer holds shares with vertices %r" % (i, g[i], want)
    for s, i in s2i.items():
        if g[i] != [n - 1]:
            return "share vertex must point at the sink only"
    if g[n - 1] != []:
        return "sink must have no outgoing edges"
    return True


def h_flow_graph(b0: bool, b1: bool, b2: bool, b3: bool, b4: bool, b5: bool, b6: bool, b7: bool,
                 b8: bool, b9: bool, b10: bool, b11: bool,
                 porder: int, extra: bool) -> bool:
    """
    pre: M.bits_zero_beyond([b0, b1, b2, b3, b4, b5, b6, b7, b8, b9, b10, b11], P * S)
    pre: 0 <= porder < len(PPERMS)
    post: _ == True
    """
    rel = M.rel_from_bits([b0, b1, b2, b3, b4, b5, b6, b7, b8, b9, b10, b11], P, S)
    pperm = M.pick(PPERMS, porder)
    ex = True if extra else False
    return M.run_concrete(_flow_graph_check, rel, pperm, ex)


# ---- _distribute_homeless_shares ---------------------------------------------------------------

def _homeless_check(rel, mp, dperm):
    """mp[s] in 0..P+1: 0 = homeless (None), 1..P = mapped to writable peer p-1, P+1 = mapped to some other peer
    (a read-only one: not a key of the writable-only relation handed to the function)."""
    rel = [set(r) for r in rel]
    p2s = {}
    for p in dperm:
        if rel[p]:
            p2s[LABEL[p]] = set(rel[p])
    other = LABEL[P]
    mappings = {}
    for s in range(S):
        if mp[s] == 0:
            mappings[s] = None
        elif mp[s] == P + 1:
            mappings[s] = set([other])
        else:
            mappings[s] = set([LABEL[mp[s] - 1]])
    homeless = set(s for s in range(S) if mappings[s] is None)
    before = dict((k, (None if v is None else set(v))) for k, v in mappings.items())
    p2s_before = dict((k, set(v)) for k, v in p2s.items())
    HP._distribute_homeless_shares(mappings, set(homeless), p2s)
    if p2s != p2s_before:
        return "peers_to_shares mutated"
    if set(mappings.keys()) != set(range(S)):
        return "keys changed"
    keys = set(p2s.keys())
    for s in range(S):
        if s not in homeless:
            if mappings[s] != before[s]:
                return "a share that already had a home was moved"
            continue
        holders = set(k for k in keys if s in p2s[k])
        v = mappings[s]
        if holders:
            if v is None or len(v) != 1 or not v <= holders:
                return "homeless share %d is held by %r but was mapped to %r (lease renewal expected)" % (s, sorted(holders), v)
        elif keys:
            if v is None or len(v) != 1 or not v <= keys:
                return "homeless share %d not distributed to one of the candidate peers: %r" % (s, v)
        else:
            if v is not None:
                return "no candidate peers, share must stay unassigned for the round-robin"
    if keys:
        load = dict((k, 0) for k in keys)
        for s in range(S):
            for k in (mappings[s] or ()):
                if k in load:
                    load[k] += 1
        fresh = set()        # peers that received a share nobody held
        for s in homeless:
            if not any(s in p2s[k] for k in keys):
                fresh |= mappings[s]
        for q in fresh:
            for r in keys:
                if load[q] - 1 > load[r]:
                    return "uneven: %r ends with %d shares while %r has %d" % (q, load[q], r, load[r])
    return True


def h_homeless(b0: bool, b1: bool, b2: bool, b3: bool, b4: bool, b5: bool, b6: bool, b7: bool,
               b8: bool, b9: bool, b10: bool, b11: bool,
               m0: int, m1: int, m2: int, m3: int, dorder: int) -> bool:
    """
    pre: M.bits_zero_beyond([b0, b1, b2, b3, b4, b5, b6, b7, b8, b9, b10, b11], P * S)
    pre: M.bits_fixed([b0, b1, b2, b3, b4, b5, b6, b7, b8, b9, b10, b11], FIX)
    pre: 0 <= m0 <= P + 1 and 0 <= m1 <= P + 1 and 0 <= m2 <= P + 1 and 0 <= m3 <= P + 1
    pre: (S > 3 or m3 == 0) and (S > 2 or m2 == 0)
    pre: _order_ok(dorder)
    post: _ == True
    """
    rel = M.rel_from_bits([b0, b1, b2, b3, b4, b5, b6, b7, b8, b9, b10, b11], P, S)
    vals = list(range(P + 2))
    mp = [M.pick(vals, m0), M.pick(vals, m1), M.pick(vals, m2), M.pick(vals, m3)]
    dperm = M.pick(PPERMS, dorder)
    return M.run_concrete(_homeless_check, rel, mp, dperm)
