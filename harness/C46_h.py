"""
C46 — immutable reads always terminate: the DownloadNode segment-request life cycle.

One event from an ARBITRARY valid node state.  The state is the queue of segment
requests (segment number, still-cancellable flag) and the active SegmentFetcher; the
event is fetch_failed, process_blocks (decode ok / decode fails / ciphertext hash
mismatch), a cancel, or a new get_segment.  Segment numbers select list entries and
fetchers, so every path realises one (state, event) pair (path-per-state, DESIGN 1.4)
and runs the REAL DownloadNode methods (and the real SegmentFetcher they start).
"""
from vlib import hlib
from vlib.hlib import assume
hlib.ensure_shims()
import _matching as M
from twisted.internet import defer
from twisted.python.failure import Failure
from allmydata.immutable.downloader import node as N
from allmydata.immutable.downloader import fetcher as F
from allmydata.immutable.downloader.common import BadCiphertextHashError
from allmydata.hashtree import BadHashError
from allmydata.interfaces import NotEnoughSharesError

B = hlib.bounds()
NOTES = [
    "foolscap eventually() in downloader.node and downloader.fetcher is replaced by one harness queue, drained in FIFO order after the event",
    "DownloadNode is built with __new__ plus the attributes the life-cycle methods read; _decode_blocks is replaced by an already-fired Deferred "
    "(segment token or Failure); ciphertext_hash_tree.set_hashes is a stub that accepts or raises BadHashError; download-status/segment events are recorders; "
    "the ShareFinder is a recorder (hungry())",
    "the SegmentFetcher started by _start_new_segment is the real class; with no shares known it asks the finder for more and waits",
    "after the solver-decided forks have fixed state and event the real methods run on the realised state with CrossHair opcode tracing off (_matching.run_concrete)",
]
hlib.encoded(N.DownloadNode.fetch_failed, N.DownloadNode.process_blocks, N.DownloadNode._deliver, N.DownloadNode._start_new_segment,
             N.DownloadNode._extract_requests, N.DownloadNode._cancel_request, N.DownloadNode.get_segment, N.DownloadNode._check_ciphertext_hash,
             N.DownloadNode.got_shares, N.DownloadNode.no_more_shares, N.DownloadNode.want_more_shares, N.Cancel,
             F.SegmentFetcher.add_shares, F.SegmentFetcher.stop)

_QUEUE = []


def _eventually(f, /, *a, **kw):
    _QUEUE.append((f, a, kw))


N.eventually = _eventually
F.eventually = _eventually

NREQ = int(B.get("NREQ", 3))
NSEG = int(B.get("NSEG", 2))


class _Ev(object):
    def __init__(self):
        self.log = []

    def activate(self, when):
        self.log.append("activate")

    def error(self, when):
        self.log.append("error")

    def deliver(self, when, offset, length, decodetime):
        self.log.append(("deliver", offset, length))


class _DS(object):
    def add_misc_event(self, *a):
        pass

    def add_segment_request(self, segnum, when):
        return _Ev()


class _CT(object):
    def __init__(self, ok):
        self.ok = ok

    def set_hashes(self, leaves=None, hashes=None):
        if not self.ok:
            raise BadHashError("ciphertext hash mismatch")


class _Finder(object):
    def __init__(self):
        self.hungry_calls = 0

    def hungry(self):
        self.hungry_calls += 1

    def stop(self):
        pass


def _node(hash_ok, decode_ok):
    nd = N.DownloadNode.__new__(N.DownloadNode)
    nd._segment_requests = []
    nd._active_segment = None
    nd._download_status = _DS()
    nd._lp = None
    nd._si_prefix = "si"
    nd._verifycap = hlib.NS(needed_shares=1, storage_index=b"x" * 16)
    nd._shares = set()
    nd._no_more_shares = False
    nd.num_segments = NSEG
    nd.segment_size = 10
    nd._sharefinder = _Finder()
    nd.ciphertext_hash_tree = _CT(hash_ok)
    if decode_ok:
        nd._decode_blocks = lambda segnum, blocks: defer.succeed((b"segment-%d" % segnum, 0.0))
    else:
        nd._decode_blocks = lambda segnum, blocks: defer.fail(RuntimeError("decode failed"))
    return nd


def _drain():
    n = 0
    while _QUEUE:
        f, a, kw = _QUEUE.pop(0)
        f(*a, **kw)
        n += 1
        if n > 100:
            raise hlib.HarnessError("eventual-send queue does not drain")


def _life_check(segs, precancel, ev, evarg):
    """segs: segment numbers of the requests issued (in order); precancel: 0 = none, i+1 = request i was cancelled before the
    event (this reaches the states where the active fetcher does not serve the first queued request).
    ev: 0 fetch_failed on the active fetcher; 1 process_blocks ok; 2 process_blocks with decode failure; 3 process_blocks with
    ciphertext hash mismatch; 4 cancel request evarg; 5 get_segment(evarg)."""
    del _QUEUE[:]
    nd = _node(hash_ok=(ev != 3), decode_ok=(ev != 2))
    results = []
    reqs = []
    for i, sn in enumerate(segs):
        (d, c) = nd.get_segment(sn)
        r = []
        d.addBoth(r.append)
        results.append(r)
        reqs.append((sn, d, c))
    _drain()
    if precancel:
        reqs[precancel - 1][2].cancel()
        _drain()
        if results[precancel - 1]:
            return "a cancelled request fired"
        del reqs[precancel - 1]
        del results[precancel - 1]
        segs = [sn for (sn, d, c) in reqs]
    # pre-state sanity (what the real get_segment/cancel calls produced)
    if segs:
        sf0 = nd._active_segment
        if sf0 is None or sf0.segnum not in segs or not sf0._running:
            return "after the get_segment calls (and the earlier cancel) no running fetcher serves a queued segment: the queued reads would hang"
    else:
        sf0 = None
        if nd._active_segment is not None:
            return "a fetcher is active although no request is queued"
    if any(results):
        return "a request fired before its segment was fetched"
    hungry0 = nd._sharefinder.hungry_calls

    fired_with = None
    target = None           # segment number whose requests must be retired by this event
    if ev == 0:
        target = sf0.segnum
        sf0.stop()                                      # the fetcher stops itself before reporting
        fired_with = Failure(NotEnoughSharesError("ran out of shares"))
        nd.fetch_failed(sf0, fired_with)
    elif ev in (1, 2, 3):
        target = sf0.segnum
        sf0.stop()
        nd.process_blocks(target, {0: "block"})
    elif ev == 4:
        reqs[evarg][2].cancel()
    elif ev == 5:
        (d, c) = nd.get_segment(evarg)
        r = []
        d.addBoth(r.append)
        results.append(r)
        reqs.append((evarg, d, c))
    _drain()

    # ---- model -------------------------------------------------------------------------------------------
    remaining = []
    for i, (sn, d, c) in enumerate(reqs):
        retired = (target is not None and sn == target and i < len(segs))
        gone = (ev == 4 and i == evarg)
        if retired:
            if len(results[i]) != 1:
                return "request %d for the finished segment fired %d times" % (i, len(results[i]))
            res = results[i][0]
            if ev == 1:
                if isinstance(res, Failure) or res != (target * 10, b"segment-%d" % target, 0.0):
                    return "request %d did not receive (offset, segment, decodetime): %r" % (i, res)
            else:
                if not isinstance(res, Failure):
                    return "request %d of a failed segment received data" % i
                if ev == 0 and res is not fired_with:
                    return "wrong failure delivered"
                if ev == 3 and not res.check(BadCiphertextHashError):
                    return "ciphertext hash mismatch must surface as BadCiphertextHashError, got %r" % (res.value,)
            if c.active:
                return "a retired request is still cancellable"
        elif gone:
            if results[i]:
                return "a cancelled request fired"
        else:
            if results[i]:
                return "request %d for segment %d fired although its segment was not finished" % (i, sn)
            remaining.append((sn, d, c))
    queued = [(t[0], t[1], t[2]) for t in nd._segment_requests]
    if [(sn, id(d), id(c)) for (sn, d, c) in queued] != [(sn, id(d), id(c)) for (sn, d, c) in remaining]:
        return "request queue after the event is not (old queue - retired/cancelled + new) in order"
    act = nd._active_segment
    if not remaining:
        if act is not None:
            return "no requests left but a fetcher is still active (the next read would never start)"
    else:
        if act is None:
            return "requests are queued but no fetcher is active: they would never complete"
        if not isinstance(act, F.SegmentFetcher) or not act._running:
            return "the active fetcher is not running (stale fetcher: queued requests would never complete)"
        if act.segnum not in [sn for (sn, d, c) in remaining]:
            return "the active fetcher works on a segment nobody is waiting for"
        if target is not None or (ev == 4 and sf0 is not None and sf0.segnum not in [sn for (sn, d, c) in remaining]):
            if act is sf0:
                return "the finished fetcher was not replaced"
            if act.segnum != remaining[0][0]:
                return "the new fetcher does not serve the first queued request"
            if nd._sharefinder.hungry_calls <= hungry0:
                return "the new fetcher never asked for shares (its loop did not run)"
        elif sf0 is not None and act is not sf0:
            return "a running fetcher was replaced although its segment is still wanted"
    if sf0 is not None and act is not sf0 and sf0._running:
        return "the replaced fetcher was left running"
    return True


def h_life(n: int, g0: int, g1: int, g2: int, pc: int, ev: int, evarg: int) -> bool:
    """
    pre: 0 <= n <= NREQ and 0 <= g0 < NSEG and 0 <= g1 < NSEG and 0 <= g2 < NSEG and 0 <= pc <= n
    pre: (n > 0 or g0 == 0) and (n > 1 or g1 == 0) and (n > 2 or g2 == 0)
    pre: 0 <= ev <= 5 and 0 <= evarg < max(NREQ, NSEG)
    post: _ == True
    """
    nn = M.pick(list(range(NREQ + 1)), n)
    gs = [g0, g1, g2]
    segs = [M.pick(list(range(NSEG)), gs[i]) for i in range(nn)]
    p = M.pick(list(range(NREQ + 1)), pc)
    e = M.pick(list(range(6)), ev)
    a = M.pick(list(range(max(NREQ, NSEG))), evarg)
    left = nn - (1 if p else 0)
    if e <= 3:
        assume(left > 0 and a == 0)       # a fetcher reports only while it is the active one
    elif e == 4:
        assume(a < left)
    else:
        assume(a < NSEG)
    return M.run_concrete(_life_check, segs, p, e, a)


# =====================================================================================================
# Whole segment read: real ShareFinder + real SegmentFetcher + real DownloadNode life cycle against
# in-memory servers and scripted shares (C03 availability statement, C46 termination).
# =====================================================================================================
from allmydata.immutable.downloader import finder as FI
from allmydata.immutable.downloader.common import OVERDUE, COMPLETE, CORRUPT, DEAD
from allmydata.interfaces import NoSharesError

FI.eventually = _eventually
hlib.encoded(FI.ShareFinder.loop, FI.ShareFinder.hungry, FI.ShareFinder.send_request, FI.ShareFinder._request_retired,
             FI.ShareFinder._got_response, FI.ShareFinder._got_error, FI.ShareFinder._deliver_shares, FI.ShareFinder._create_share,
             F.SegmentFetcher._do_loop, F.SegmentFetcher._find_and_use_share, F.SegmentFetcher._block_request_activity,
             F.SegmentFetcher._no_shares_error)
NOTES.append("whole-read obligation: finder.Share is replaced by a scripted share (get_block returns an observer the harness notifies with OVERDUE/COMPLETE/CORRUPT/DEAD "
             "according to the share's symbolic fate, one notification at a time, oldest or newest request first); finder.reactor is a fake whose timers never fire; servers "
             "answer get_buckets with an already-fired Deferred (share numbers or an error)")

GOOD, BAD_DEAD, LATE_GOOD, BAD_CORRUPT, LATE_DEAD, GOOD_THEN_DEAD = 0, 1, 2, 3, 4, 5
_READ_NO = [0]
FATEMAP = B.get("FATEMAP")        # None: fate index == fate code; else the list of fate codes the index selects from
_OUTSTANDING = []


class _RObs(object):
    segnum = 0

    def __init__(self, share):
        self.share = share
        self.subs = []
        self.cancelled = False
        self.announced_overdue = False
        self.done = False

    def subscribe(self, cb, **kw):
        self.subs.append((cb, kw))

    def cancel(self):
        self.cancelled = True

    def notify(self, **kw):
        for (cb, kw0) in self.subs:
            k2 = dict(kw0)
            k2.update(kw)
            cb(**k2)


class _ScriptedShare(object):
    """stands in for downloader.share.Share"""
    fates = {}

    def __init__(self, rref, server, verifycap, commonshare, node, download_status, shnum, dyhb_rtt, logparent):
        self._shnum = shnum
        self._server = server
        self._dyhb_rtt = 0.0
        self.fate = _ScriptedShare.fates[(server.sid, shnum)]
        self.requests = 0

    def is_alive(self):
        return True

    def get_block(self, segnum):
        self.requests += 1
        o = _RObs(self)
        o.segnum = segnum
        _OUTSTANDING.append(o)
        return o

    def __repr__(self):
        return "<sh%d on srv%d>" % (self._shnum, self._server.sid)

    __str__ = __repr__


_TIMERS = []


class _FReactor(object):
    """timers never fire by themselves; the harness fires the overdue timers of the slow servers explicitly"""
    class _T(object):
        def __init__(self, f, a, kw):
            self.f, self.a, self.kw = f, a, kw
            self.cancelled = False
            self.fired = False

        def cancel(self):
            self.cancelled = True

        def fire(self):
            self.fired = True
            self.f(*self.a, **self.kw)

    def callLater(self, t, f, *a, **kw):
        tm = self._T(f, a, kw)
        _TIMERS.append(tm)
        return tm


FI.Share = _ScriptedShare
FI.reactor = _FReactor()


class _DServer(object):
    def __init__(self, sid, answer, late=False):
        self.sid = sid
        self.answer = answer          # None = error, else list of share numbers
        self.late = late              # the answer arrives only after the finder's overdue timer for the query has fired
        self.pending = None

    def get_name(self):
        return "srv%d" % self.sid

    def get_storage_server(self):
        return self

    def get_buckets(self, si):
        if self.late:
            self.pending = defer.Deferred()
            return self.pending
        if self.answer is None:
            return defer.fail(RuntimeError("server unreachable"))
        return defer.succeed(dict((s, object()) for s in self.answer))

    def answer_now(self):
        d, self.pending = self.pending, None
        if self.answer is None:
            d.errback(Failure(RuntimeError("server unreachable")))
        else:
            d.callback(dict((s, object()) for s in self.answer))


class _DEv(object):
    def finished(self, shnums, when):
        pass

    def error(self, when):
        pass


class _DS2(_DS):
    def add_dyhb_request(self, server, when):
        return _DEv()


class _DBroker(object):
    def __init__(self, servers):
        self.servers = servers

    def get_servers_for_psi(self, si):
        return list(self.servers)


def _read_check(k, answers, fates, lifo, second, late=()):
    """answers[i]: None (error) or list of share numbers on server i; fates[i][shnum] for each held share;
    late[i]: server i's answer to the share query arrives after the finder's overdue timer for it fired."""
    del _QUEUE[:]
    del _OUTSTANDING[:]
    del _TIMERS[:]
    servers = [_DServer(i, answers[i], bool(late[i]) if i < len(late) else False) for i in range(len(answers))]
    _ScriptedShare.fates = {}
    for i, a in enumerate(answers):
        for s in (a or []):
            _ScriptedShare.fates[(i, s)] = fates[i][s]
    nd = _node(hash_ok=True, decode_ok=True)
    nd._download_status = _DS2()
    nd._verifycap = hlib.NS(needed_shares=k, storage_index=b"x" * 16)
    nd._sharefinder = FI.ShareFinder(_DBroker(servers), nd._verifycap, nd, nd._download_status, None)
    seen_blocks = []
    nd._decode_blocks = lambda segnum, blocks: (seen_blocks.append(dict(blocks)), defer.succeed((b"segment-%d" % segnum, 0.0)))[1]

    def quiesce():
        """drain the eventual-send queue and finish outstanding block requests until nothing is left to do"""
        steps = 0
        while True:
            n = 0
            while _QUEUE:
                f, a, kw = _QUEUE.pop(0)
                f(*a, **kw)
                n += 1
                if n > 400:
                    return "eventual-send queue does not drain (livelock)"
            live = [o for o in _OUTSTANDING if not o.done and not o.cancelled]
            if not live:
                return None
            o = live[-1] if lifo else live[0]
            fate = o.share.fate
            if fate == GOOD_THEN_DEAD:          # the server serves the first read and is gone afterwards
                fate = GOOD if _READ_NO[0] == 0 else BAD_DEAD
            if fate in (LATE_GOOD, LATE_DEAD) and not o.announced_overdue:
                o.announced_overdue = True
                o.notify(state=OVERDUE)
            else:
                o.done = True
                if fate in (GOOD, LATE_GOOD):
                    o.notify(state=COMPLETE, block=("block", o.share._shnum))
                elif fate == BAD_CORRUPT:
                    o.notify(state=CORRUPT)
                else:
                    o.notify(state=DEAD, f=Failure(RuntimeError("share died")))
            steps += 1
            if steps > 200:
                return "share notifications never end"

    def run_one():
        (d, c) = nd.get_segment(0)
        res = []
        d.addBoth(res.append)
        rounds = 0
        while True:
            err = quiesce()
            if err:
                return res, err
            slow = [srv for srv in servers if srv.pending is not None]
            if not slow:
                return res, None
            # the queries to the slow servers are still in flight: first their overdue timers fire ...
            for tm in list(_TIMERS):
                if not tm.cancelled and not tm.fired:
                    tm.fire()
            err = quiesce()
            if err:
                return res, err
            # ... then one of the late answers arrives
            slow = [srv for srv in servers if srv.pending is not None]
            if slow:
                slow[0].answer_now()
            rounds += 1
            if rounds > 20:
                return res, "late answers never end"

    for attempt in range(2 if second else 1):
        _READ_NO[0] = attempt
        good_nums = set(s for (i, s), f in _ScriptedShare.fates.items()
                        if f in (GOOD, LATE_GOOD) or (f == GOOD_THEN_DEAD and attempt == 0))
        before = len(seen_blocks)
        res, err = run_one()
        if err:
            return err
        if len(res) != 1:
            return "read %d: every server has answered and every request has finished, but the read fired %d times (it hangs)" % (attempt + 1, len(res))
        r = res[0]
        if nd._active_segment is not None or nd._segment_requests:
            return "node not idle after the read finished"
        if len(good_nums) >= k:
            if isinstance(r, Failure):
                return "read %d failed (%r) although %d distinct good shares were reachable, k=%d" % (attempt + 1, r.value, len(good_nums), k)
            if r != (0, b"segment-0", 0.0):
                return "wrong data delivered"
            blocks = seen_blocks[before]
            if len(blocks) < k or not set(blocks.keys()) <= good_nums:
                return "decoded from blocks %r, good share numbers are %r" % (sorted(blocks), sorted(good_nums))
        else:
            if not isinstance(r, Failure):
                return "read returned data although only %d distinct good shares exist, k=%d" % (len(good_nums), k)
            if not r.check(NotEnoughSharesError, NoSharesError):
                return "read failed with %r instead of a not-enough-shares error" % (r.value,)
            if len(seen_blocks) != before:
                return "decode attempted without k good blocks"
    return True


ANSWERS = [None, [], [0], [1], [0, 1]]


def _late_ok(l0, l1, l2, lifo, second):
    """bound LATE: 0/None = every server answers promptly; 1 = at least one server answers its share query only after the
    finder's overdue timer fired (then the notification order / second-read dimensions are pinned to keep the case small)."""
    nsrv = B.get("NSRV", 2)
    if nsrv < 3 and l2:
        return False
    if not B.get("LATE"):
        return not (l0 or l1 or l2)
    if B.get("LATE") == 2:
        # a late answer (possibly landing while the node is idle after the first read) followed by a second read
        return (l0 or l1 or l2) and not lifo and second
    return (l0 or l1 or l2) and not lifo and not second


def h_read(k: int, a0: int, a1: int, a2: int, f00: int, f01: int, f10: int, f11: int, f20: int, f21: int,
           lifo: bool, second: bool, late0: bool = False, late1: bool = False, late2: bool = False) -> bool:
    """
    pre: _late_ok(late0, late1, late2, lifo, second)
    pre: 1 <= k <= 2 and 0 <= a0 < 5 and 0 <= a1 < 5 and 0 <= a2 < 5
    pre: B.get("NSRV", 2) > 2 or a2 == 1
    pre: 0 <= f00 < B.get("NF", 5) and 0 <= f01 < B.get("NF", 5) and 0 <= f10 < B.get("NF", 5) and 0 <= f11 < B.get("NF", 5) and 0 <= f20 < B.get("NF", 5) and 0 <= f21 < B.get("NF", 5)
    pre: B.get("k") is None or k == B.get("k")
    pre: B.get("a0") is None or a0 == B.get("a0")
    pre: B.get("a0both") is None or (a0 == 4) == bool(B.get("a0both"))
    post: _ == True
    """
    nsrv = int(B.get("NSRV", 2))
    kk = M.pick([0, 1, 2], k)
    ans = [M.pick(list(range(5)), a) for a in (a0, a1, a2)][:nsrv]
    fs = [[f00, f01], [f10, f11], [f20, f21]]
    answers = []
    fates = []
    for i in range(nsrv):
        held = ANSWERS[ans[i]]
        answers.append(None if held is None else list(held))
        row = [0, 0]
        for s in range(2):
            if held is not None and s in held:
                row[s] = M.pick(list(range(6)), fs[i][s])
                if FATEMAP:
                    row[s] = FATEMAP[row[s]]
            else:
                assume(fs[i][s] == 0)          # fate of a share that does not exist is irrelevant
        fates.append(row)
    for i in range(nsrv, 3):
        assume(fs[i][0] == 0 and fs[i][1] == 0)
    lf = True if lifo else False
    sec = True if second else False
    lates = [True if x else False for x in (late0, late1, late2)][:nsrv]
    return M.run_concrete(_read_check, kk, answers, fates, lf, sec, lates)


# =====================================================================================================
# A whole read() through the real Segmentation on a node that does not know the segment size yet
# (it guesses; the guess may point at the wrong segment or beyond the end of the file).
# =====================================================================================================
from allmydata.immutable.downloader import segmentation as SEG
from allmydata.immutable.downloader.common import BADSEGNUM

SEG.eventually = _eventually
hlib.encoded(SEG.Segmentation.start, SEG.Segmentation._maybe_fetch_next, SEG.Segmentation._fetch_next, SEG.Segmentation._got_segment,
             SEG.Segmentation._retry_bad_segment, SEG.Segmentation._error, SEG.Segmentation._done, N.DownloadNode.read,
             N.DownloadNode.get_num_segments)
NOTES.append("segmented_read: the node starts without the real segment size (segment_size/num_segments None, guessed_* set); the scripted share 'fetches the UEB' on its "
             "first block request: the harness then stores the real segment size / segment count in the node (what _parse_and_store_UEB does) and the share answers "
             "BADSEGNUM for a segment number beyond the real end; _decode_blocks returns the real bytes of the segment")

FS = int(B.get("FS", 12))           # file size
RS = int(B.get("RS", 5))            # real segment size
GUESSES = B.get("GUESSES") or [2, 3, 5, 8]
FILE = bytes(bytearray(range(40, 40 + FS)))


class _Consumer(object):
    def __init__(self):
        self.data = b""
        self.producer = None
        self.unregistered = 0

    def registerProducer(self, p, streaming):
        self.producer = p

    def unregisterProducer(self):
        self.unregistered += 1
        self.producer = None

    def write(self, data):
        self.data += data


class _ReadEv(object):
    def __init__(self):
        self.done = 0

    def update(self, *a):
        pass

    def finished(self, when):
        self.done += 1


class _DS3(_DS2):
    def add_read_event(self, offset, size, when):
        return _ReadEv()


def _segread_check(g, offset, size, has_share, second):
    del _QUEUE[:]
    del _OUTSTANDING[:]
    del _TIMERS[:]
    _READ_NO[0] = 0
    servers = [_DServer(0, [0] if has_share else [])]
    _ScriptedShare.fates = {(0, 0): GOOD}
    nd = _node(hash_ok=True, decode_ok=True)
    nd._download_status = _DS3()
    nd._verifycap = hlib.NS(needed_shares=1, storage_index=b"x" * 16, size=FS)
    nd._history = None
    nd.segment_size = None
    nd.num_segments = None
    nd.guessed_segment_size = g
    nd.guessed_num_segments = (FS + g - 1) // g
    nd._sharefinder = FI.ShareFinder(_DBroker(servers), nd._verifycap, nd, nd._download_status, None)
    decoded = []
    nd._decode_blocks = lambda segnum, blocks: (decoded.append(segnum), defer.succeed((FILE[segnum * RS:(segnum + 1) * RS], 0.0)))[1]
    real_numsegs = (FS + RS - 1) // RS

    def quiesce():
        steps = 0
        while True:
            n = 0
            while _QUEUE:
                f, a, kw = _QUEUE.pop(0)
                f(*a, **kw)
                n += 1
                if n > 400:
                    return "eventual-send queue does not drain (livelock)"
            live = [o for o in _OUTSTANDING if not o.done and not o.cancelled]
            if not live:
                return None
            o = live[0]
            o.done = True
            if nd.segment_size is None:
                # the share has fetched and validated the UEB: the node now knows the real geometry
                nd.segment_size = RS
                nd.num_segments = real_numsegs
            if o.segnum >= nd.num_segments:
                o.notify(state=BADSEGNUM)
            else:
                o.notify(state=COMPLETE, block=("block", o.segnum))
            steps += 1
            if steps > 100:
                return "block requests never end"

    for attempt in range(2 if second else 1):
        cons = _Consumer()
        res = []
        d = nd.read(cons, offset, size)
        d.addBoth(res.append)
        err = quiesce()
        if err:
            return err
        if len(res) != 1:
            return ("read %d of [%d:+%d) with guessed segment size %d (real %d, %d segments): every request has been answered but the read fired %d times "
                    "(it hangs)" % (attempt + 1, offset, size, g, RS, real_numsegs, len(res)))
        r = res[0]
        if nd._active_segment is not None or nd._segment_requests:
            return "node not idle after the read"
        if cons.producer is not None or cons.unregistered != 1:
            return "producer not unregistered exactly once"
        if has_share:
            if isinstance(r, Failure):
                return "read %d failed with %r although a good share was available" % (attempt + 1, r.value)
            if r is not cons:
                return "read did not fire with its consumer"
            if cons.data != FILE[offset:offset + size]:
                return "read [%d:+%d) delivered %r, the file has %r" % (offset, size, cons.data, FILE[offset:offset + size])
        else:
            if not isinstance(r, Failure) or not r.check(NotEnoughSharesError, NoSharesError):
                return "read without any share must fail with a not-enough-shares error, got %r" % (r,)
            if cons.data:
                return "data delivered without shares"
    return True


def h_segread(gi: int, offset: int, size: int, has_share: bool, second: bool) -> bool:
    """
    pre: 0 <= gi < len(GUESSES) and 0 <= offset < FS and 1 <= size <= FS - offset
    pre: B.get("gi") is None or gi == B.get("gi")
    pre: B.get("hs") is None or has_share == bool(B.get("hs"))
    post: _ == True
    """
    g = M.pick(list(GUESSES), gi)
    off = M.pick(list(range(FS)), offset)
    sz = M.pick(list(range(FS + 1)), size)
    hs = True if has_share else False
    sec = True if second else False
    return M.run_concrete(_segread_check, g, off, sz, hs, sec)
