"""
C35 — Merkle hash trees accept only genuine leaves (under an ideal, collision-free hash).

Real code executed: hashtree.HashTree.__init__, IncompleteHashTree.__init__/set_hashes/
needed_hashes, CompleteBinaryTreeMixin.needed_for/sibling/parent/lchild/rchild,
depth_of, roundup_pow2.  Hash values are id tokens (harness/_merkle.py); what the
adversary supplies is a symbolic id (or "missing") per tree node.
"""
from vlib import hlib
from vlib.hlib import assume
import _merkle as M
from _merkle import HV
from allmydata import hashtree
from allmydata.hashtree import BadHashError, NotEnoughHashesError

B = hlib.bounds()
NOTES = [M.MODEL_NOTE, M.B32_NOTE]
M.install(hashtree)
hlib.encoded(hashtree.HashTree.__init__, hashtree.IncompleteHashTree.__init__, hashtree.IncompleteHashTree.set_hashes,
             hashtree.IncompleteHashTree.needed_hashes, hashtree.HashTree.needed_hashes,
             hashtree.CompleteBinaryTreeMixin.needed_for, hashtree.CompleteBinaryTreeMixin.sibling,
             hashtree.CompleteBinaryTreeMixin.parent, hashtree.CompleteBinaryTreeMixin.lchild,
             hashtree.CompleteBinaryTreeMixin.rchild, hashtree.depth_of, hashtree.roundup_pow2)

VT = B.get("vtier", 1)
LT = B.get("ltier", 0)
VMAX = M.kmax(B.get("vtier", 1))      # adversary / leaf ids range over [0, VMAX)
LMAX = M.kmax(B.get("ltier", 0))      # genuine leaf ids range over [1, LMAX)


# ---- independent index arithmetic (heap numbering) -----------------------------------------

def _width(n):
    return M.pow2_at_least(n)


def _chain(n, leaf):
    """(path nodes from the leaf's node up to but excluding the root, their siblings)"""
    x = _width(n) - 1 + leaf
    path, sibs = [], []
    while x > 0:
        path.append(x)
        sibs.append(x + 1 if x % 2 == 1 else x - 1)
        x = (x - 1) // 2
    return path, sibs


def _relevant(n, leaf):
    path, sibs = _chain(n, leaf)
    return set(path) | set(sibs) | {0}


def _real(x, lo, hi):
    """realise a small symbolic int (it is used as a dict key / list index anyway)"""
    for c in range(lo, hi):
        if x == c:
            return c
    raise hlib.HarnessError("value outside its precondition range")


# ---- symbolic pre-state ---------------------------------------------------------------------

def _closed(n, X):
    """X[i]: internal node i is 'expanded' (both children already validated).  Reachable held sets
    are {root} + children of expanded nodes, where an expanded non-root node has an expanded parent
    (a node is only ever validated together with its sibling, against its parent)."""
    w = _width(n)
    xs = B.get("xs")
    if xs is not None:
        for i in range(7):
            if X[i] != (i in xs):
                return False
    onpath = None
    if B.get("onpath") and B.get("focus") is not None:
        # wide trees: only the internal nodes above the focus leaf may be expanded (expansions elsewhere
        # do not interact with the nodes that can be supplied in this case)
        path, _sibs = _chain(n, B["focus"])
        onpath = set((x - 1) // 2 for x in path)
    for i in range(7):
        if i >= w - 1 or (onpath is not None and i not in onpath):
            if X[i]:
                return False
        elif i > 0 and X[i] and not X[(i - 1) // 2]:
            return False
    return True


def _leaves_ok(n, L):
    for j in range(8):
        if j < n:
            if not (1 <= L[j] < LMAX):
                return False
    return True


def _supplied_ok(n, S):
    size = 2 * _width(n) - 1
    focus = B.get("focus")
    rel = _relevant(n, focus) if focus is not None else None
    for i in range(15):
        if i >= size or (rel is not None and i not in rel):
            if S[i] != -1:
                return False
        elif not (-1 <= S[i] < VMAX):
            return False
    return True


def _mk(n, X, L):
    gen = hashtree.HashTree([M.sym(L[j], LT) for j in range(n)])
    iht = hashtree.IncompleteHashTree(n)
    if len(iht) != len(gen) or iht.first_leaf_num != gen.first_leaf_num:
        raise hlib.HarnessError("tree shapes differ")  # checked as a property in h_build
    iht[0] = gen[0]
    for i in range(7):
        if X[i]:
            iht[2 * i + 1] = gen[2 * i + 1]
            iht[2 * i + 2] = gen[2 * i + 2]
    return gen, iht


def _unchanged(before, iht):
    if len(before) != len(iht):
        return False
    for i in range(len(before)):
        if not M.same(before[i], iht[i]):
            return False
    return True


def _all_genuine(gen, iht):
    for i in range(len(iht)):
        if iht[i] is not None and not M.same(iht[i], gen[i]):
            return False
    return True


def _family(iht):
    """the invariant that makes the assumed pre-state family inductive: the root is held and every held
    non-root node has its sibling and its parent"""
    if iht[0] is None:
        return "root dropped"
    for i in range(1, len(iht)):
        if iht[i] is not None:
            sib = i + 1 if i % 2 == 1 else i - 1
            if iht[sib] is None or iht[(i - 1) // 2] is None:
                return "held node without sibling/parent (state outside the assumed reachable family)"
    return None


# ---- 1. HashTree.__init__ is the Merkle definition (padding leaves) -------------------------

def h_build(n: int, l0: int, l1: int, l2: int, l3: int, l4: int, l5: int, l6: int, l7: int) -> bool:
    """
    pre: 1 <= n <= B["n_max"]
    pre: _leaves_ok(B["n_max"], [l0, l1, l2, l3, l4, l5, l6, l7])
    post: _ == True
    """
    L = [l0, l1, l2, l3, l4, l5, l6, l7]
    n = _real(n, 1, B["n_max"] + 1)
    gen = hashtree.HashTree([M.sym(L[j], LT) for j in range(n)])
    want = M.model_tree([L[j] for j in range(n)])
    if len(gen) != len(want):
        return "tree size is not 2*roundup_pow2(n)-1"
    if gen.first_leaf_num != _width(n) - 1:
        return "first_leaf_num wrong"
    for i in range(len(want)):
        if not (isinstance(gen[i], bytes) and gen[i].v == want[i]):
            return "node differs from the Merkle definition"
    for j in range(n):
        if not (gen.get_leaf(j).v == L[j]) or gen.get_leaf_index(j) != _width(n) - 1 + j:
            return "get_leaf / get_leaf_index wrong"
    iht = hashtree.IncompleteHashTree(n)
    if len(iht) != len(want) or iht.first_leaf_num != gen.first_leaf_num:
        return "IncompleteHashTree shape differs from HashTree shape"
    for i in range(len(iht)):
        if iht[i] is not None:
            return "fresh IncompleteHashTree is not empty"
    # full needed-hash sets of the complete tree == sibling chain (independent index arithmetic)
    for j in range(n):
        path, sibs = _chain(n, j)
        if gen.needed_hashes(j) != set(sibs) or gen.needed_hashes(j, True) != set(sibs) | {path[0] if path else 0}:
            return "HashTree.needed_hashes is not the sibling chain"
    return True


# ---- 2. soundness and rollback of set_hashes ---------------------------------------------------

def h_sound(n: int, x0: bool, x1: bool, x2: bool, x3: bool, x4: bool, x5: bool, x6: bool,
            l0: int, l1: int, l2: int, l3: int, l4: int, l5: int, l6: int, l7: int,
            s0: int, s1: int, s2: int, s3: int, s4: int, s5: int, s6: int, s7: int, s8: int, s9: int,
            s10: int, s11: int, s12: int, s13: int, s14: int, lf: int, lv: int) -> bool:
    """
    pre: n == B["n"]
    pre: _closed(B["n"], [x0, x1, x2, x3, x4, x5, x6])
    pre: _leaves_ok(B["n"], [l0, l1, l2, l3, l4, l5, l6, l7])
    pre: _supplied_ok(B["n"], [s0, s1, s2, s3, s4, s5, s6, s7, s8, s9, s10, s11, s12, s13, s14])
    pre: -1 <= lf < n and (B.get("focus") is None or lf in (-1, B["focus"]))
    pre: (lf == -1 and lv == -1) or (lf >= 0 and 0 <= lv < VMAX)
    post: _ == True
    """
    X = [x0, x1, x2, x3, x4, x5, x6]
    L = [l0, l1, l2, l3, l4, l5, l6, l7]
    S = [s0, s1, s2, s3, s4, s5, s6, s7, s8, s9, s10, s11, s12, s13, s14]
    n = B["n"]
    lf = _real(lf, -1, n)
    gen, iht = _mk(n, X, L)
    before = list(iht)
    hashes = {}
    for i in range(len(iht)):
        if S[i] != -1:
            hashes[i] = M.sym(S[i], VT)
    leaves = {}
    if lf != -1:
        leaves[lf] = M.sym(lv, VT)
    assume(len(hashes) + len(leaves) >= 1)
    try:
        r = iht.set_hashes(hashes, leaves)
    except (BadHashError, NotEnoughHashesError):
        if not _unchanged(before, iht):
            return "rejected, but the tree state changed"
        return True
    except Exception as e:
        if isinstance(e, hlib.HarnessError):
            raise
        return "rejected with %s (not BadHashError/NotEnoughHashesError)" % type(e).__name__
    # accepted
    if r is not None:
        return "set_hashes returned a value"
    if not _all_genuine(gen, iht):
        return "accepted, but a stored node differs from the genuine tree"
    for i in range(len(iht)):
        if before[i] is not None and iht[i] is None:
            return "a previously validated node was dropped"
        if i in hashes and iht[i] is None:
            return "accepted, but a supplied hash was not remembered"
        if i in hashes and not (S[i] == gen[i].v):
            # (observed quirk, not contrary to the property: an EMPTY byte string supplied for an internal node is
            # treated as "no value" and silently replaced by the hash computed from its children)
            if i >= iht.first_leaf_num or not (S[i] == 0):
                return "accepted a supplied hash that differs from the genuine node"
    if lf != -1:
        got = iht.get_leaf(lf)
        if got is None or not (got.v == L[lf]) or not (lv == L[lf]):
            return "accepted a leaf value that is not the genuine leaf"
    bad = _family(iht)
    if bad:
        return bad
    return True


# ---- 3. completeness: the genuine hashes it asks for are accepted, in any order ---------------

def _ask_and_feed(gen, iht, n, leaf, held, split):
    """ask needed_hashes(leaf, include_leaf=True), check it against the model, feed genuine values"""
    path, sibs = _chain(n, leaf)
    leafnode = _width(n) - 1 + leaf
    want = set(i for i in sibs + [leafnode] if i not in held)
    asked = iht.needed_hashes(leaf, include_leaf=True)
    if asked != want:
        return "needed_hashes(include_leaf=True) is not {sibling chain, leaf} minus the nodes already held"
    if iht.needed_hashes(leaf) != want - {leafnode}:
        return "needed_hashes() is not the sibling chain minus the nodes already held"
    if split:
        # leaf through the leaves= argument, the rest through hashes=
        hashes = dict((i, gen[i]) for i in asked if i != leafnode)
        leaves = {leaf: gen[leafnode]}
    else:
        hashes = dict((i, gen[i]) for i in asked)
        leaves = None
    try:
        iht.set_hashes(hashes, leaves)
    except (BadHashError, NotEnoughHashesError) as e:
        return "genuine needed hashes rejected with %s" % type(e).__name__
    if iht.needed_hashes(leaf, include_leaf=True) != set():
        return "still asks for hashes after the leaf was validated"
    got = iht.get_leaf(leaf)
    if got is None or not (got.v == gen[leafnode].v):
        return "validated leaf not stored"
    return None


def h_complete(n: int, x0: bool, x1: bool, x2: bool, x3: bool, x4: bool, x5: bool, x6: bool,
               l0: int, l1: int, l2: int, l3: int, l4: int, l5: int, l6: int, l7: int,
               a: int, b: int, split_a: bool, split_b: bool) -> bool:
    """
    pre: n == B["n"]
    pre: _closed(B["n"], [x0, x1, x2, x3, x4, x5, x6])
    pre: _leaves_ok(B["n"], [l0, l1, l2, l3, l4, l5, l6, l7])
    pre: 0 <= a < n and 0 <= b < n and (B.get("focus") is None or a == B["focus"])
    post: _ == True
    """
    X = [x0, x1, x2, x3, x4, x5, x6]
    L = [l0, l1, l2, l3, l4, l5, l6, l7]
    n = B["n"]
    a = _real(a, 0, n)
    b = _real(b, 0, n)
    gen, iht = _mk(n, X, L)
    for leaf, split in ((a, split_a), (b, split_b)):
        held = set(i for i in range(len(iht)) if iht[i] is not None)
        bad = _ask_and_feed(gen, iht, n, leaf, held, split)
        if bad:
            return bad
        if not _all_genuine(gen, iht):
            return "stored node differs from the genuine tree"
        bad = _family(iht)
        if bad:
            return bad
    return True


# ---- 4. rejection of badly numbered hashes leaves the state unchanged ----------------------

def h_badnum(n: int, x0: bool, x1: bool, x2: bool, l0: int, l1: int, l2: int, l3: int,
             i1: int, v1: int, i2: int, v2: int) -> bool:
    """
    pre: n == B["n"] and n <= 4
    pre: _closed(B["n"], [x0, x1, x2, False, False, False, False])
    pre: _leaves_ok(B["n"], [l0, l1, l2, l3, 1, 1, 1, 1])
    pre: -2 <= i1 <= 2 * _width(B["n"]) and -2 <= i2 <= 2 * _width(B["n"]) and i1 != i2
    pre: 0 <= v1 < VMAX and 0 <= v2 < VMAX
    post: _ == True
    """
    n = B["n"]
    gen, iht = _mk(n, [x0, x1, x2, False, False, False, False], [l0, l1, l2, l3, 1, 1, 1, 1])
    size = len(iht)
    i1 = _real(i1, -2, 2 * _width(n) + 1)
    i2 = _real(i2, -2, 2 * _width(n) + 1)
    assume(not (0 <= i1 < size and 0 <= i2 < size))      # at least one hash number outside the tree
    before = list(iht)
    hashes = {i1: M.sym(v1, VT), i2: M.sym(v2, VT)}
    try:
        iht.set_hashes(hashes)
    except Exception as e:
        if isinstance(e, hlib.HarnessError):
            raise
        if not _unchanged(before, iht):
            if isinstance(e, IndexError) and "indexerror-no-rollback" in EXCLUDED:
                # known-finding mode: still require that nothing but the positions named in this call changed
                for i in range(size):
                    if not M.same(before[i], iht[i]) and i not in (i1, i2, i1 + size, i2 + size):
                        return "IndexError, and a node not named in the call changed"
                return True
            return "rejected (%s), but the tree state changed" % type(e).__name__
        return True
    return "a hash number outside the tree was accepted"


EXCLUDED = []
CLASSIFY = {"h_badnum": lambda *a: "indexerror-no-rollback"}
