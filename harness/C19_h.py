"""
C19 — directory contents round-trip (pack -> unpack), immutable directories refuse mutable / write-capable children.

Real code executed: dirnode.pack_children / _pack_normalized_children / _encrypt_rw_uri, DirectoryNode._unpack_contents /
_decrypt_rwcapdata / _create_and_validate_node, unknown.strip_prefix_for_ro, UnknownNode, util.netstring.netstring /
split_netstring, util.encodingutil.normalize, util.jsonbytes, util.dictutil.AuxValueDict, NodeMaker.create_from_cap (real-node
obligations).
"""
import unicodedata
from vlib import hlib
from vlib.hlib import NS, assume
hlib.ensure_shims()
import _dirfix as F
from _dirfix import pick
from allmydata import dirnode as D, uri, nodemaker, unknown
from allmydata.interfaces import IDirectoryNode, IFileNode, MustBeDeepImmutableError, MustNotBeUnknownRWError
from allmydata.util import netstring as netstring_mod, jsonbytes
from allmydata.util.dictutil import AuxValueDict
from allmydata.util.encodingutil import normalize

B = hlib.bounds()
NOTES = list(F.NOTES) + [
    "names/caps/metadata obligations: dirnode.aes replaced by a keyed length-preserving byte map (ideal-cipher stand-in, _dirfix.FakeAES) "
    "and the nodemaker by a recorder that returns a token carrying (rw_uri, ro_uri, deep_immutable, name); real_nodes uses the real NodeMaker and real AES",
    "symbolic names are strings over a fixed small alphabet (bounds: alphabet, max length); they are realised when encoded / normalised",
    "the oracle's NFC is a hand-written composition table for the alphabet (checked against unicodedata at import)",
]
hlib.encoded(D.pack_children, D._pack_normalized_children, D._encrypt_rw_uri, D.DirectoryNode._unpack_contents,
             D.DirectoryNode._decrypt_rwcapdata, D.DirectoryNode._create_and_validate_node, D.DirectoryNode._pack_contents,
             unknown.strip_prefix_for_ro, unknown.UnknownNode.__init__, unknown.UnknownNode.is_allowed_in_immutable_directory,
             netstring_mod.netstring, netstring_mod.split_netstring, normalize, jsonbytes.dumps,
             AuxValueDict.__setitem__, AuxValueDict.set_with_aux, AuxValueDict.get_aux)

_unpack = hlib.strip_logs(D.DirectoryNode._unpack_contents)

# ---- the oracle's normalisation: explicit composition rules for the characters used here -------------------
ALPHABET = "aA\u030a\u00c5\u212b,:1\u00e9\U0001f600"
_SINGLE = {"\u212b": "\u00c5"}                       # ANGSTROM SIGN -> A WITH RING ABOVE
_COMPOSE = {("A", "\u030a"): "\u00c5", ("a", "\u030a"): "\u00e5"}


def nfc_model(s):
    out = []
    for ch in s:
        ch = _SINGLE.get(ch, ch)
        if out and (out[-1], ch) in _COMPOSE:
            out[-1] = _COMPOSE[(out[-1], ch)]
        else:
            out.append(ch)
    return "".join(out)


def _selftest_nfc():
    for a in ALPHABET:
        for b in ALPHABET + " ":
            for c in ALPHABET + " ":
                s = (a + b + c).replace(" ", "")
                if nfc_model(s) != unicodedata.normalize("NFC", s):
                    raise hlib.HarnessError("oracle NFC table wrong for %r" % (s,))


_selftest_nfc()


def _mkstr(alphabet, idx, maxlen):
    """string over `alphabet` from symbolic selectors: idx[i] in -1..len-1, -1 = no character (only trailing); None if not allowed"""
    out = ""
    ended = False
    for (i, v) in enumerate(idx):
        if v == -1:
            ended = True
            continue
        if ended or i >= maxlen or not (0 <= v < len(alphabet)):
            return None
        out = out + pick(alphabet, v)
    return out


def _reader(imm, readonly, writekey, nm):
    dn = D.DirectoryNode.__new__(D.DirectoryNode)
    dn._node = NS(is_readonly=lambda: (readonly or imm), is_mutable=lambda: (not imm),
                  get_writekey=lambda: (None if (readonly or imm) else writekey))
    dn._nodemaker = nm
    return dn


def _eq_mod_prefix(a, b):
    """capability equality modulo the alleged-read-only / alleged-immutable prefix (implied by the slot / directory context, ticket #833)"""
    def strip(x):
        if x is None:
            return None
        if x.startswith(b"ro."):
            return x[3:]
        if x.startswith(b"imm."):
            return x[4:]
        return x
    return strip(a) == strip(b)


def _roundtrip(childrenx, imm, readonly, writekey=b"W" * 16):
    """pack with the real packer (FakeAES), unpack with the real unpacker on a fake node; returns (packed, children, nodemaker)"""
    fake = F.FakeAES()
    saved = D.aes
    D.aes = fake
    try:
        packed = D.pack_children(childrenx, None if imm else writekey, deep_immutable=imm)
        nm = F.RecNodeMaker()
        got = _unpack(_reader(imm, readonly, writekey, nm), packed)
    finally:
        D.aes = saved
    return packed, got, nm


def _check_against_model(got, model, imm, readonly):
    """model: {normalised name: (rw, ro, metadata)}; got: unpacked children whose nodes are RecNodeMaker tokens"""
    if sorted(got.keys()) != sorted(model.keys()):
        return "names differ: got %r, want %r" % (sorted(got.keys()), sorted(model.keys()))
    for name in model:
        (rw, ro, md) = model[name]
        (node, gmd) = got[name]
        (grw, gro, gdi, gname) = node.made_from
        if gname != name:
            return "node created under another name"
        if gdi != imm:
            return "deep_immutable flag"
        want_rw = None if (readonly or imm) else rw
        if grw != want_rw:
            return "write cap of %r does not round-trip: %r vs %r" % (name, grw, want_rw)
        if gro != F.slot_model(ro, imm):
            return "read cap of %r does not round-trip: reader got %r for %r" % (name, gro, ro)
        if gmd != md:
            return "metadata of %r does not round-trip: %r vs %r" % (name, gmd, md)
    return True


def _sel_ok(idx, maxlen, k):
    """selectors describe a string of length <= maxlen over k characters (-1 = no character, only trailing)"""
    prev_absent = False
    for (i, v) in enumerate(idx):
        if not (-1 <= v < k):
            return False
        if v != -1 and (prev_absent or i >= maxlen):
            return False
        prev_absent = (v == -1)
    return True


def h_roundtrip_names(a0: int, a1: int, a2: int, b0: int, b1: int, two: bool, imm: bool, readonly: bool) -> bool:
    """
    pre: _sel_ok((a0, a1, a2), B.get("len0", 2), len(B.get("alphabet", ALPHABET)))
    pre: _sel_ok((b0, b1), B.get("len1", 1), len(B.get("alphabet", ALPHABET)))
    pre: two or (b0 == -1 and b1 == -1)
    pre: (B.get("imm") is None or imm in B["imm"]) and (B.get("readonly") is None or readonly in B["readonly"]) and (B.get("two") is None or two in B["two"])
    post: _ == True
    """
    alph = B.get("alphabet", ALPHABET)
    n0 = _mkstr(alph, (a0, a1, a2), B.get("len0", 2))
    n1 = _mkstr(alph, (b0, b1), B.get("len1", 1))
    assume(n0 is not None and n1 is not None)
    c0 = F.tok_child("chk") if imm else F.tok_child("ssk")
    c1 = F.tok_child("lit") if imm else F.tok_child("dir2")
    md0, md1 = {"k": 0}, {"k": 1, "tahoe": {"linkcrtime": 1.5}}
    childrenx = {n0: (c0, md0)}
    model = {nfc_model(n0): (c0.rw, c0.ro, md0)}
    if two:
        childrenx[n1] = (c1, md1)               # same raw name => replaces (dict semantics)
        model[nfc_model(n1)] = (c1.rw, c1.ro, md1)
    packed, got, nm = _roundtrip(childrenx, imm, readonly)
    # independent look at the serialised form: one entry per normalised name, names UTF-8, sorted
    entries = F.read_entries(packed)
    names = [e[0].decode("utf-8") for e in entries]
    if names != sorted(model.keys()):
        return "serialised names are not the sorted normalised names"
    return _check_against_model(got, model, imm, readonly)


def h_unpack_foreign(a0: int, a1: int, b0: int, b1: int, two: bool, spaces: bool, imm: bool) -> bool:
    """
    pre: _sel_ok((a0, a1), 2, len(B.get("alphabet", ALPHABET))) and _sel_ok((b0, b1), B.get("len1", 2), len(B.get("alphabet", ALPHABET)))
    pre: two or (b0 == -1 and b1 == -1)
    pre: (B.get("imm") is None or imm in B["imm"]) and (B.get("spaces") is None or spaces in B["spaces"])
    post: _ == True
    """
    # a directory written by another (older) client: names not normalised, caps padded with blanks; serialised with the oracle's writer
    alph = B.get("alphabet", ALPHABET)
    n0, n1 = _mkstr(alph, (a0, a1), 2), _mkstr(alph, (b0, b1), 2)
    pad = b"  " if spaces else b""
    ro0, ro1 = b"URI:CHK:zero", b"URI:LIT:one"
    data = F.ns(F.ns(n0.encode("utf-8")) + F.ns(ro0 + pad) + F.ns(b"") + F.ns(b'{"k": 0}'))
    model = {nfc_model(n0): (None, ro0, {"k": 0})}
    if two:
        data += F.ns(F.ns(n1.encode("utf-8")) + F.ns(ro1 + pad) + F.ns(b"") + F.ns(b'{"k": 1}'))
        model[nfc_model(n1)] = (None, ro1, {"k": 1})
    nm = F.RecNodeMaker()
    got = _unpack(_reader(imm, True, None, nm), data)
    if sorted(got.keys()) != sorted(model.keys()):
        return "names are not normalised on the way out: %r vs %r" % (sorted(got.keys()), sorted(model.keys()))
    for name in model:
        (node, md) = got[name]
        if node.made_from[1] != model[name][1] or md != model[name][2]:
            return "entry under %r is not the (last) entry stored under a name that normalises to it" % (name,)
    return True


_RC_LABELS = F.LABELS


def h_roundtrip_caps(s0: int, s1: int, imm: bool, readonly: bool) -> bool:
    """
    pre: 0 <= s0 < len(_RC_LABELS) and 0 <= s1 < len(_RC_LABELS)
    pre: B.get("s0") is None or s0 in B["s0"]
    pre: B.get("s1") is None or s1 in B["s1"]
    post: _ == True
    """
    k0, k1 = F.tok_child(pick(_RC_LABELS, s0)), F.tok_child(pick(_RC_LABELS, s1))
    childrenx = {"x": (k0, {}), "y": (k1, {"m": [1, {"n": None}]})}
    refuse = imm and not (k0.allowed_imm and k1.allowed_imm)
    try:
        packed, got, nm = _roundtrip(childrenx, imm, readonly)
    except MustBeDeepImmutableError:
        return True if refuse else "MustBeDeepImmutableError without a mutable / write-capable child"
    if refuse:
        return "immutable directory stored a mutable / write-capable child"
    model = {"x": (k0.rw, k0.ro, {}), "y": (k1.rw, k1.ro, {"m": [1, {"n": None}]})}
    return _check_against_model(got, model, imm, readonly)


_MD_ALPHABET = "a\"\\\n\u00e9 \U0001f600/"


def _typed_eq(a, b):
    """structural equality that also compares types (True is not 1, 1.0 is not 1)"""
    if type(a) is not type(b):
        return False
    if isinstance(a, dict):
        if sorted(a.keys()) != sorted(b.keys()):
            return False
        for k in a:
            if not _typed_eq(a[k], b[k]):
                return False
        return True
    if isinstance(a, list):
        if len(a) != len(b):
            return False
        for i in range(len(a)):
            if not _typed_eq(a[i], b[i]):
                return False
        return True
    return a == b


def _md_sel_ok(shape, k0, v0, v1, ni, flag):
    """selectors only vary where the shape uses them"""
    K = len(_MD_ALPHABET)
    if not _sel_ok((k0,), B.get("klen", 1), K) or not _sel_ok((v0, v1), B.get("vlen", 2), K) or not (0 <= ni <= 2):
        return False
    if shape == 0 and not (k0 == -1 and v0 == -1):
        return False
    if shape not in (2, 4) and ni != 0:
        return False
    if shape not in (2, 3) and flag:
        return False
    return True


def h_roundtrip_metadata(shape: int, k0: int, v0: int, v1: int, ni: int, flag: bool) -> bool:
    """
    pre: 0 <= shape <= 5 and (B.get("shape") is None or shape in B["shape"])
    pre: _md_sel_ok(shape, k0, v0, v1, ni, flag)
    post: _ == True
    """
    key = _mkstr(_MD_ALPHABET, (k0,), 1)
    val = _mkstr(_MD_ALPHABET, (v0, v1), 2)
    num = pick((-3, 0, 2), ni)
    flag = True if flag else False          # concrete from here on (json encoders realise a symbolic bool expensively)

    def build():
        if shape == 0:
            return {}
        if shape == 1:
            return {key: val}
        if shape == 2:
            return {"tahoe": {"linkcrtime": num + 0.25, "linkmotime": num}, key: [val, num, flag, None]}
        if shape == 3:
            return {"a": {"b": {key: {"c": [[], {}, [val]]}}}, "no-write": flag}
        if shape == 4:
            return {key: val, "ctime": 1202777696.7564139, "mtime": -num, "big": 2 ** 70 + num}
        return {"k": [key, val], "": ""}
    md = build()
    want = build()
    k0n = F.tok_child("ssk")
    packed, got, nm = _roundtrip({"n": (k0n, md)}, False, False)
    if not _typed_eq(md, want):
        return "packing modified the caller's metadata"
    r = _check_against_model(got, {"n": (k0n.rw, k0n.ro, want)}, False, False)
    if r is not True:
        return r
    if not _typed_eq(got["n"][1], want):
        return "metadata value types changed"
    return True


def h_repack(s0: int, s1: int, touch: int, readonly: bool) -> bool:
    """
    pre: 0 <= s0 < len(_RC_LABELS) and 0 <= s1 < len(_RC_LABELS) and 0 <= touch <= 2
    pre: B.get("s0") is None or s0 in B["s0"]
    pre: B.get("s1") is None or s1 in B["s1"]
    post: _ == True
    """
    # unpack -> (modify at most one child) -> _pack_contents: untouched entries keep their exact serialisation (the cached aux value),
    # the touched one carries the new metadata; everything still unpacks to the map model
    k0, k1 = F.tok_child(pick(_RC_LABELS, s0)), F.tok_child(pick(_RC_LABELS, s1))
    childrenx = {"x": (k0, {"v": 1}), "y": (k1, {"v": 2})}
    wk = b"W" * 16
    fake = F.FakeAES()
    saved = D.aes
    D.aes = fake
    try:
        packed = D.pack_children(childrenx, wk)
        nm = F.RecNodeMaker()
        dn = _reader(False, False, wk, nm)
        kids = _unpack(dn, packed)
        if touch == 1:
            kids["x"] = (kids["x"][0], {"v": 10})
        elif touch == 2:
            del kids["y"]
        repacked = D.DirectoryNode._pack_contents(dn, kids)
        nm2 = F.RecNodeMaker()
        got = _unpack(_reader(False, readonly, wk, nm2), repacked)
    finally:
        D.aes = saved
    before = dict((e[0], e) for e in F.read_entries(packed))
    after = dict((e[0], e) for e in F.read_entries(repacked))
    if touch == 0 and repacked != packed:
        return "unpack + pack of an unmodified directory changed its bytes"
    if touch == 1 and after.get(b"y") != before[b"y"]:
        return "untouched entry was re-serialised differently"
    if touch == 2 and (b"y" in after or after.get(b"x") != before[b"x"]):
        return "delete changed another entry / kept the deleted one"
    model = {"x": (k0.rw, k0.ro, {"v": 10} if touch == 1 else {"v": 1})}
    if touch != 2:
        model["y"] = (k1.rw, k1.ro, {"v": 2})
    return _check_against_model(got, model, False, readonly)


def h_pack_from_listing(s0: int, s1: int, target: int, stale: int) -> bool:
    """
    pre: 0 <= s0 < len(_RC_LABELS) and 0 <= s1 < len(_RC_LABELS) and 0 <= target <= 1 and 0 <= stale <= 2
    pre: B.get("s0") is None or s0 in B["s0"]
    pre: B.get("s1") is None or s1 in B["s1"]
    post: _ == True
    """
    # the children dict handed to pack_children is the AuxValueDict of a LISTING of directory X (its aux values are X's serialised
    # entries, write caps encrypted under X's writekey) - possibly with aux values that no longer belong to the values (stale).
    # Packing it as the contents of a NEW directory (another writekey, or an immutable directory) must serialise the VALUES:
    # unpack(pack(children)) == children.
    k0, k1 = F.tok_child(pick(_RC_LABELS, s0)), F.tok_child(pick(_RC_LABELS, s1))
    wx, wy = b"X" * 16, b"Y" * 16
    imm = target == 1
    if imm:
        assume(k0.allowed_imm and k1.allowed_imm)
    fake = F.FakeAES()
    saved = D.aes
    D.aes = fake
    try:
        packed_x = D.pack_children({"x": (k0, {"v": 1}), "y": (k1, {"v": 2})}, wx)
        listing = _unpack(_reader(False, False, wx, F.RecNodeMaker()), packed_x)
        # the listing's nodes are the recorder's tokens carrying exactly the caps of the children
        model = {"x": (k0.rw, k0.ro, {"v": 1}), "y": (k1.rw, k1.ro, {"v": 2})}
        if stale == 1:
            # value replaced, cached serialisation of the old value kept (e.g. by code that updates through set_with_aux)
            listing.set_with_aux("x", (listing["y"][0], {"v": 3}), listing.get_aux("x"))
            model["x"] = (k1.rw, k1.ro, {"v": 3})
        elif stale == 2:
            listing.set_with_aux("y", (listing["y"][0], {"v": 4}), listing.get_aux("x"))
            model["y"] = (k1.rw, k1.ro, {"v": 4})
        packed_y = D.pack_children(listing, None if imm else wy, deep_immutable=imm)
        nm = F.RecNodeMaker()
        got = _unpack(_reader(imm, False, wy, nm), packed_y)
    finally:
        D.aes = saved
    return _check_against_model(got, model, imm, False)


def _same_node(a, b, imm):
    if type(a) is not type(b):
        return "node type %s became %s" % (type(a).__name__, type(b).__name__)
    if a.get_write_uri() != b.get_write_uri():
        return "write uri changed"
    if b.get_readonly_uri() != F.readback_model(a.get_readonly_uri(), imm):
        return "read uri changed: %r -> %r" % (a.get_readonly_uri(), b.get_readonly_uri())
    if IDirectoryNode.providedBy(a) != IDirectoryNode.providedBy(b) or IFileNode.providedBy(a) != IFileNode.providedBy(b):
        return "interface changed"
    return None


def h_real_nodes(sel: int, imm: bool, name_sel: int) -> bool:
    """
    pre: 0 <= sel < len(F.LABELS) and 0 <= name_sel <= 2
    pre: B.get("sel") is None or sel in B["sel"]
    post: _ == True
    """
    label = pick(F.LABELS, sel)
    (rw, ro, kind, mutable) = F.CAPS[label]
    namex = pick(("plain", "A\u030a\u212b", "\U0001f600,1:"), name_sel)
    nm = F.make_nodemaker()
    child = nm.create_from_cap(rw, ro)
    md = {"tahoe": {"linkcrtime": 1.5, "linkmotime": 2}, "k": ["v", 1]}
    refuse = imm and (mutable is True or rw is not None)
    if imm:
        parent = nm.create_from_cap(None, F.PARENT_IMM_CAP)
        wk = None
    else:
        parent = nm.create_from_cap(F.PARENT_RW_CAP)
        wk = parent._node.get_writekey()
    try:
        packed = D.pack_children({namex: (child, md)}, wk, deep_immutable=imm)
    except MustBeDeepImmutableError:
        return True if refuse else "MustBeDeepImmutableError for a deeply immutable child"
    if refuse:
        return "immutable directory stored a mutable / write-capable child"
    got = parent._unpack_contents(packed)
    if list(got.keys()) != [nfc_model(namex)]:
        return "name does not round-trip"
    (c2, md2) = got[nfc_model(namex)]
    if md2 != md:
        return "metadata does not round-trip"
    bad = _same_node(child, c2, imm)
    if bad:
        return bad
    return True
