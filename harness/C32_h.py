"""
C32 — servers are ordered consistently and upload permission is enforced.

Real code executed: StorageFarmBroker.get_servers_for_psi / get_connected_servers,
NativeStorageServer.upload_permitted / is_connected / get_permutation_seed / get_longname,
HTTPNativeStorageServer.upload_permitted, Publish.update_goal.

`permute_server_hash` is an ideal hash: one symbolic integer per server seed, pairwise distinct
(distinct seeds hash to distinct values); connected / preferred / has-verifier / verifier-value are
symbolic booleans per server.  The broker is evaluated twice with two different memory layouts
(different object hashes => different frozenset iteration orders, which is what differs between
two clients that know the same servers) and must return the same sequence.
"""
from vlib import hlib
from vlib.hlib import NS, assume
hlib.ensure_shims()
from allmydata import storage_client as sc
from allmydata.storage_client import StorageFarmBroker, NativeStorageServer, HTTPNativeStorageServer

B = hlib.bounds()
NOTES = [
    "storage_client.permute_server_hash replaced by an ideal hash: a symbolic integer per server permutation seed, pairwise distinct",
    "servers are NativeStorageServer objects built without the constructor (no tub, no announcement parsing): _is_connected, "
    "_storage.permutation_seed/longname and _grid_manager_verifier set directly; __hash__ is a harness-chosen number so that "
    "frozenset iteration order is deterministic and can be varied (two layouts)",
    "StorageFarmBroker.preferred_peers is a container whose membership test answers the symbolic 'preferred' flag of the named server",
    "update_goal: eliot start_action / Message and Publish.log replaced by no-ops; bad_servers is a container with symbolic membership",
]
hlib.encoded(StorageFarmBroker.get_servers_for_psi, StorageFarmBroker.get_connected_servers,
             NativeStorageServer.upload_permitted, NativeStorageServer.is_connected,
             NativeStorageServer.get_permutation_seed, NativeStorageServer.get_longname,
             HTTPNativeStorageServer.upload_permitted)

HASHES = {}


class Srv(NativeStorageServer):
    def __hash__(self):
        return HASHES[self.idx]

    def __repr__(self):
        return "<Srv %d>" % self.idx


def _mk_server(i, connected, has_verifier, verifier_value, calls):
    s = Srv.__new__(Srv)
    s.idx = i
    s._is_connected = connected
    s._storage = NS(permutation_seed=b"seed-%d" % i, longname=b"server-%d" % i, name="s%d" % i)
    if has_verifier:
        def verifier():
            calls.append(i)
            return verifier_value
        s._grid_manager_verifier = verifier
    else:
        s._grid_manager_verifier = None
    return s


class _Preferred(object):
    """preferred_peers: `longname in preferred_peers` answers the symbolic flag"""

    def __init__(self, flags):
        self.flags = flags

    def __contains__(self, name):
        if not isinstance(name, bytes) or not name.startswith(b"server-"):
            raise hlib.HarnessError("preferred_peers asked about %r" % (name,))
        return self.flags[int(name[len(b"server-"):])]


def _broker(servers, order, preferred):
    b = StorageFarmBroker.__new__(StorageFarmBroker)
    b.permute_peers = True
    b.storage_client_config = NS(preferred_peers=preferred)      # read through the real `preferred_peers` property
    b.servers = {}
    for i in order:
        b.servers[b"v0-id%d" % i] = servers[i]
    return b


LAYOUTS = [([0, 1, 2, 3], {0: 0, 1: 1, 2: 2, 3: 3}),
           ([3, 1, 0, 2], {0: 3, 1: 2, 2: 0, 3: 1})]


def h_server_order(n: int, for_upload: bool,
                   c0: bool, c1: bool, c2: bool, c3: bool,
                   p0: bool, p1: bool, p2: bool, p3: bool,
                   v0: bool, v1: bool, v2: bool, v3: bool,
                   u0: bool, u1: bool, u2: bool, u3: bool,
                   h0: int, h1: int, h2: int, h3: int) -> bool:
    """
    pre: n == B.get("n", 3)
    pre: B.get("for_upload") is None or for_upload == B["for_upload"]
    pre: (h0 != h1 or B.get("tie", False)) and h0 != h2 and h0 != h3 and h1 != h2 and h1 != h3 and h2 != h3
    pre: (not B.get("tie", False)) or h0 == h1
    pre: (not B.get("uniform_verifier", False)) or (v0 == v1 and v1 == v2 and v2 == v3)
    post: _ == True
    """
    conn = [c0, c1, c2, c3][:n]
    pref = [p0, p1, p2, p3][:n]
    hasv = [v0, v1, v2, v3][:n]
    vval = [u0, u1, u2, u3][:n]
    hval = [h0, h1, h2, h3][:n]
    results = []
    hash_calls = []

    def ideal_hash(psi, seed):
        hash_calls.append((psi, seed))
        if not (isinstance(seed, bytes) and seed.startswith(b"seed-")):
            raise hlib.HarnessError("permute_server_hash called with %r" % (seed,))
        return hval[int(seed[5:])]
    saved = sc.permute_server_hash
    sc.permute_server_hash = ideal_hash
    try:
        for (order, hashes) in LAYOUTS:
            HASHES.clear()
            HASHES.update(hashes)
            vcalls = []
            servers = [_mk_server(i, conn[i], hasv[i], vval[i], vcalls) for i in range(n)]
            b = _broker(servers, [i for i in order if i < n], _Preferred(pref))
            del hash_calls[:]
            out = b.get_servers_for_psi(b"psi-token", for_upload=for_upload)
            if not isinstance(out, list):
                return "result is not a list"
            for s in out:
                if not isinstance(s, Srv):
                    return "result contains a non-server"
            for (psi, seed) in hash_calls:
                if psi != b"psi-token":
                    return "hash computed over something else than the storage index"
            if not for_upload and vcalls:
                return "grid-manager verifier consulted for a non-upload ordering"
            results.append([s.idx for s in out])
    finally:
        sc.permute_server_hash = saved
    res = results[0]
    tie = bool(B.get("tie", False))
    # tie case: servers 0 and 1 announce the same permutation seed (cloned / misconfigured servers): both must still be
    # listed; their relative order is unspecified, so the two clients are compared by hash value instead of identity
    if ([hval[i] for i in results[1]] != [hval[i] for i in res]) if tie else (results[1] != res):
        return "two clients with the same server set computed different orders"
    # independent statement of the expected sequence
    for i in range(n):
        want_in = conn[i]
        if want_in and for_upload and hasv[i]:
            want_in = vval[i]
        if (res.count(i) == 1) != want_in or res.count(i) > 1:
            return "result is not exactly the connected%s servers, once each" % (" and permitted" if for_upload else "")
    for a in range(len(res)):
        for bb in range(a + 1, len(res)):
            x, y = res[a], res[bb]
            if pref[x] != pref[y]:
                if not pref[x]:
                    return "an unpreferred server is listed before a preferred one"
            elif not ((hval[x] <= hval[y]) if tie else (hval[x] < hval[y])):
                return "servers of the same preference class are not in hash order"
    return True


def h_upload_permitted(http: bool, has_verifier: bool, value: bool) -> bool:
    """
    post: _ == True
    """
    cls = HTTPNativeStorageServer if http else NativeStorageServer
    s = cls.__new__(cls)
    calls = []

    def verifier():
        calls.append(1)
        return value
    s._grid_manager_verifier = verifier if has_verifier else None
    got = s.upload_permitted()
    if has_verifier:
        if len(calls) != 1:
            return "verifier must be evaluated at the time of the question (exactly once)"
        if got is not value and got != value:
            return "upload_permitted differs from the verifier's answer"
    else:
        if got is not True:
            return "no grid-manager verifier => every server is permitted"
    return True


# ---- mutable publish: Publish.update_goal places new shares only on permitted, non-bad servers -------------------

def _load_publish():
    from allmydata.mutable import publish as pub
    return pub


class _Bad(object):
    def __init__(self, flags):
        self.flags = flags

    def __contains__(self, server):
        return self.flags[server.idx]


class _NullAction(object):
    def __enter__(self):
        return self

    def __exit__(self, *a):
        return False


def h_update_goal(total: int, b0: bool, b1: bool, b2: bool, v0: bool, v1: bool, v2: bool,
                  u0: bool, u1: bool, u2: bool, g0: int, g1: int) -> bool:
    """
    pre: B.get("total_min", 1) <= total <= B.get("total_max", 3)
    pre: -1 <= g0 <= 2 and -1 <= g1 <= 2
    pre: B.get("g1_free", True) or g1 == -1
    pre: (not B.get("uniform_verifier", False)) or (v0 == v1 and v1 == v2)
    post: _ == True
    """
    pub = _load_publish()
    hlib.encoded(pub.Publish.update_goal)
    bad = [b0, b1, b2]
    hasv = [v0, v1, v2]
    vval = [u0, u1, u2]
    HASHES.clear()
    HASHES.update({0: 0, 1: 1, 2: 2})
    vcalls = []
    servers = [_mk_server(i, True, hasv[i], vval[i], vcalls) for i in range(3)]
    for s in servers:
        s._server_id = b"v0-id%d" % s.idx
    # old goal: share 0 on server g0 (if g0 >= 0), share 1 on server g1 (if g1 >= 0 and total > 1)
    goal = set()
    if g0 >= 0:
        goal.add((servers[g0], 0))
    if g1 >= 0 and total > 1:
        goal.add((servers[g1], 1))
    old_goal = set(goal)
    p = pub.Publish.__new__(pub.Publish)
    p.goal = goal
    p.bad_servers = _Bad(bad)
    p.total_shares = total
    p.full_serverlist = list(servers)
    p._first_write_error = None
    p._new_seqnum = 1
    p.log = lambda *a, **kw: 0
    p.log_goal = lambda goal, message="": None
    saved = (pub.start_action, pub.Message)
    pub.start_action = lambda **kw: _NullAction()
    pub.Message = NS(log=lambda **kw: None)
    err = None
    try:
        try:
            pub.Publish.update_goal(p)
        except pub.NotEnoughServersError as e:
            err = e
    finally:
        pub.start_action, pub.Message = saved
    permitted = [(not hasv[i]) or vval[i] for i in range(3)]
    usable = [i for i in range(3) if permitted[i] and not bad[i]]
    kept = set((s, sh) for (s, sh) in old_goal if not bad[s.idx])
    homeless = [sh for sh in range(total) if sh not in [x[1] for x in kept]]
    if err is not None:
        if usable or not homeless:
            return "NotEnoughServersError although a usable server exists / nothing to place"
        return True
    if homeless and not usable:
        return "homeless shares placed although no server is permitted and good"
    new = p.goal - kept
    if not kept <= p.goal:
        return "an existing placement on a good server was dropped"
    for (s, sh) in p.goal:
        if bad[s.idx]:
            return "goal contains a bad server"
    for (s, sh) in new:
        if not permitted[s.idx]:
            return "a new share was directed to a server without upload permission"
        if sh not in homeless:
            return "a share that already had a home was placed again"
    if sorted(sh for (s, sh) in new) != homeless:
        return "not every homeless share was placed exactly once"
    return True


# ---- peers.preferred from tahoe.cfg reaches the ordering ---------------------------------------------------------

EXCLUDED = []
PREFERRED_CLASS = "peers.preferred:str-from-config-never-equals-bytes-longname"
_IDS = ["v0-" + ch * 52 for ch in "abc"]


class CfgSrv(NativeStorageServer):
    """NativeStorageServer with a deterministic hash (frozenset iteration order must not depend on memory addresses)"""

    def __hash__(self):
        return self.__dict__.get("_harness_hash", 7)


# the eliot @log_call decorator reads the wall clock (each read forks CrossHair's symbolic time.time): dropped
_make_storage_server = hlib.strip_logs(StorageFarmBroker._make_storage_server, drop_decorators=("log_call",))


def _preferred_run(k, conn, hval):
    from _cfg import UntracedConfig
    from allmydata.util import base32
    cfg = UntracedConfig("[client]\npeers.preferred = %s\n" % _IDS[k])
    scc = sc.StorageClientConfig.from_node_config(cfg)
    sb = StorageFarmBroker(True, None, cfg, scc)
    seeds = {}
    saved = (sc.permute_server_hash, sc.NativeStorageServer, sc.getPlugins)

    def ideal_hash(psi, seed):
        return hval[seeds[seed]]
    sc.permute_server_hash = ideal_hash
    sc.NativeStorageServer = CfgSrv
    sc.getPlugins = lambda *a, **kw: iter(())      # twisted plugin discovery (file system scan); no storage plugins are configured
    try:
        for i, sid in enumerate(_IDS):
            seed = bytes([65 + i]) * 10
            seeds[seed] = i
            ann = {"anonymous-storage-FURL": "pb://%s@nowhere/fake" % ("a" * 32),
                   "permutation-seed-base32": base32.b2a(seed).decode("ascii"), "nickname": "n%d" % i}
            s = _make_storage_server(sb, sid.encode("ascii"), {"ann": ann})
            if not isinstance(s, CfgSrv):
                raise hlib.HarnessError("unexpected server class %r" % (type(s),))
            s._harness_hash = i
            s._is_connected = conn[i]
            sb.servers[sid.encode("ascii")] = s
        out = sb.get_servers_for_psi(b"psi-token")
    finally:
        sc.permute_server_hash, sc.NativeStorageServer, sc.getPlugins = saved
    return [_IDS.index(s.get_serverid().decode("ascii")) for s in out]


def _preferred_verdict(k, conn, hval, res):
    for i in range(3):
        if (res.count(i) == 1) != conn[i] or res.count(i) > 1:
            return "result is not exactly the connected servers"
    if conn[k] and res[0] != k:
        return "the server named in [client]peers.preferred is connected but not listed first"
    rest = [i for i in res if i != k]
    for a in range(len(rest) - 1):
        if not (hval[rest[a]] < hval[rest[a + 1]]):
            return "unpreferred servers not in hash order"
    return True


def h_preferred_from_config(k: int, c0: bool, c1: bool, c2: bool, h0: int, h1: int, h2: int) -> bool:
    """
    pre: 0 <= k <= 2
    pre: h0 != h1 and h0 != h2 and h1 != h2
    post: _ == True
    """
    conn = [c0, c1, c2]
    hval = [h0, h1, h2]
    res = _preferred_run(k, conn, hval)
    v = _preferred_verdict(k, conn, hval, res)
    if v is not True and PREFERRED_CLASS in EXCLUDED and v.startswith("the server named in"):
        assume(False)
    return v


def _classify_preferred(k, c0, c1, c2, h0, h1, h2):
    v = h_preferred_from_config(k, c0, c1, c2, h0, h1, h2)
    if v is True:
        return "held"
    return PREFERRED_CLASS if v.startswith("the server named in") else "oracle:" + v


CLASSIFY = {"h_preferred_from_config": _classify_preferred}
hlib.encoded(sc.StorageClientConfig.from_node_config, StorageFarmBroker.__init__, StorageFarmBroker._make_storage_server,
             sc._parse_announcement, NativeStorageServer.__init__)
NOTES.append("preferred_from_config: " + __import__("_cfg").NOTE + "; servers built by the real StorageFarmBroker._make_storage_server "
             "from announcements (tub_maker=None, never connected for real; _is_connected set by the harness); twisted getPlugins returns no plugins; "
             "eliot @log_call decorator of _make_storage_server dropped")
