"""
C12 -- concurrent writers are detected: the CLIENT side of the test-and-set.

Real code: mutable.layout.SDMFSlotWriteProxy (set_checkstring / get_checkstring / put_* / finish_publishing),
mutable.layout.MDMFSlotWriteProxy (set_checkstring / get_checkstring / put_* / finish_publishing / _write), and
Publish._got_write_answer + _push/_failure (surprise => UncoordinatedWriteError) with symbolic checkstring fields.
`struct` inside mutable.layout is a FakeStruct whose packed values can be prefix-sliced (header fields stay
symbolic integers / tokens instead of going through 64-bit byte arithmetic).
The SERVER side (a write is applied only if every test vector matches) is C24's subject.
"""
import struct as real_struct
from vlib import hlib
from vlib.hlib import NS, assume, FakeStruct, PackedFields
hlib.ensure_shims()
from twisted.internet import defer
from twisted.python import failure
import _mutmap as mm
from allmydata.mutable import layout as lay, publish as pub_mod, servermap as sm_mod
from allmydata.mutable.common import UncoordinatedWriteError, NotEnoughServersError
from allmydata.util.dictutil import DictOfSets

B = hlib.bounds()
NOTES = [
    "surprise_is_ucwe: ServerMap.version_on_server on the instance returns None (it only feeds a log message in _got_write_answer's refused-write branch)",
    "`struct` in allmydata.mutable.layout replaced by FakeStruct (field lists with the real sizes and range checks); packed values "
    "support prefix slicing on field boundaries (checkstring[:n])",
    "the storage server is a recorder of slot_testv_and_readv_and_writev calls returning an already-fired Deferred with a symbolic answer",
    "b\"\" literals in put_sharehashes/put_blockhashes/finish_publishing replaced by an empty bytes subclass whose join() keeps the parts as a list",
]


class PF(PackedFields):
    """PackedFields that can be prefix-sliced on field boundaries"""
    __slots__ = ()

    def __getitem__(self, key):
        if not isinstance(key, slice) or key.start not in (None, 0) or key.step not in (None, 1):
            raise hlib.HarnessError("PF: only prefix slices")
        n = key.stop
        if n is None or n >= self.size:
            return self
        fields = FakeStruct._fields(self.fmt)
        order = self.fmt[0] if self.fmt[0] in "<>!=@" else ""
        fmt, vals, size = order, [], 0
        for (code, cnt), v in zip(fields, self.values):
            if size == n:
                break
            piece = ("%ds" % cnt) if code == "s" else code
            size += real_struct.calcsize(order + piece)
            fmt += piece
            vals.append(v)
        if size != n:
            raise hlib.HarnessError("PF: slice not on a field boundary")
        return PF(fmt, vals, size)


class Struct(FakeStruct):
    @classmethod
    def pack(cls, fmt, *values):
        r = FakeStruct.pack(fmt, *values)
        return PF(r.fmt, r.values, r.size)

    @classmethod
    def unpack(cls, fmt, data):
        if isinstance(data, (bytes, bytearray)):
            return real_struct.unpack(fmt, data)
        return FakeStruct.unpack(fmt, data)


lay.struct = Struct


class Parts(object):
    """result of b"".join(parts) when some parts are packed-field tokens"""

    def __init__(self, parts):
        self.parts = list(parts)

    def __len__(self):
        n = 0
        for p in self.parts:
            n += len(p)
        return n


class EJ(bytes):
    def join(self, parts):
        parts = list(parts)
        if all(isinstance(p, (bytes, bytearray)) for p in parts):
            return bytes.join(b"", parts)
        return Parts(parts)


CONSTS = {b"": EJ()}
S = lay.SDMFSlotWriteProxy
M = lay.MDMFSlotWriteProxy
hlib.strip_method(S, "put_sharehashes", consts=CONSTS)
hlib.strip_method(S, "finish_publishing", consts=CONSTS)
hlib.strip_method(M, "put_sharehashes", consts=CONSTS)
hlib.strip_method(M, "_write", consts=CONSTS)
hlib.encoded(S.__init__, S.set_checkstring, S.get_checkstring, S.get_signable, S.put_block, S.put_root_hash, S._pack_offsets,
             M.__init__, M.set_checkstring, M.get_checkstring, M.put_block, M.put_root_hash, M.finish_publishing, M.get_signable,
             lay.get_version_from_checkstring, lay.unpack_sdmf_checkstring, lay.unpack_mdmf_checkstring)

ROOTS = [bytes([65 + i]) * 32 for i in range(3)]
SALTS = [bytes([97 + i]) * 16 for i in range(3)]
SI = b"S" * 16
SECRETS = (b"we", b"rs", b"cs")
Q64 = 1 << 64


from allmydata import storage_client as sc_mod
hlib.encoded(sc_mod._StorageServer.slot_testv_and_readv_and_writev)
NOTES.append("the writers talk to the REAL storage_client._StorageServer wrapper whose remote reference's callRemote is a recorder: "
             "what is checked is what goes on the wire (4-tuple test vectors with the b'eq' operator)")


class _Rref(object):
    def __init__(self, wrote):
        self.calls = []
        self.wrote = wrote

    def callRemote(self, name, *args):
        if name != "slot_testv_and_readv_and_writev":
            raise hlib.HarnessError("unexpected remote call %s" % name)
        self.calls.append(args)
        return defer.succeed((self.wrote, {}))


def Server(wrote):
    rref = _Rref(wrote)
    srv = sc_mod._StorageServer(get_rref=lambda: rref)
    srv.calls = rref.calls
    return srv


def _fire(d):
    out = []
    d.addBoth(out.append)
    if not out:
        raise hlib.HarnessError("not fired")
    if isinstance(out[0], failure.Failure):
        out[0].raiseException()
    return out[0]


def h_sdmf_testv(mode: int, seq_old: int, seq_new: int, r_old: int, s_old: int, r_new: int, wrote: bool) -> bool:
    """
    pre: 0 <= mode <= 2 and 0 <= seq_old < Q64 and 0 <= seq_new < Q64
    pre: 0 <= r_old <= 2 and 0 <= s_old <= 2 and 0 <= r_new <= 2
    post: _ == True
    """
    r_old, s_old, r_new, mode = mm.pin(r_old, 0, 2), mm.pin(s_old, 0, 2), mm.pin(r_new, 0, 2), mm.pin(mode, 0, 2)
    srv = Server(wrote)
    shnum = 1
    w = S(shnum, srv, SI, SECRETS, seq_new, 3, 10, 9, 9)
    if w.get_checkstring() != b"":
        return "fresh writer claims to know a checkstring"
    if mode == 1:
        # the publisher's form: what the survey (servermap) saw on that server
        w.set_checkstring(seq_old, ROOTS[r_old], SALTS[s_old])
    elif mode == 2:
        # the bad-share form: a literal checkstring recorded by mark_bad_share
        literal = Struct.pack(lay.PREFIX, 0, seq_old, ROOTS[r_old], SALTS[s_old])
        w.set_checkstring(literal)
    w.put_block(b"blk", 0, SALTS[0])
    w.put_encprivkey(b"encprivkey")
    w.put_blockhashes([b"h" * 32])
    w.put_sharehashes({0: b"g" * 32})
    w.put_root_hash(ROOTS[r_new])
    w.put_signature(b"signature")
    w.put_verification_key(b"verification-key")
    cs = w.get_checkstring()
    if mode == 0:
        if cs != b"":
            return "checkstring invented for a new share"
    else:
        if not isinstance(cs, PF) or FakeStruct._fields(cs.fmt) != FakeStruct._fields(lay.PREFIX):
            return "checkstring is not a packed (version, seqnum, root hash, salt) prefix"
        if cs.values[0] != 0 or cs.values[1] != seq_old or cs.values[2] != ROOTS[r_old] or cs.values[3] != SALTS[s_old]:
            return "checkstring does not denote the version the survey saw"
    res = _fire(w.finish_publishing())
    if len(srv.calls) != 1:
        return "not exactly one remote write"
    (si, secrets, tw, readv) = srv.calls[0]
    if si != SI or secrets != SECRETS or list(tw.keys()) != [shnum]:
        return "write addressed to the wrong slot/share"
    (testv, datav, new_length) = tw[shnum]
    if mode == 0:
        # the empty-share test: reading 1 byte at offset 0 must yield nothing
        if list(testv) != [(0, 1, b"eq", b"")]:
            return "new share is not guarded by the 'share does not exist' test vector (0, 1, eq, b'')"
    else:
        if len(testv) != 1 or testv[0][:3] != (0, real_struct.calcsize(lay.PREFIX), b"eq") or testv[0][3] is not cs:
            return "test vector is not (0, len(checkstring), eq, checkstring the survey saw) over the WHOLE checkstring"
    if len(datav) != 1 or datav[0][0] != 0 or new_length is not None:
        return "SDMF share is not written as one vector at offset 0"
    share = datav[0][1]
    head = share.parts[0]
    if head.values[1] != seq_new or head.values[2] != ROOTS[r_new] or head.values[0] != 0:
        return "written share does not start with the new (seqnum, root hash)"
    if list(readv) != [(0, real_struct.calcsize(lay.PREFIX))]:
        return "read vector is not the checkstring range"
    if res[0] != wrote:
        return "server answer not passed through"
    return True


def h_mdmf_testv(mode: int, seq_old: int, seq_new: int, r_old: int, r_new: int, wrote: bool) -> bool:
    """
    pre: 0 <= mode <= 3 and 0 <= seq_old < Q64 and 0 <= seq_new < Q64
    pre: 0 <= r_old <= 2 and 0 <= r_new <= 2
    post: _ == True
    """
    r_old, r_new, mode = mm.pin(r_old, 0, 2), mm.pin(r_new, 0, 2), mm.pin(mode, 0, 3)
    srv = Server(wrote)
    shnum = 1
    w = M(shnum, srv, SI, SECRETS, seq_new, 3, 10, 6, 7)      # 2 segments: 6 + 1 bytes, blocks of 2 and 1
    old = None
    if mode == 1:
        w.set_checkstring(seq_old, ROOTS[r_old])                 # publisher's form
        old = (1, seq_old, ROOTS[r_old])
    elif mode == 2:
        literal = Struct.pack(lay.MDMFCHECKSTRING, 1, seq_old, ROOTS[r_old])
        w.set_checkstring(literal)                                # literal form
        old = (1, seq_old, ROOTS[r_old])
    elif mode == 3:
        w.set_checkstring(b"")                                    # "expect no share"
    w.put_block(b"b0", 0, SALTS[0])
    w.put_block(b"b", 1, SALTS[1])
    w.put_encprivkey(b"k" * 20)
    w.put_blockhashes([b"h" * 32] * 3)
    w.put_sharehashes({0: b"g" * 32})
    w.put_root_hash(ROOTS[r_new])
    w.put_signature(b"s" * 10)
    w.put_verification_key(b"v" * 10)
    if srv.calls:
        return "MDMF writer wrote before finish_publishing"
    res = _fire(w.finish_publishing())
    if len(srv.calls) != 1:
        return "not exactly one remote write"
    (si, secrets, tw, readv) = srv.calls[0]
    if si != SI or secrets != SECRETS or list(tw.keys()) != [shnum]:
        return "write addressed to the wrong slot/share"
    (testv, datav, new_length) = tw[shnum]
    cslen = real_struct.calcsize(lay.MDMFCHECKSTRING)
    if old is None:
        if list(testv) != [(0, 1, b"eq", b"")]:
            return "new share is not guarded by the 'share does not exist' test vector (0, 1, eq, b'')"
    else:
        if len(testv) != 1 or testv[0][:3] != (0, cslen, b"eq"):
            return "test vector does not compare the whole checkstring range for equality"
        t = testv[0][3]
        if not isinstance(t, PF) or tuple(t.values) != old:
            return "test vector does not carry the (seqnum, root hash) the survey saw"
    # the write must install the NEW checkstring at offset 0 (so that other writers see the change)
    heads = [d for (off, d) in datav if off == 0 and isinstance(d, PF) and FakeStruct._fields(d.fmt) == FakeStruct._fields(lay.MDMFCHECKSTRING)]
    if not heads:
        return "no checkstring written at offset 0"
    for h in heads:
        if tuple(h.values) != (1, seq_new, ROOTS[r_new]):
            return "checkstring written is not (1, new seqnum, new root hash)"
    if w.get_checkstring() != heads[-1]:
        return "get_checkstring is not what was written"
    if list(readv) != [(0, cslen)]:
        return "read vector is not the checkstring range"
    if not isinstance(res, tuple) or res[0] != wrote or res[1] != {}:
        return "the server's answer (wrote, read data) is not passed through to the publisher"
    # a second write by the same writer: after a successful first write it must test for OUR new checkstring,
    # after a refused one the old expectation must stand
    res2 = _fire(w._write([(200, b"more")]))
    if not isinstance(res2, tuple) or res2[0] != wrote:
        return "the server's answer is not passed through on a later write"
    (testv2, datav2, nl2) = srv.calls[1][2][shnum]
    if wrote:
        if len(testv2) != 1 or testv2[0][:3] != (0, cslen, b"eq") or tuple(testv2[0][3].values) != (1, seq_new, ROOTS[r_new]):
            return "after a successful write the next write does not test for our own checkstring"
        if [d for (off, d) in datav2 if off == 0]:
            return "checkstring rewritten on a later write"
    else:
        if old is None:
            if list(testv2) != [(0, 1, b"eq", b"")]:
                return "after a refused write the empty-share expectation was lost"
        elif tuple(testv2[0][3].values) != old:
            return "after a refused write the old expectation was lost"
    return True


# ---- surprise detection with symbolic checkstring fields --------------------------------------------------

_Q = []
pub_mod.eventually = lambda f, *a, **kw: _Q.append((f, a, kw))
pub_mod.time = NS(time=lambda: 1000.0)
P = pub_mod.Publish
for _name in ("_got_write_answer", "_push", "_failure", "_done"):
    hlib.strip_method(P, _name)


class _NullStatus(object):
    def __init__(self):
        self.timings = {}

    def __getattr__(self, name):
        return lambda *a, **kw: None


def h_surprise(my_seq: int, their_seq: int, their_root: int, their_salt: int, wrote: bool,
               extra: bool, extra_known: bool, wrote2: bool, second_first: bool) -> bool:
    """
    pre: 0 <= my_seq < Q64 and 0 <= their_seq < Q64 and 0 <= their_root <= B.get("rmax", 1) and 0 <= their_salt <= B.get("rmax", 1)
    pre: their_salt == 0 or not B["mdmf"]
    post: _ == True
    """
    mdmf, asked, my_root = B["mdmf"], B["asked"], 0
    in_goal = second_first       # (whether the extra share is in our goal changes nothing: both branches `continue`)
    their_root, their_salt = mm.pin(their_root, 0, B.get("rmax", 1)), mm.pin(their_salt, 0, B.get("rmax", 1))
    del _Q[:]
    if mdmf:
        mine = Struct.pack(lay.MDMFCHECKSTRING, 1, my_seq, ROOTS[my_root])
        theirs = Struct.pack(lay.MDMFCHECKSTRING, 1, their_seq, ROOTS[their_root])
        same = (their_seq == my_seq and their_root == my_root)
    else:
        mine = Struct.pack(lay.PREFIX, 0, my_seq, ROOTS[my_root], SALTS[0])
        theirs = Struct.pack(lay.PREFIX, 0, their_seq, ROOTS[their_root], SALTS[their_salt])
        same = (their_seq == my_seq and their_root == my_root and their_salt == 0)
    srv, srv2 = mm.Srv("a"), mm.Srv("b")
    sm = sm_mod.ServerMap()
    if asked:
        sm.mark_server_reachable(srv)
    # only consulted to build a log message in the refused-write branch ("%d" of the symbolic seqnum would realise it)
    sm.version_on_server = lambda server, shnum: None
    pub = P.__new__(P)
    pub._node = NS(set_downloader_hints=lambda h: None)
    pub._servermap = sm
    pub._status = _NullStatus()
    pub._log_number = 0
    pub.log = lambda *a, **kw: 0
    pub._running = True
    pub._started = pub._started_pushing = 999.0
    pub._last_failure = None
    pub.required_shares = 1
    pub.segment_size = 3
    pub.surprised = False
    pub.placed = set()
    pub.bad_servers = set()
    pub.num_outstanding = 0
    pub.versioninfo = mm.verinfo(3, 0, 1)
    pub._checkstring = mine
    pub._version = lay.MDMF_VERSION if mdmf else lay.SDMF_VERSION
    # the sequence number this publish is writing: a competing share may carry exactly this number with another root hash
    # (SDMF writers report the checkstring they replace, so _checkstring carries the old seqnum; MDMF writers the new one)
    pub._new_seqnum = my_seq if mdmf else my_seq + 1
    pub._state = pub_mod.DONE_STATE
    pub.done_deferred = defer.Deferred()
    w0 = NS(shnum=0, server=srv)
    w1 = NS(shnum=1, server=(srv if extra_known else srv2))
    pub.writers = DictOfSets()
    pub.writers.add(0, w0)
    pub.writers.add(1, w1)
    pub.goal = set([(srv, 0), (w1.server, 1)])
    if in_goal:
        pub.goal.add((srv, 1))
    read_data = {0: [theirs if not wrote else mine]}
    if extra:
        read_data[1] = [theirs]
    # two answers, in either order: the one under study from w0, and a plain one (no unknown shares) from w1
    ans0 = ((wrote, read_data), w0)
    ans1 = ((wrote2, {1: [mine if wrote2 else theirs]}), w1)
    for (ans, w) in ([ans1, ans0] if second_first else [ans0, ans1]):
        pub._got_write_answer(ans, w, 998.0)
    pub._push()
    while _Q:
        (f, a, kw) = _Q.pop(0)
        f(*a, **kw)
    out = []
    pub.done_deferred.addBoth(out.append)
    if len(out) != 1:
        return "publish did not finish exactly once"
    ucw = isinstance(out[0], failure.Failure) and out[0].check(UncoordinatedWriteError) is not None
    ok = not isinstance(out[0], failure.Failure)
    # the statement: a refused test vector, or a share we are not writing on that server that holds a version
    # different from ours, means somebody else wrote => UncoordinatedWriteError
    # ... and the flag is sticky: once ANY answer was surprising, later unsurprising answers must not clear it
    must_ucw = (not wrote) or (not wrote2) or (extra and not extra_known and not same)
    if must_ucw and not ucw:
        return "a different version was met but no UncoordinatedWriteError was reported"
    if not must_ucw:
        if not ok:
            return "publish failed although the server accepted the write and nothing foreign was seen"
        if (srv, 0) not in pub.placed:
            return "accepted write not recorded as placed"
    if not wrote and (srv, 0) in pub.placed:
        return "refused write recorded as placed"
    if not wrote2 and (w1.server, 1) in pub.placed:
        return "refused write recorded as placed"
    return True
