"""
C29 — share containers survive a server crash.

Each obligation runs ONE real storage operation on the in-memory filesystem with a symbolic crash
index c: the first c low-level mutating calls (write / truncate / create / rename / unlink / rmdir /
makedirs) are applied, the (c+1)-th raises Crash (process kill).  Then the container is re-opened with
the REAL constructor (ShareFile.__init__ derives the lease offset and the data length from the file
size; MutableShareFile reads them from the header) and the survivor is compared with the pre-state.

Witness classes: "<operation>:<kinds of the low-level calls that were applied before the kill>".
`EXCLUDED` is filled by the worker with known classes that were already hit; inputs in an excluded
class are assumed away, every other crash point is still checked.
"""
from vlib import hlib
from vlib.hlib import ProvBuf, PackedFields, assume
import _sharefix as X
from _sharefix import FS, FStruct, MSF, SF, DATA_OFFSET, MLEASE, ILEASE, MAX_SIZE, Garbage, Crash
import _fakefile
from allmydata.storage import immutable as imm, mutable as mut
from allmydata.storage.lease import LeaseInfo

B = hlib.bounds()
EXCLUDED = []
NOTES = X.NOTES + [
    "timers of BucketWriter: recording clock (no reactor)",
]
hlib.encoded(SF.__init__, SF.add_lease, SF.renew_lease, SF.cancel_lease, SF.get_leases, SF._write_lease_record,
             SF._read_num_leases, SF._write_num_leases, SF._write_encoded_num_leases, SF._truncate_leases,
             SF.read_share_data, SF.get_length, SF.write_share_data,
             MSF.__init__, MSF.add_lease, MSF.renew_lease, MSF._write_lease_record, MSF._read_lease_record,
             MSF._get_num_lease_slots, MSF._get_first_empty_lease_slot, MSF._enumerate_leases, MSF.get_leases,
             MSF._write_num_extra_leases, MSF._read_num_extra_leases, MSF.writev,
             imm.BucketWriter.__init__, imm.BucketWriter.write, imm.BucketWriter.close, imm.BucketWriter.abort,
             X.SS._clean_incomplete, X.SS.get_shares, X.SS.bucket_writer_closed)

PATH = X.share_path(0)
INCOMING = X.incoming_path(0)
PARENT = X.Parent()

_KIND = {"rec(>L32s32sL)": "ilease", "rec(>L)": "count32", "rec(>Q)": "u64", "rec(>LL32s32s20s)": "mlease",
         "rec(>LLL)": "iheader"}


def crash_class(opname):
    """Witness class: operation + kinds of the low-level calls applied before the kill (repeats collapsed)."""
    kinds = []
    for (op, _path, detail, _pos) in FS.log:
        if op == "write":
            k = _fakefile.payload_kind(detail)
            k = _KIND.get(k, k)
        else:
            k = op
        if not kinds or kinds[-1] != k:
            kinds.append(k)
    return "%s:%s" % (opname, ",".join(kinds) if kinds else "nothing-applied")


def _crashing(c, fn):
    """Run fn() with the crash index armed. -> True if the kill happened."""
    FS.crash_at = c
    try:
        fn()
        return False
    except Crash:
        return True
    finally:
        FS.crash_at = None


# ---- immutable containers: lease operations -------------------------------------------------------------

_ILEASES = [(1, X.tok("r", i), X.tok("c", i), 1000 + i) for i in range(3)]


def _ileases(n, version, exp):
    """n lease records as a container of `version` stores them; expiry of lease i is exp[i]."""
    out = []
    for i in range(n):
        (owner, r, c, _e) = _ILEASES[i]
        out.append(X.ilease_rec(owner, X.hashed(version, r), X.hashed(version, c), exp[i]))
    return out


def _check_immutable(path, dlen, before, p, allowed_extra=None, version=2):
    """Re-open with the real constructor; data length and bytes unchanged, the old leases all still there."""
    try:
        sf = SF(path)
    except Exception as e:
        return "re-open after the crash failed: %r" % (e,)
    if sf.get_length() != dlen:
        return "share data length changed (was %r, now %r)" % (dlen, sf.get_length())
    got = sf.read_share_data(p, 1)
    if p < dlen:
        if len(got) != 1 or got.at(0) != ("old", p):
            return "share data changed"
    elif len(got) != 0:
        return "read beyond the end of the data returns bytes"
    try:
        leases = list(sf.get_leases())
    except Exception as e:
        return "leases unreadable after the crash: %r" % (e,)
    recs = []
    for li in leases:
        raw = li._lease_info if version == 2 else li
        recs.append((raw.owner_num, raw.renew_secret, raw.cancel_secret, raw._expiration_time))
    return recs


def _lease_tuple(rec):
    (owner, r, c, e) = rec.values
    return (owner, r, c, e)


def _run_imm_add(dlen, n, e0, e1, enew, c, p):
    X.reset()
    before = _ileases(n, 2, [e0, e1])
    X.mk_immutable(PATH, dlen, before)
    sf = SF(PATH)
    li = LeaseInfo(1, X.tok("R", 9), X.tok("C", 9), enew, X.NODEID)
    crashed = _crashing(c, lambda: sf.add_lease(li))
    cls = crash_class("ShareFile.add_lease") if crashed else "no-crash"
    return cls, crashed, before, li


def h_imm_add_lease(dlen: int, n: int, e0: int, e1: int, enew: int, c: int, p: int) -> bool:
    """
    pre: 0 <= dlen <= B["dlen_max"] and 1 <= n <= 2 and 0 <= c <= 2 and 0 <= p
    pre: 0 <= e0 < X.U32 and 0 <= e1 < X.U32 and 0 <= enew < X.U32
    post: _ == True
    """
    return X.guard(_h_imm_add_lease, dlen, n, e0, e1, enew, c, p)


def _h_imm_add_lease(dlen, n, e0, e1, enew, c, p):
    cls, crashed, before, li = _run_imm_add(dlen, n, e0, e1, enew, c, p)
    assume(cls not in EXCLUDED)
    recs = _check_immutable(PATH, dlen, before, p)
    if isinstance(recs, str):
        return recs
    want = [_lease_tuple(r) for r in before]
    new = (1, X.hashed(2, li.renew_secret), X.hashed(2, li.cancel_secret), enew)
    if recs[:n] != want:
        return "an existing lease was lost or altered"
    if crashed:
        if recs[n:] not in ([], [new]):
            return "lease list after the crash is neither the old one nor old + new"
    elif recs[n:] != [new]:
        return "completed add_lease did not add the lease"
    return True


def _run_imm_renew(dlen, n, e0, e1, which, enew, c):
    X.reset()
    before = _ileases(n, 2, [e0, e1])
    X.mk_immutable(PATH, dlen, before)
    sf = SF(PATH)
    secret = _ILEASES[which][1]
    crashed = _crashing(c, lambda: sf.renew_lease(secret, enew))
    cls = crash_class("ShareFile.renew_lease") if crashed else "no-crash"
    return cls, crashed, before


def h_imm_renew_lease(dlen: int, n: int, e0: int, e1: int, which: int, enew: int, c: int, p: int) -> bool:
    """
    pre: 0 <= dlen <= B["dlen_max"] and 1 <= n <= 2 and 0 <= which < n and 0 <= c <= 1 and 0 <= p
    pre: 0 <= e0 < X.U32 and 0 <= e1 < X.U32 and 0 <= enew < X.U32
    post: _ == True
    """
    return X.guard(_h_imm_renew_lease, dlen, n, e0, e1, which, enew, c, p)


def _h_imm_renew_lease(dlen, n, e0, e1, which, enew, c, p):
    cls, crashed, before = _run_imm_renew(dlen, n, e0, e1, which, enew, c)
    assume(cls not in EXCLUDED)
    recs = _check_immutable(PATH, dlen, before, p)
    if isinstance(recs, str):
        return recs
    old = [_lease_tuple(r) for r in before]
    if len(recs) != n:
        return "renew changed the number of leases"
    for i in range(n):
        if i != which and recs[i] != old[i]:
            return "renewing one lease altered another"
    eold = old[which][3]
    renewed = old[which][:3] + (enew if enew > eold else eold,)
    if crashed:
        if recs[which] not in (old[which], renewed):
            return "renewed lease is neither the old nor the new record"
    elif recs[which] != renewed:
        return "completed renew_lease did not store max(old, new) expiry"
    return True


def _run_imm_cancel(dlen, n, which, c):
    X.reset()
    before = _ileases(n, 2, [1000, 1001, 1002])
    X.mk_immutable(PATH, dlen, before)
    sf = SF(PATH)
    secret = _ILEASES[which][2]
    crashed = _crashing(c, lambda: sf.cancel_lease(secret))
    cls = crash_class("ShareFile.cancel_lease") if crashed else "no-crash"
    return cls, crashed, before


def h_imm_cancel_lease(dlen: int, n: int, which: int, c: int, p: int) -> bool:
    """
    pre: 0 <= dlen <= B["dlen_max"] and 1 <= n <= B["n_max"] and 0 <= which < n and 0 <= c <= n + 3 and 0 <= p
    post: _ == True
    """
    return X.guard(_h_imm_cancel_lease, dlen, n, which, c, p)


def _h_imm_cancel_lease(dlen, n, which, c, p):
    cls, crashed, before = _run_imm_cancel(dlen, n, which, c)
    assume(cls not in EXCLUDED)
    if not FS.os.path.exists(PATH):
        # cancelling the last lease removes the share (by design); only after every other step
        if n != 1 or (crashed and FS.log[-1][0] != "unlink"):
            return "share file removed although leases remain"
        return True
    recs = _check_immutable(PATH, dlen, before, p)
    if isinstance(recs, str):
        return recs
    old = [_lease_tuple(r) for r in before]
    keep = [old[i] for i in range(n) if i != which]
    for k in keep:
        if k not in recs:
            return "a lease that was not cancelled was lost"
    if not crashed and recs != keep:
        return "completed cancel_lease left a wrong lease list"
    return True


# ---- mutable containers ---------------------------------------------------------------------------------

_SLOTS = [X.mlease_rec(1, 1000 + i, X.hashed(2, X.tok("r", i)), X.hashed(2, X.tok("c", i))) for i in range(4)]
_EXTRAS = [X.mlease_rec(1, 2000 + i, X.hashed(2, X.tok("xr", i)), X.hashed(2, X.tok("xc", i))) for i in range(3)]
_BLANK = X.mlease_rec(0, 0, b"\x00" * 32, b"\x00" * 32, b"\x00" * 20)


def _mleases_after(path):
    """Lease records of the re-opened container, through the real reader. -> list of 5-tuples or error string"""
    try:
        sf = MSF(path, PARENT)
        out = []
        for li in sf.get_leases():
            raw = li._lease_info
            out.append((raw.owner_num, raw._expiration_time, raw.renew_secret, raw.cancel_secret, raw.nodeid))
        return out
    except Exception as e:
        return "leases unreadable after the crash: %r" % (e,)


def _mheader_ok(path):
    st = FS.get(path)
    (magic, nodeid, we, dlf, elof) = X.rec_values(st, 0, ">32s20s32sQQ")
    if magic != X.MAGIC[2] or nodeid != X.NODEID or we != X.WE_GOOD:
        return "magic / nodeid / write enabler damaged"
    if isinstance(dlf, Garbage) or isinstance(elof, Garbage) or not X.mutable_inv(dlf, elof):
        return "container geometry inconsistent (need 468 + data_length <= extra_lease_offset)"
    return None


def _run_mut_write(dl, elo, nx, off, ln, c):
    X.reset()
    slots, extras = list(_SLOTS), _EXTRAS[:nx]
    X.mk_mutable(PATH, dl, elo, slots, extras)
    sf = MSF(PATH, PARENT)
    crashed = _crashing(c, lambda: sf.writev([(off, ProvBuf.src("new", ln))], None))
    cls = crash_class("MutableShareFile.writev") if crashed else "no-crash"
    return cls, crashed, slots, extras


def h_mut_write(dl: int, elo: int, nx: int, off: int, ln: int, c: int) -> bool:
    """
    pre: X.mutable_inv(dl, elo) and nx == B["nx"] and 0 <= c <= 6
    pre: 0 <= off and 1 <= ln and off + ln <= MAX_SIZE
    post: _ == True
    """
    return X.guard(_h_mut_write, dl, elo, nx, off, ln, c)


def _h_mut_write(dl, elo, nx, off, ln, c):
    cls, crashed, slots, extras = _run_mut_write(dl, elo, nx, off, ln, c)
    assume(cls not in EXCLUDED)
    bad = _mheader_ok(PATH)
    if bad:
        return bad
    got = _mleases_after(PATH)
    if isinstance(got, str):
        return got
    want = [tuple(r.values) for r in slots + extras]
    if got != want:
        return "a data write (interrupted or not) lost or altered leases: have %d of %d" % (len(got), len(want))
    return True


def _run_mut_add(dl, elo, nfree, nx, c):
    X.reset()
    slots = list(_SLOTS)
    for i in range(nfree):
        slots[3 - i] = _BLANK
    extras = _EXTRAS[:nx]
    X.mk_mutable(PATH, dl, elo, slots, extras)
    sf = MSF(PATH, PARENT)
    li = LeaseInfo(1, X.tok("R", 9), X.tok("C", 9), 5000, X.NODEID)
    crashed = _crashing(c, lambda: sf.add_lease(1000, li))
    cls = crash_class("MutableShareFile.add_lease") if crashed else "no-crash"
    return cls, crashed, slots, extras, li


def h_mut_add_lease(dl: int, elo: int, nfree: int, nx: int, c: int, p: int) -> bool:
    """
    pre: X.mutable_inv(dl, elo) and 0 <= nfree <= 1 and 0 <= nx <= B["nx_max"] and (nfree == 0 or nx == 0) and 0 <= c <= 2 and 0 <= p
    post: _ == True
    """
    return X.guard(_h_mut_add_lease, dl, elo, nfree, nx, c, p)


def _h_mut_add_lease(dl, elo, nfree, nx, c, p):
    cls, crashed, slots, extras, li = _run_mut_add(dl, elo, nfree, nx, c)
    assume(cls not in EXCLUDED)
    bad = _mheader_ok(PATH)
    if bad:
        return bad
    st = FS.get(PATH)
    (dlf,) = X.rec_values(st, MSF.DATA_LENGTH_OFFSET, ">Q")
    if dlf != dl:
        return "a lease operation changed the data length"
    if p < dl and st.at(DATA_OFFSET + p) != ("old", p):
        return "a lease operation changed share data"
    got = _mleases_after(PATH)
    if isinstance(got, str):
        return got
    old = [tuple(r.values) for r in slots + extras if r is not _BLANK]
    new = (1, 5000, X.hashed(2, li.renew_secret), X.hashed(2, li.cancel_secret), X.NODEID)
    if got[:len(old)] != old:
        return "an existing lease was lost or altered"
    if crashed:
        if got[len(old):] not in ([], [new]):
            return "lease list after the crash is neither the old one nor old + new"
    elif got[len(old):] != [new]:
        return "completed add_lease did not add the lease"
    return True


def _run_mut_renew(dl, elo, nx, which, enew, c):
    X.reset()
    slots, extras = list(_SLOTS), _EXTRAS[:nx]
    X.mk_mutable(PATH, dl, elo, slots, extras)
    sf = MSF(PATH, PARENT)
    secret = X.tok("r", which) if which < 4 else X.tok("xr", which - 4)
    crashed = _crashing(c, lambda: sf.renew_lease(secret, enew))
    cls = crash_class("MutableShareFile.renew_lease") if crashed else "no-crash"
    return cls, crashed, slots, extras


def h_mut_renew_lease(dl: int, elo: int, nx: int, which: int, enew: int, c: int, p: int) -> bool:
    """
    pre: X.mutable_inv(dl, elo) and 0 <= nx <= B["nx_max"] and 0 <= which < 4 + nx and 0 <= c <= 1 and 0 <= p
    pre: 0 <= enew < X.U32
    post: _ == True
    """
    return X.guard(_h_mut_renew_lease, dl, elo, nx, which, enew, c, p)


def _h_mut_renew_lease(dl, elo, nx, which, enew, c, p):
    cls, crashed, slots, extras = _run_mut_renew(dl, elo, nx, which, enew, c)
    assume(cls not in EXCLUDED)
    bad = _mheader_ok(PATH)
    if bad:
        return bad
    st = FS.get(PATH)
    (dlf,) = X.rec_values(st, MSF.DATA_LENGTH_OFFSET, ">Q")
    if dlf != dl:
        return "a lease operation changed the data length"
    if p < dl and st.at(DATA_OFFSET + p) != ("old", p):
        return "a lease operation changed share data"
    got = _mleases_after(PATH)
    if isinstance(got, str):
        return got
    old = [tuple(r.values) for r in slots + extras]
    if len(got) != len(old):
        return "renew changed the number of leases"
    for i in range(len(old)):
        if i != which and got[i] != old[i]:
            return "renewing one lease altered another"
    eold = old[which][1]
    renewed = (old[which][0], enew if enew > eold else eold) + old[which][2:]
    if crashed:
        if got[which] not in (old[which], renewed):
            return "renewed lease is neither the old nor the new record"
    elif got[which] != renewed:
        return "completed renew_lease did not store max(old, new) expiry"
    return True


# ---- immutable upload: absent or complete ------------------------------------------------------------------

class _SSRec(object):
    """The `ss` of a BucketWriter: records calls (the real bucket_writer_closed is exercised in C22/C28)."""

    def __init__(self):
        self.closed = []

    def add_latency(self, *a):
        pass

    def count(self, *a):
        pass

    def bucket_writer_closed(self, bw, size):
        self.closed.append((bw, size))


def _run_upload(size, split, c):
    X.reset()
    FS.split_hint = 0xc
    clock = X.Clock()
    ss = _SSRec()
    li = LeaseInfo(1, X.tok("R", 9), X.tok("C", 9), 5000, X.NODEID)

    def upload():
        bw = imm.BucketWriter(ss, INCOMING, PATH, size, li, clock)
        # two writes, second part first (out-of-order upload)
        bw.write(split, ProvBuf.src("up", size - split, split))
        bw.write(0, ProvBuf.src("up", split, 0))
        bw.close()
    crashed = _crashing(c, upload)
    cls = crash_class("upload") if crashed else "no-crash"
    return cls, crashed


def h_upload(size: int, split: int, c: int, p: int) -> bool:
    """
    pre: 1 <= size <= B["dlen_max"] and 0 < split < size and 0 <= c <= 10 and 0 <= p
    post: _ == True
    """
    return X.guard(_h_upload, size, split, c, p)


def _h_upload(size, split, c, p):
    cls, crashed = _run_upload(size, split, c)
    assume(cls not in EXCLUDED)
    # restart: the real StorageServer start-up cleanup, then share discovery
    ss2 = X.mk_server()
    ss2._clean_incomplete()
    if FS.os.path.exists(X.INCOMING):
        return "incoming/ not discarded at restart"
    shares = list(ss2.get_shares(X.SI))
    if shares not in ([], [(0, PATH)]):
        return "unexpected share listing %r" % (shares,)
    if not crashed and shares == []:
        return "completed upload is not visible"
    if shares:
        sf = SF(PATH)
        if sf.get_length() != size:
            return "visible immutable share is not complete (length)"
        got = sf.read_share_data(p, 1)
        if p < size:
            if len(got) != 1 or got.at(0) != ("up", p):
                return "visible immutable share is not complete (bytes)"
        elif len(got) != 0:
            return "read beyond the end"
        if len(list(sf.get_leases())) != 1:
            return "visible share lost its lease"
    return True


CLASSIFY = {
    "h_imm_add_lease": lambda *a: _run_imm_add(*a)[0],
    "h_imm_renew_lease": lambda dlen, n, e0, e1, which, enew, c, p: _run_imm_renew(dlen, n, e0, e1, which, enew, c)[0],
    "h_imm_cancel_lease": lambda dlen, n, which, c, p: _run_imm_cancel(dlen, n, which, c)[0],
    "h_mut_write": lambda *a: _run_mut_write(*a)[0],
    "h_mut_add_lease": lambda dl, elo, nfree, nx, c, p: _run_mut_add(dl, elo, nfree, nx, c)[0],
    "h_mut_renew_lease": lambda dl, elo, nx, which, enew, c, p: _run_mut_renew(dl, elo, nx, which, enew, c)[0],
    "h_upload": lambda size, split, c, p: _run_upload(size, split, c)[0],
}


# ---- deleting one share of a slot (new_length == 0) must leave its sibling shares alone ------------------------

_evalw = hlib.strip_logs(X.SS._evaluate_write_vectors)
hlib.encoded(MSF.unlink)


def _run_delete(dl1, elo1, nx, third, c):
    X.reset()
    ss = X.mk_server()
    slots, extras = list(_SLOTS), _EXTRAS[:nx]
    X.mk_mutable(X.share_path(0), 7, DATA_OFFSET + 7, list(_SLOTS), [])
    X.mk_mutable(X.share_path(1), dl1, elo1, slots, extras)
    shares = {0: MSF(X.share_path(0), ss), 1: MSF(X.share_path(1), ss)}
    if third:
        X.mk_mutable(X.share_path(2), 3, DATA_OFFSET + 3, list(_SLOTS), [])
        shares[2] = MSF(X.share_path(2), ss)
    secrets = (X.WE_GOOD, X.tok("R", 1), X.tok("C", 1))
    tw = {0: ([], [], 0)}
    if third:
        tw[2] = ([], [], 0)
    out = []
    crashed = _crashing(c, lambda: out.append(_evalw(ss, X.BUCKET, secrets, tw, shares)))
    cls = crash_class("delete-share") if crashed else "no-crash"
    return cls, crashed, slots, extras, out


def h_delete_sibling(dl1: int, elo1: int, nx: int, third: bool, c: int, p: int) -> bool:
    """
    pre: X.mutable_inv(dl1, elo1) and 0 <= nx <= 1 and 0 <= c <= 3 and 0 <= p
    post: _ == True
    """
    return X.guard(_h_delete_sibling, dl1, elo1, nx, third, c, p)


def _h_delete_sibling(dl1, elo1, nx, third, c, p):
    cls, crashed, slots, extras, out = _run_delete(dl1, elo1, nx, third, c)
    assume(cls not in EXCLUDED)
    # share 1 is not named by the request: whatever happened to shares 0 / 2 (and wherever the process died),
    # it keeps its container, data and leases
    st = FS.get(X.share_path(1))
    if st is None:
        return "deleting other shares of the slot removed a share the request does not name"
    bad = _mheader_ok(X.share_path(1))
    if bad:
        return bad
    (dlf,) = X.rec_values(st, MSF.DATA_LENGTH_OFFSET, ">Q")
    if dlf != dl1 or (p < dl1 and st.at(DATA_OFFSET + p) != ("old", p)):
        return "deleting other shares changed the data of a share the request does not name"
    got = _mleases_after(X.share_path(1))
    if isinstance(got, str):
        return got
    if got != [tuple(r.values) for r in slots + extras]:
        return "deleting other shares changed the leases of a share the request does not name"
    if not crashed:
        if FS.os.path.exists(X.share_path(0)) or (third and FS.os.path.exists(X.share_path(2))):
            return "completed delete left the share"
        if sorted(out[0].keys()) != []:
            return "deleted shares reported as remaining"
    return True


CLASSIFY["h_delete_sibling"] = lambda dl1, elo1, nx, third, c, p: _run_delete(dl1, elo1, nx, third, c)[0]
