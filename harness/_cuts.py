"""
Source-level cut used by the gate harnesses (C02/C45/C10) on top of hlib's log stripping:
exception MESSAGES that are built with eager `%` formatting of symbolic integers
(`raise LayoutInvalid("unknown version %d" % version)`) realise the integer value by value.
`strip(fn)` = hlib.strip_logs(fn) + every `raise E(<string> % <args>)` / `raise E(<string> % <args>, ...)`
has its formatted message replaced by the unformatted format string.  The exception type, the raise itself
and every other statement are unchanged.  Each rewritten raise is recorded in hlib.CUTS.
"""
import ast
import inspect
import textwrap
from vlib import hlib


class _RaiseMsg(ast.NodeTransformer):
    def __init__(self, filename, first_line, srclines):
        self.filename, self.first_line, self.srclines = filename, first_line, srclines
        self.cut = []

    def visit_Raise(self, node):
        self.generic_visit(node)
        exc = node.exc
        if isinstance(exc, ast.Call):
            changed = False
            new_args = []
            for a in exc.args:
                if isinstance(a, ast.BinOp) and isinstance(a.op, ast.Mod) and self._is_str(a.left):
                    new_args.append(ast.copy_location(self._fmt(a.left), a))
                    changed = True
                else:
                    new_args.append(a)
            if changed:
                exc.args = new_args
                text = "\n".join(self.srclines[node.lineno - 1:node.end_lineno]).strip()
                self.cut.append({"file": self.filename, "line": self.first_line + node.lineno - 1,
                                 "src": "exception message formatting cut: " + text[:160]})
        return node

    @staticmethod
    def _is_str(n):
        if isinstance(n, ast.Constant) and isinstance(n.value, str):
            return True
        if isinstance(n, ast.BinOp) and isinstance(n.op, ast.Add):
            return _RaiseMsg._is_str(n.left) and _RaiseMsg._is_str(n.right)
        return False

    @staticmethod
    def _fmt(n):
        return n


def strip(fn, **kw):
    """hlib.strip_logs(fn, **kw), then cut formatted exception messages in the result's source."""
    raw = fn
    while hasattr(raw, "__wrapped__"):
        raw = raw.__wrapped__
    if isinstance(raw, (staticmethod, classmethod)):
        raw = raw.__func__
    src = textwrap.dedent(inspect.getsource(raw))
    filename = inspect.getsourcefile(raw) or "?"
    first_line = raw.__code__.co_firstlineno
    tree = ast.parse(src)
    rm = _RaiseMsg(filename, first_line, src.splitlines())
    tree = rm.visit(tree)
    if not rm.cut:
        return hlib.strip_logs(fn, **kw)
    # re-run hlib's own transforms on the rewritten source: compile the rewritten function under a temporary
    # name in the original globals so that inspect.getsource() of it is the rewritten text
    ast.fix_missing_locations(tree)
    new_src = ast.unparse(tree)
    import linecache
    fake_name = "<verif-cut:%s:%s>" % (raw.__qualname__, first_line)
    linecache.cache[fake_name] = (len(new_src), None, new_src.splitlines(True), fake_name)
    ns = {}
    exec(compile(new_src, fake_name, "exec"), raw.__globals__, ns)
    f2 = ns[tree.body[0].name]
    f2.__qualname__ = raw.__qualname__
    f2.__module__ = raw.__module__
    hlib.encoded(raw)
    hlib.CUTS.extend(rm.cut)
    out = hlib.strip_logs(f2, **kw)
    # strip_logs recorded the hash of the rewritten text under the same qualified name; restore the real one
    hlib.encoded(raw)
    return out
