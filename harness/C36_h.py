"""
C36 — erasure coding parameters (codec.py CRSEncoder / CRSDecoder).

What is decided: the size arithmetic around zfec — encoder block size == decoder share size == ceil(data_size/k)
(== data_size/k for the callers' sizes, which are multiples of k), k blocks cover the data with less than k bytes
of padding, the checks encode()/decode() make before handing data to zfec, and the serialized parameter round trip.
What is NOT decided: that any k of N blocks reconstruct the segment. That is zfec's GF(2^8) Reed-Solomon code, a
compiled extension with no source in this image; its constructors and encode/decode are replaced by recorders.
"""
from vlib import hlib
from vlib.hlib import ProvBuf, NS, assume
hlib.ensure_shims()
from twisted.python.failure import Failure
from allmydata import codec
from allmydata.util import mathutil, cputhreadpool

B = hlib.bounds()
NOTES = [
    "codec.precondition (pyutil) replaced by the same check without the human-readable message formatting",
    "codec.zfec replaced by recorders: Encoder(k, n).encode(pieces, ids) and Decoder(k, n).decode(blocks, ids) record their arguments (the Reed-Solomon algebra is not executed)",
    "codec.defer_to_thread replaced by a synchronous call (no thread pool / reactor)",
]


class _FakeZfec(object):
    made = []

    class Encoder(object):
        def __init__(self, k, n):
            self.k, self.n = k, n
            self.calls = []
            _FakeZfec.made.append(("enc", k, n))

        def encode(self, inshares, ids):
            self.calls.append((inshares, ids))
            return [("block", i) for i in ids]

    class Decoder(object):
        def __init__(self, k, n):
            self.k, self.n = k, n
            self.calls = []
            _FakeZfec.made.append(("dec", k, n))

        def decode(self, shares, ids):
            self.calls.append((shares, ids))
            return ("decoded", shares, ids)


async def _sync_defer_to_thread(f, *args, **kwargs):
    return f(*args, **kwargs)


def _precondition(cond=False, *args, **kwargs):
    """pyutil's precondition without the message formatting (formatting realises every symbolic argument)"""
    if cond:
        return True
    raise AssertionError("precondition")


codec.precondition = _precondition
codec.zfec = _FakeZfec
codec.defer_to_thread = _sync_defer_to_thread
hlib.encoded(codec.CRSEncoder.set_params, codec.CRSEncoder.encode, codec.CRSEncoder.get_block_size, codec.CRSEncoder.get_params,
             codec.CRSEncoder.get_serialized_params, codec.CRSDecoder.set_params, codec.CRSDecoder.decode, codec.CRSDecoder.get_needed_shares,
             codec.parse_params, mathutil.div_ceil, mathutil.pad_size)


def _collect(d):
    out = []
    d.addBoth(out.append)
    for r in out:
        if isinstance(r, Failure) and not isinstance(r.value, Exception):
            raise r.value
    return out


def _pin(x, lo, hi):
    for v in range(lo, hi + 1):
        if x == v:
            return v
    raise hlib.HarnessError("value outside its declared range")


def h_sizes(data_size: int, k: int, n: int, multiple: bool) -> bool:
    """
    pre: 1 <= data_size and 1 <= k <= n <= 256
    pre: B.get("k") is None or k == B["k"]
    pre: (not multiple) or data_size % k == 0
    post: _ == True
    """
    _FakeZfec.made = []
    enc = codec.CRSEncoder()
    enc.set_params(data_size, k, n)
    dec = codec.CRSDecoder()
    dec.set_params(data_size, k, n)
    # a second decoder for the same k but another N (another file / another encoding) must get its own (k, N)
    n2 = n + 1 if (n < 256 or n - 1 < k) else n - 1
    dec2 = codec.CRSDecoder()
    dec2.set_params(data_size, k, n2)
    if (enc.encoder.k, enc.encoder.n) != (k, n) or (dec.decoder.k, dec.decoder.n) != (k, n):
        return "zfec encoder/decoder not built with (k, n)"
    if (dec2.decoder.k, dec2.decoder.n) != (k, n2) or (dec.decoder.k, dec.decoder.n) != (k, n):
        return "a decoder for (k, N') works with the zfec object of another N"
    bs = enc.get_block_size()
    if bs != dec.share_size:
        return "encoder block size != decoder share size"
    # block size is the least b with k*b >= data_size
    if not (k * bs >= data_size and k * (bs - 1) < data_size):
        return "block size is not ceil(data_size / k)"
    if multiple and k * bs != data_size:
        return "data_size is a multiple of k but k blocks do not tile it exactly"
    if enc.get_params() != (data_size, k, n) or dec.get_needed_shares() != k:
        return "parameters not retained"
    pad = enc.last_share_padding
    if not (0 <= pad and pad < k and (bs + pad) % k == 0):
        return "last_share_padding is not the least amount making the block size a multiple of k"
    return True


def h_encode_checks(data_size: int, k: int, n: int, npieces: int, bad: int, delta: int, nids: int, default_ids: bool) -> bool:
    """
    pre: 1 <= data_size and 1 <= k <= n <= B.get("n_max", 6)
    pre: 1 <= npieces <= 3 and -1 <= bad < npieces and delta != 0 and 0 <= nids <= B.get("n_max", 6) + 1
    post: _ == True
    """
    # pieces handed to zfec must all have exactly the block size; a requested id list longer than N is refused
    n, npieces, bad, nids = _pin(n, 1, B.get("n_max", 6)), _pin(npieces, 1, 3), _pin(bad, -1, 2), _pin(nids, 0, B.get("n_max", 6) + 1)
    enc = codec.CRSEncoder()
    enc.set_params(data_size, k, n)
    bs = enc.get_block_size()
    pieces = []
    for i in range(npieces):
        ln = bs + delta if i == bad else bs
        assume(ln >= 0)
        pieces.append(ProvBuf.src("piece%d" % i, ln, 0))
    ids = None if default_ids else list(range(nids))
    out = _collect(enc.encode(pieces, ids))
    should_fail = (bad >= 0) or ((not default_ids) and nids > n)
    if should_fail:
        if len(out) != 1 or not isinstance(out[0], Failure) or not out[0].check(AssertionError):
            return "wrong-sized piece / too many ids was not refused"
        if enc.encoder.calls:
            return "zfec was called with bad input"
        return True
    if len(out) != 1 or isinstance(out[0], Failure):
        return "valid encode request failed: %r" % (out,)
    (shares, got_ids) = out[0]
    want_ids = list(range(n)) if default_ids else ids
    if got_ids != want_ids or len(shares) != len(want_ids):
        return "share ids: default must be 0..N-1, otherwise exactly those asked for"
    if len(enc.encoder.calls) != 1 or enc.encoder.calls[0][0] is not pieces or enc.encoder.calls[0][1] != want_ids:
        return "zfec.encode not called once with the pieces and ids"
    return True


def h_decode_checks(data_size: int, k: int, n: int, nshares: int, nids: int, idbase: int) -> bool:
    """
    pre: 1 <= data_size and 1 <= k <= n <= B.get("n_max", 6)
    pre: 0 <= nshares <= B.get("n_max", 6) + 1 and 0 <= nids <= B.get("n_max", 6) + 1 and 0 <= idbase
    post: _ == True
    """
    k, nshares, nids = _pin(k, 1, B.get("n_max", 6)), _pin(nshares, 0, B.get("n_max", 6) + 1), _pin(nids, 0, B.get("n_max", 6) + 1)
    dec = codec.CRSDecoder()
    dec.set_params(data_size, k, n)
    shares = [ProvBuf.src("blk%d" % i, dec.share_size, 0) for i in range(nshares)]
    ids = [idbase + i for i in range(nids)]
    before = len(dec.decoder.calls)        # (the zfec object may legitimately be shared/cached between decoders)
    out = _collect(dec.decode(shares, ids))
    ok = (nshares == nids and nshares == k)
    if not ok:
        if len(out) != 1 or not isinstance(out[0], Failure) or not out[0].check(AssertionError):
            return "decode with a number of blocks/ids other than exactly k each was not refused"
        if len(dec.decoder.calls) != before:
            return "zfec.decode was called with the wrong number of blocks"
        return True
    if len(out) != 1 or isinstance(out[0], Failure):
        return "valid decode request failed: %r" % (out,)
    if len(dec.decoder.calls) != before + 1:
        return "zfec.decode not called exactly once"
    (s_, i_) = dec.decoder.calls[-1]
    if s_ is not shares or i_ != ids:
        return "blocks / ids not passed through in order"
    if out[0] != ("decoded", shares, ids):
        return "decoder result not returned"
    return True


def h_serialized_params(data_size: int, k: int, n: int) -> bool:
    """
    pre: 1 <= data_size <= B.get("size_max", 40) and 1 <= k <= n <= 4
    post: _ == True
    """
    data_size, k, n = _pin(data_size, 1, B.get("size_max", 40)), _pin(k, 1, 4), _pin(n, 1, 4)
    enc = codec.CRSEncoder()
    enc.set_params(data_size, k, n)
    sp = enc.get_serialized_params()
    if sp != b"%d-%d-%d" % (data_size, k, n):
        return "serialized codec parameters are not 'size-k-n'"
    if codec.parse_params(sp) != (data_size, k, n):
        return "parse_params(get_serialized_params()) != params"
    return True


# ---- the callers' trimming of the decoded (padded) segment, under an ideal erasure code ------------------
# "any k blocks of a segment decode back to that segment" on tahoe's side of zfec: given that zfec returns the k primary
# blocks (the padded segment cut into k equal pieces), the immutable and mutable downloaders must hand on exactly the
# segment's real bytes — all of them, and no padding — for full segments, padded tails, and tails whose padding is longer
# than one block.

from allmydata.immutable.downloader import node as node_mod
from allmydata.mutable import retrieve as retrieve_mod

_CLK = [0]


def _tick():
    _CLK[0] += 1
    return float(_CLK[0])


node_mod.now = _tick
retrieve_mod.time = NS(time=_tick)
retrieve_mod.defer_to_thread = _sync_defer_to_thread
NOTES.append("ideal erasure code for the trim obligations: zfec.Decoder.decode returns the k primary blocks (the padded segment cut into k equal pieces, provenance 'seg'); "
             "time sources in downloader.node / mutable.retrieve replaced by a counter; retrieve.defer_to_thread synchronous")
from _stripall import strip_all
# every method of both classes: log lines removed, b"".join / b"\x00"*n stand-ins for provenance buffers, wherever they are written
strip_all(node_mod.DownloadNode, consts=hlib.PROV_CONSTS)
strip_all(retrieve_mod.Retrieve, consts=hlib.PROV_CONSTS)
hlib.encoded(node_mod.DownloadNode._calculate_sizes)


class _IdealDecoder(object):
    def __init__(self, k, n):
        self.k, self.n = k, n

    def decode(self, shares, ids):
        bs = len(shares[0])
        return [ProvBuf.src("seg", bs, i * bs) for i in range(self.k)]


class _IdealZfec(object):
    Encoder = _FakeZfec.Encoder
    Decoder = _IdealDecoder


class _DSt(object):
    def add_misc_event(self, *a):
        pass

    def accumulate_decode_time(self, *a):
        pass


def h_immutable_trim(size: int, segsize: int, segnum: int, p: int) -> bool:
    """
    pre: 1 <= size and 1 <= segsize and segsize % B.get("k", 3) == 0 and 0 <= segnum and 0 <= p
    post: _ == True
    """
    k = B.get("k", 3)
    nd = node_mod.DownloadNode.__new__(node_mod.DownloadNode)
    nd._verifycap = NS(size=size, needed_shares=k, total_shares=k + 2)
    r = nd._calculate_sizes(segsize)
    assume(segnum < r["num_segments"])
    nd.num_segments = r["num_segments"]
    nd.segment_size = segsize
    nd.block_size = r["block_size"]
    nd.tail_block_size = r["tail_block_size"]
    nd.tail_segment_size = r["tail_segment_size"]
    nd.tail_segment_padded = r["tail_segment_padded"]
    nd._download_status = _DSt()
    nd._lp = 0
    tail = segnum == nd.num_segments - 1
    bs = nd.tail_block_size if tail else nd.block_size
    saved = codec.zfec
    codec.zfec = _IdealZfec
    try:
        main = codec.CRSDecoder()
        main.set_params(segsize, k, k + 2)
        nd._codec = main
        blocks = dict((i + 1, ProvBuf.src("blk%d" % i, bs, 0)) for i in range(k))
        out = _collect(nd._decode_blocks(segnum, blocks))
    finally:
        codec.zfec = saved
    if len(out) != 1 or isinstance(out[0], Failure):
        return "decoding a healthy segment failed: %r" % (out,)
    segment = out[0][0]
    want = size - segnum * segsize if tail else segsize
    if len(segment) != want:
        return "delivered segment is not exactly the segment's real length (padding kept or data cut)"
    if p < want and segment.at(p) != ("seg", p):
        return "delivered byte p is not byte p of the decoded segment"
    return True


def h_mutable_trim(datalength: int, segsize: int, segnum: int, offset: int, length: int, p: int) -> bool:
    """
    pre: 1 <= datalength and 1 <= segsize and segsize % B.get("k", 3) == 0 and 0 <= segnum and 0 <= p
    pre: 0 <= offset and 1 <= length and offset + length <= datalength
    post: _ == True
    """
    # an arbitrary read [offset, offset+length) of the file: _setup_encoding_parameters works out _start_segment/_last_segment
    # for it, and any segment of that read is decoded; which segment is the FILE's tail does not depend on the read
    k = B.get("k", 3)
    logs = []
    me = retrieve_mod.Retrieve.__new__(retrieve_mod.Retrieve)
    me.__dict__.update(dict(verinfo=(1, b"root", None, segsize, datalength, k, k + 2, b"prefix", ()), _offset=offset, _read_length=length,
                            _data_length=datalength, log=lambda *a, **kw: 0, _status=_DSt(), _set_current_status=logs.append))
    saved = codec.zfec
    codec.zfec = _IdealZfec
    try:
        me._setup_encoding_parameters()
        assume(segnum < me._num_segments)
        assume(me._start_segment <= segnum and segnum <= me._last_segment)
        if not (me._start_segment * segsize <= offset and offset < (me._start_segment + 1) * segsize
                and me._last_segment * segsize < offset + length and offset + length <= (me._last_segment + 1) * segsize):
            return "first/last segment of the read are not the segments holding its first/last byte"
        tail = segnum == me._num_segments - 1
        dec = me._tail_decoder if tail else me._segment_decoder
        bs = dec.share_size
        results = [dict((i + 1, (ProvBuf.src("blk%d" % i, bs, 0), b"salt")) for i in range(k))]
        out = _collect(me._decode_blocks(results, segnum))
    finally:
        codec.zfec = saved
    if len(out) != 1 or isinstance(out[0], Failure):
        return "decoding a healthy segment failed: %r" % (out,)
    (segment, salt) = out[0]
    want = datalength - segnum * segsize if tail else segsize
    if len(segment) != want:
        return "delivered segment is not exactly the segment's real length (padding kept or data cut)"
    if p < want and segment.at(p) != ("seg", p):
        return "delivered byte p is not byte p of the decoded segment"
    if salt != b"salt":
        return "salt lost"
    return True


# ---- upload side: which block goes to which share ------------------------------------------------------------

from allmydata.immutable import encode as encode_mod

strip_all(encode_mod.Encoder)
encode_mod.time = NS(time=_tick)


class _HashProxy(object):
    """encode.hashutil with block_hash replaced by an ideal (injective, recording) hash"""

    def __getattr__(self, name):
        return getattr(_real_hashutil, name)

    def block_hash(self, block):
        return ("block-hash-of", block)


from allmydata.util import hashutil as _real_hashutil
encode_mod.hashutil = _HashProxy()
NOTES.append("encode.hashutil.block_hash replaced by an ideal recording hash; encode.time by a counter; shareholders are recorders; "
             "the codec output is N distinct tagged blocks")


class _Landlord(object):
    def __init__(self, shnum):
        self.shnum = shnum
        self.got = []

    def put_block(self, segnum, block):
        self.got.append((segnum, block))
        from twisted.internet import defer
        return defer.succeed(None)


def h_send_pairing(mask: int, segnum: int, rot: int) -> bool:
    """
    pre: 0 <= mask < 2 ** B.get("n", 4) and 0 <= segnum <= 2 and 0 <= rot < B.get("n", 4)
    post: _ == True
    """
    # the codec produced N blocks for share numbers shareids (0..N-1, listed in a rotated order); an arbitrary subset of
    # the shares still has a landlord (holes = shareholders lost earlier / shares never placed)
    n = B.get("n", 4)
    mask, segnum, rot = _pin(mask, 0, 2 ** n - 1), _pin(segnum, 0, 2), _pin(rot, 0, n - 1)
    shareids = [(i + rot) % n for i in range(n)]
    shares = [("block-of-share", sid, segnum) for sid in shareids]
    enc = encode_mod.Encoder.__new__(encode_mod.Encoder)
    enc.landlords = dict((s, _Landlord(s)) for s in range(n) if mask & (1 << s))
    holders = dict(enc.landlords)
    enc.block_hashes = [[("earlier", s)] * segnum for s in range(n)]
    enc.num_segments = 3
    enc.segment_size = 12
    enc._times = {"cumulative_sending": 0.0}
    enc._log_number = 0
    enc.log = lambda *a, **kw: 0
    enc.set_status = lambda *a, **kw: None
    enc.set_encode_and_push_progress = lambda *a, **kw: None
    out = _collect(enc._send_segment((shares, shareids), segnum))
    if len(out) != 1 or isinstance(out[0], Failure):
        return "sending a segment to healthy shareholders failed: %r" % (out,)
    for s in range(n):
        want_block = ("block-of-share", s, segnum)
        if s in holders:
            if holders[s].got != [(segnum, want_block)]:
                return "the shareholder of share s did not receive exactly share s's block of this segment"
        if len(enc.block_hashes[s]) != segnum + 1 or enc.block_hashes[s][segnum] != ("block-hash-of", want_block):
            return "block hash recorded for (share s, segment) is not the hash of share s's block"
    return True
