"""
Language model of tahoe capability strings, generated from LIVE objects of allmydata.uri
(engine E2, shared by C15 and C16):

* parse language of every file-cap class: its compiled `STRING_RE` under the method that
  `init_from_string` really calls (read from its AST), translated by `_rx`;
* field flow  group -> constructor parameter -> attribute -> `to_string` format slot, read
  from the ASTs of the live `init_from_string` / `__init__` / `to_string`; the format string is
  the bytes constant that `to_string` applies `%` to;
* directory wrappers: live `BASE_STRING`, `BASE_STRING_RE`, `INNER_URI_CLASS`; the splice
  "search BASE_STRING_RE, keep everything after the match, prepend INNER.BASE_STRING" is a hand
  model of `_DirectoryBaseURI.init_from_string/to_string` (validated on the corpus every run);
* the `startswith` dispatch chain of `uri.from_string`, read from its AST in source order.

Built-in conversions are ideal models: base32 decode->encode is the identity exactly on canonical
RFC 4648 strings over the live alphabet (C15/base32_tables ties the live tables to that definition),
`int()`->`%d` is the identity exactly on `0|-?[1-9][0-9]*`.

Everything extracted here is compared with the real code on a concrete corpus each run
(`validate_all`); disagreement raises HarnessError.
"""
import ast
import inspect
import re
import sys
import textwrap

import z3

from vlib import hlib
hlib.ensure_shims()
import _rx
from _rx import Rx, cat, alt, eps, lit_re, chars_re, sigma_star, py2z, z2py

from allmydata import uri
from allmydata.util import base32

# --- specification side (written from docs/specifications/uri.rst, file-encoding.rst, mutable.rst) -----
# lengths in bytes of the binary fields of a capability object; None = any length (literal data)
FIELD_BYTES = {"key": 16, "writekey": 16, "readkey": 16, "storage_index": 16,
               "uri_extension_hash": 32, "fingerprint": 32, "data": None}
MDMF_KINDS = ("URI:MDMF:", "URI:MDMF-RO:", "URI:MDMF-Verifier:", "URI:DIR2-MDMF:", "URI:DIR2-MDMF-RO:",
              "URI:DIR2-MDMF-Verifier:")


def file_classes():
    out = []
    for name, obj in vars(uri).items():
        if inspect.isclass(obj) and isinstance(obj.__dict__.get("STRING_RE"), re.Pattern):
            out.append(obj)
    return out


def dir_classes():
    out = []
    for name, obj in vars(uri).items():
        if inspect.isclass(obj) and isinstance(obj.__dict__.get("BASE_STRING_RE"), re.Pattern):
            out.append(obj)
    return out


def _fn_ast(fn):
    raw = fn
    if isinstance(raw, (classmethod, staticmethod)):
        raw = raw.__func__
    hlib.encoded(raw)
    return ast.parse(textwrap.dedent(inspect.getsource(raw))).body[0]


PREPROCESSED = []


class _PatSpy(object):
    def __init__(self, pat, log):
        self._pat, self._log = pat, log

    def __getattr__(self, name):
        return getattr(self._pat, name)

    def _rec(self, meth, string, *a):
        self._log.append((meth, string, a))
        return getattr(self._pat, meth)(string, *a)

    def search(self, string, *a):
        return self._rec("search", string, *a)

    def match(self, string, *a):
        return self._rec("match", string, *a)

    def fullmatch(self, string, *a):
        return self._rec("fullmatch", string, *a)


def observed_method(cls, attr):
    """Run the real cls.init_from_string once on a probe string with cls.<attr> (a compiled pattern) wrapped: -> the method name it
    calls on that pattern.  The pattern must be applied exactly once, to the unmodified argument, without pos/endpos, and a
    non-matching string must be rejected with BadURIError."""
    probe = b" URI:probe-that-matches-nothing \n"
    real = getattr(cls, attr)
    log = []
    owner = [k for k in cls.__mro__ if attr in k.__dict__][0]
    setattr(owner, attr, _PatSpy(real, log))
    try:
        try:
            cls.init_from_string(probe)
            outcome = "returned"
        except uri.BadURIError:
            outcome = "BadURIError"
        except Exception as e:
            outcome = type(e).__name__
    finally:
        setattr(owner, attr, real)
    if len(log) != 1:
        raise hlib.HarnessError("%s.init_from_string applied %s %d times to a probe string" % (cls.__name__, attr, len(log)))
    (meth, subject, extra) = log[0]
    if subject != probe or extra:
        # not representable in the model; the comparison with the real code on the corpus (validate_all) decides whether this already is a
        # violation (a padded string accepted and printed back differently) -- otherwise validate_all ends with a harness error
        PREPROCESSED.append("%s.init_from_string does not apply %s.%s to its whole, unmodified argument" % (cls.__name__, attr, meth))
    if outcome != "BadURIError":
        raise hlib.HarnessError("%s.init_from_string on a non-matching string: %s (expected BadURIError)" % (cls.__name__, outcome))
    return meth


def _dotted(node):
    if isinstance(node, ast.Name):
        return node.id
    if isinstance(node, ast.Attribute):
        b = _dotted(node.value)
        return None if b is None else b + "." + node.attr
    return None


DECODERS = {"base32.a2b": "b32", "si_a2b": "b32", "int": "int"}
ENCODERS = {"base32.b2a": "b32", "si_b2a": "b32"}


class FileModel(object):
    """Everything the solver needs to know about one file-cap class."""

    def __init__(self, cls):
        self.cls = cls
        self.name = cls.__name__
        self.base = cls.BASE_STRING
        self.rx = Rx(cls.STRING_RE)
        self._read_init_from_string()
        self._read_init()
        self._read_to_string()
        # slot j of the format  <-  attribute  <-  ctor parameter  <-  (decoder, group)
        self.slots = []
        for (spec, enc, attr) in self.fmt_args:
            if attr not in self.attr_param:
                raise hlib.HarnessError("%s.to_string prints %s which __init__ does not set from a parameter" % (self.name, attr))
            pi = self.attr_param[attr]
            if pi >= len(self.ctor_args):
                raise hlib.HarnessError("%s: no constructor argument for %s" % (self.name, attr))
            (dec, group) = self.ctor_args[pi]
            if spec == "s" and enc == "b32" and dec == "b32":
                kind = "b32"
            elif spec == "d" and enc is None and dec == "int":
                kind = "int"
            else:
                raise hlib.HarnessError("%s: unsupported conversion chain %r/%r/%r for %s" % (self.name, dec, enc, spec, attr))
            self.slots.append((kind, group, attr))

    def _read_init_from_string(self):
        f = _fn_ast(self.cls.__dict__["init_from_string"])
        # which pattern object and which method (search/match/fullmatch) the real init_from_string applies to its argument: observed
        # on one real call with the class's compiled pattern wrapped (independent of helper indirection / local restructuring)
        self.method = observed_method(self.cls, "STRING_RE")
        # cross-check with the AST when the call is written directly in the method
        direct = [n.func.attr for n in ast.walk(f) if isinstance(n, ast.Call) and isinstance(n.func, ast.Attribute)
                  and _dotted(n.func.value) == "cls.STRING_RE"]
        if direct and direct != [self.method]:
            raise hlib.HarnessError("%s.init_from_string: AST says STRING_RE.%s but the real call used %s" % (self.name, direct, self.method))
        rets = [n for n in ast.walk(f) if isinstance(n, ast.Return)]
        if len(rets) != 1 or not isinstance(rets[0].value, ast.Call) or _dotted(rets[0].value.func) != "cls" or rets[0].value.keywords:
            raise hlib.HarnessError("%s.init_from_string: unexpected return shape" % self.name)
        self.ctor_args = []
        for a in rets[0].value.args:
            ok = (isinstance(a, ast.Call) and _dotted(a.func) in DECODERS and len(a.args) == 1 and not a.keywords
                  and isinstance(a.args[0], ast.Call) and _dotted(a.args[0].func) == "mo.group"
                  and len(a.args[0].args) == 1 and isinstance(a.args[0].args[0], ast.Constant))
            if not ok:
                raise hlib.HarnessError("%s.init_from_string: unsupported constructor argument %s" % (self.name, ast.unparse(a)))
            self.ctor_args.append((DECODERS[_dotted(a.func)], a.args[0].args[0].value))
        # the only other statements allowed: mo = ...; if not mo: raise BadURIError
        for st in f.body:
            if isinstance(st, ast.Expr) and isinstance(st.value, ast.Constant):
                continue
            if isinstance(st, ast.Assign) and len(st.targets) == 1 and _dotted(st.targets[0]) == "mo":
                continue
            if isinstance(st, ast.If) and ast.unparse(st.test) == "not mo" and len(st.body) == 1 and isinstance(st.body[0], ast.Raise) and not st.orelse:
                exc = st.body[0].exc
                if isinstance(exc, ast.Call) and _dotted(exc.func) == "BadURIError":
                    continue
            if isinstance(st, ast.Return):
                continue
            raise hlib.HarnessError("%s.init_from_string: unsupported statement %s" % (self.name, ast.unparse(st)[:80]))

    def _read_init(self):
        f = _fn_ast(self.cls.__dict__["__init__"])
        params = [a.arg for a in f.args.args][1:]
        self.params = params
        self.attr_param = {}
        for n in ast.walk(f):
            if isinstance(n, ast.Assign) and len(n.targets) == 1:
                t = _dotted(n.targets[0])
                if t and t.startswith("self.") and isinstance(n.value, ast.Name) and n.value.id in params:
                    self.attr_param[t[5:]] = params.index(n.value.id)

    def _read_to_string(self):
        f = _fn_ast(self.cls.__dict__["to_string"])
        mods = [n for n in ast.walk(f) if isinstance(n, ast.BinOp) and isinstance(n.op, ast.Mod)
                and isinstance(n.left, ast.Constant) and isinstance(n.left.value, bytes)]
        if len(mods) != 1:
            raise hlib.HarnessError("%s.to_string: expected exactly one bytes %% format" % self.name)
        # the formatted value must be what is returned (directly or through one local name)
        rets = [n for n in ast.walk(f) if isinstance(n, ast.Return)]
        if len(rets) != 1:
            raise hlib.HarnessError("%s.to_string: expected one return" % self.name)
        rv = rets[0].value
        if rv is not mods[0]:
            ok = False
            if isinstance(rv, ast.Name):
                assigns = [n for n in ast.walk(f) if isinstance(n, ast.Assign) and any(_dotted(t) == rv.id for t in n.targets)]
                ok = len(assigns) == 1 and assigns[0].value is mods[0]
            if not ok:
                raise hlib.HarnessError("%s.to_string: returned value is not the formatted string" % self.name)
        for st in f.body:
            if isinstance(st, (ast.Assert, ast.Return)) or (isinstance(st, ast.Expr) and isinstance(st.value, ast.Constant)):
                continue
            if isinstance(st, ast.Assign) and st.value is mods[0]:
                continue
            raise hlib.HarnessError("%s.to_string: unsupported statement %s" % (self.name, ast.unparse(st)[:80]))
        fmt = mods[0].left.value
        right = mods[0].right
        args = list(right.elts) if isinstance(right, ast.Tuple) else [right]
        self.fmt_args = []
        for a in args:
            if isinstance(a, ast.Call) and _dotted(a.func) in ENCODERS and len(a.args) == 1 and not a.keywords \
                    and (_dotted(a.args[0]) or "").startswith("self."):
                self.fmt_args.append([None, ENCODERS[_dotted(a.func)], _dotted(a.args[0])[5:]])
            elif (_dotted(a) or "").startswith("self."):
                self.fmt_args.append([None, None, _dotted(a)[5:]])
            else:
                raise hlib.HarnessError("%s.to_string: unsupported format argument %s" % (self.name, ast.unparse(a)))
        # split the format into literal pieces and specs
        pieces = re.split(rb"%(.)", fmt)
        self.fmt_lits = [pieces[0].decode("latin-1")]
        k = 0
        i = 1
        while i < len(pieces):
            spec = pieces[i].decode("latin-1")
            if spec == "%":
                self.fmt_lits[-1] += "%" + pieces[i + 1].decode("latin-1")
            else:
                if spec not in ("s", "d") or k >= len(self.fmt_args):
                    raise hlib.HarnessError("%s.to_string: unsupported format %r" % (self.name, fmt))
                self.fmt_args[k][0] = spec
                k += 1
                self.fmt_lits.append(pieces[i + 1].decode("latin-1"))
            i += 2
        if k != len(self.fmt_args):
            raise hlib.HarnessError("%s.to_string: format/argument count mismatch" % self.name)
        self.fmt_args = [tuple(a) for a in self.fmt_args]

    # ---- piecewise view (alignment of the regex with the print template) ----
    def parse_pieces(self, v):
        """variant -> [('lit', text) | ('grp', group, regex) | ('re', regex)] with adjacent literals merged"""
        out = []
        for sg in v.segs:
            if sg.group is None and sg.lit is not None:
                if out and out[-1][0] == "lit":
                    out[-1] = ("lit", out[-1][1] + sg.lit)
                elif sg.lit != "":
                    out.append(("lit", sg.lit))
            elif sg.group is not None:
                out.append(("grp", sg.group, sg.re))
            else:
                out.append(("re", sg.re))
        return out

    def template(self):
        """to_string as [('lit', text) | ('slot', j)] without empty literals"""
        out = []
        if self.fmt_lits[0]:
            out.append(("lit", self.fmt_lits[0]))
        for j in range(len(self.slots)):
            out.append(("slot", j))
            if self.fmt_lits[j + 1]:
                out.append(("lit", self.fmt_lits[j + 1]))
        return out

    def align(self, v):
        """Match the regex variant against the print template piece by piece.
        -> (ok, {slot j: group regex}, tail regex, reason).  When ok, every accepted string is
        F0 g1 F1 ... gn Fn tail  with the groups feeding exactly the slots in order, so
        to_string(parse(s)) == s  <=>  every group is canonical and tail is empty."""
        P = self.parse_pieces(v)
        T = self.template()
        slots = {}
        i = 0
        extra_lit = None
        for k, t in enumerate(T):
            if i >= len(P):
                return (False, None, None, "regex ends before the print template does")
            p = P[i]
            if t[0] == "lit":
                if p[0] != "lit":
                    return (False, None, None, "template literal %r faces a non-literal regex piece" % (t[1],))
                if p[1] != t[1]:
                    if k == len(T) - 1 and p[1].startswith(t[1]):
                        extra_lit = p[1][len(t[1]):]
                    else:
                        return (False, None, None, "literal %r in the regex vs %r in to_string" % (p[1], t[1]))
            else:
                (kind, group, attr) = self.slots[t[1]]
                if p[0] != "grp" or p[1] != group:
                    return (False, None, None, "slot %d (%s) is fed by group %r but the regex has %r there" % (t[1], attr, group, p[:2]))
                slots[t[1]] = p[2]
            i += 1
        tail = []
        if extra_lit:
            tail.append(lit_re(extra_lit))
        for p in P[i:]:
            tail.append(lit_re(p[1]) if p[0] == "lit" else p[2] if p[0] == "grp" else p[1])
        tail.append(self.rx._suf(self.method, v.end))
        return (True, slots, cat(*tail), "")

    def pre_lang(self):
        return self.rx._pre(self.method)

    def slot_print_lang(self, j):
        (kind, group, attr) = self.slots[j]
        if kind == "b32":
            if attr not in FIELD_BYTES:
                raise hlib.HarnessError("no specified length for field %s of %s" % (attr, self.name))
            return canon32(FIELD_BYTES[attr])
        return CANON_NAT()

    def slot_canon_lang(self, j):
        return CANON32_ANY() if self.slots[j][0] == "b32" else CANON_INT()

    # ---- languages ----
    def parse_lang(self):
        return self.rx.lang(self.method)

    def print_lang(self):
        """Language of to_string() over capability objects that meet the specification
        (FIELD_BYTES lengths, non-negative integers)."""
        parts = [lit_re(self.fmt_lits[0])]
        for j, (kind, group, attr) in enumerate(self.slots):
            if kind == "b32":
                if attr not in FIELD_BYTES:
                    raise hlib.HarnessError("no specified length for field %s of %s" % (attr, self.name))
                parts.append(canon32(FIELD_BYTES[attr]))
            else:
                parts.append(CANON_NAT())
            parts.append(lit_re(self.fmt_lits[j + 1]))
        return cat(*parts)

    def accepts(self, text):
        """concrete: does the translated regex (under the method really called) accept this string?"""
        return _rx.member(text, self.parse_lang())

    def parse_sym(self, s, tag):
        """[(constraint, groups, suffix var, variant)] for `s` accepted by init_from_string."""
        return [(c, g, suf, v) for (c, g, _pre, suf, v) in self.rx.match_sym(s, self.method, tag)]

    def reprint_sym(self, groups, tag):
        """(constraints, z3 string): to_string() of the object init_from_string builds from `groups`.
        A non-canonical group prints as *some other* string (fresh variable != group)."""
        cons = []
        parts = [z3.StringVal(self.fmt_lits[0])]
        for j, (kind, group, attr) in enumerate(self.slots):
            if group not in groups:
                raise hlib.HarnessError("%s: group %r is not a top-level group of the regex" % (self.name, group))
            g = groups[group]
            out = z3.String("%s_out%d" % (tag, j))
            canon = z3.InRe(g, CANON32_ANY() if kind == "b32" else CANON_INT())
            cons.append(z3.If(canon, out == g, out != g))
            parts.append(out)
            parts.append(z3.StringVal(self.fmt_lits[j + 1]))
        return cons, (z3.Concat(*parts) if len(parts) > 1 else parts[0])


class DirModel(object):
    def __init__(self, cls, files):
        self.cls = cls
        self.name = cls.__name__
        self.base = cls.BASE_STRING
        self.base_rx = Rx(cls.BASE_STRING_RE)
        self.base_method = observed_method(cls, "BASE_STRING_RE")
        self.inner = files[cls.INNER_URI_CLASS.__name__]
        # to_string uses the inner class's BASE_STRING as a *pattern* for re.match
        self.inner_base_rx = Rx(re.compile(self.inner.cls.BASE_STRING))
        hlib.encoded(uri._DirectoryBaseURI.init_from_string, uri._DirectoryBaseURI.to_string)
        for n in ("init_from_string", "to_string"):
            if n in cls.__dict__:
                raise hlib.HarnessError("%s overrides %s: directory model does not apply" % (self.name, n))

    def accepts(self, text):
        """concrete evaluation of the splice model (BASE_STRING_RE must be '^' + literal for this)"""
        v = self.base_rx.variants
        if not (self.base_rx.anchored_start and len(v) == 1 and v[0].end is None and len(v[0].segs) == 1 and v[0].segs[0].lit is not None):
            raise hlib.HarnessError("%s.BASE_STRING_RE is not '^' + literal" % self.name)
        b = v[0].segs[0].lit
        if not text.startswith(b):
            return False
        return self.inner.accepts(py2z(self.inner.base) + text[len(b):])

    def parse_sym(self, s, tag):
        """init_from_string: mo = BASE_STRING_RE.search(uri); bits = uri[mo.end():];
        INNER.init_from_string(INNER.BASE_STRING + bits)"""
        out = []
        for (c, _g, _pre, suf, v) in self.base_rx.match_sym(s, self.base_method, tag + "_b"):
            if suf is None:
                bits = z3.StringVal("")
            else:
                bits = suf
            inner_s = z3.Concat(z3.StringVal(py2z(self.inner.base)), bits)
            for (c2, g2, suf2, v2) in self.inner.parse_sym(inner_s, tag + "_i"):
                out.append((z3.And(c, c2), g2, suf2, v2))
        return out

    def reprint_sym(self, groups, tag):
        """to_string: fnuri = inner.to_string(); mo = re.match(INNER.BASE_STRING, fnuri); BASE_STRING + fnuri[mo.end():]"""
        cons, inner_out = self.inner.reprint_sym(groups, tag)
        rest = z3.String("%s_rest" % tag)
        alts = []
        for (c, _g, _pre, suf, v) in self.inner_base_rx.match_sym(inner_out, "match", tag + "_tb"):
            alts.append(z3.And(c, rest == (suf if suf is not None else z3.StringVal(""))))
        cons.append(z3.Or(*alts))
        return cons, z3.Concat(z3.StringVal(py2z(self.base)), rest)

    def parse_lang(self):
        # BASE_STRING_RE must be '^' + literal for the closed form; checked, else symbolic only
        v = self.base_rx.variants
        if not (self.base_rx.anchored_start and len(v) == 1 and v[0].end is None and len(v[0].segs) == 1 and v[0].segs[0].lit is not None):
            raise hlib.HarnessError("%s.BASE_STRING_RE is not '^' + literal" % self.name)
        inner = self.inner
        iv = inner.rx
        if not (iv.anchored_start and all(x.segs and x.segs[0].lit == py2z(inner.base) for x in iv.variants)):
            raise hlib.HarnessError("%s regex does not start with '^' + BASE_STRING" % inner.name)
        outs = []
        for x in iv.variants:
            outs.append(cat(lit_re(v[0].segs[0].lit), *([sg.re for sg in x.segs[1:]] + [iv._suf(inner.method, x.end)])))
        return alt(*outs)

    def print_lang(self):
        il = self.inner
        parts = []
        first = il.fmt_lits[0]
        b = py2z(il.base)
        if not first.startswith(b):
            raise hlib.HarnessError("%s.to_string does not start with BASE_STRING" % il.name)
        parts.append(lit_re(py2z(self.base) + first[len(b):]))
        for j, (kind, group, attr) in enumerate(il.slots):
            parts.append(canon32(FIELD_BYTES[attr]) if kind == "b32" else CANON_NAT())
            parts.append(lit_re(il.fmt_lits[j + 1]))
        return cat(*parts)


# ---- ideal conversions -----------------------------------------------------------------------

def _alpha():
    return base32.chars.decode("latin-1")


def _set_re(chars):
    cps = sorted(set(ord(c) for c in chars))
    ranges = []
    for c in cps:
        if ranges and ranges[-1][1] == c - 1:
            ranges[-1][1] = c
        else:
            ranges.append([c, c])
    return chars_re([tuple(r) for r in ranges])


def _tail_set(spare):
    """alphabet characters whose value has its `spare` low bits zero (mathematical definition)."""
    a = _alpha()
    return "".join(a[i] for i in range(32) if i % (1 << spare) == 0)


def canon32(nbytes):
    """canonical unpadded RFC 4648 base32 (live alphabet) of exactly nbytes bytes; None = any length."""
    A = _set_re(_alpha())
    if nbytes is None:
        return CANON32_ANY()
    q = (8 * nbytes + 4) // 5
    spare = 5 * q - 8 * nbytes
    if q == 0:
        return eps()
    return cat(z3.Loop(A, q - 1, q - 1) if q > 1 else None, _set_re(_tail_set(spare)))


def CANON32_ANY():
    A = _set_re(_alpha())
    tails = [eps()]
    for n in (1, 2, 3, 4):
        q = (8 * n + 4) // 5
        tails.append(cat(z3.Loop(A, q - 1, q - 1), _set_re(_tail_set(5 * q - 8 * n))))
    # a multiple of 5 bytes ends on a full quintet boundary (no spare bits)
    return cat(z3.Star(z3.Loop(A, 8, 8)), alt(*tails))


def _digits(lo, hi):
    return chars_re([(ord(lo), ord(hi))])


def CANON_NAT():
    return alt(lit_re("0"), cat(_digits("1", "9"), z3.Star(_digits("0", "9"))))


def CANON_INT():
    return alt(lit_re("0"), cat(z3.Option(lit_re("-")), _digits("1", "9"), z3.Star(_digits("0", "9"))))


# ---- from_string dispatch chain ---------------------------------------------------------------

class Entry(object):
    __slots__ = ("prefix", "cls", "guard", "unless")

    def __init__(self, prefix, cls, guard, unless):
        self.prefix, self.cls, self.guard, self.unless = prefix, cls, guard, unless

    def __repr__(self):
        return "Entry(%r,%s,%s,%s)" % (self.prefix, self.cls, self.guard, self.unless)


def dispatch_chain():
    """[(prefix, class name or None, guard or None, 'unless' flag or None)] from the AST of from_string, in order.
    guard: the entry returns cls.init_from_string(s) only if that flag is true (else: constraint error).
    unless: the entry is only taken when that flag is false (x-tahoe-future-test entries)."""
    f = _fn_ast(uri.from_string)
    tries = [n for n in f.body if isinstance(n, ast.Try)]
    if len(tries) != 1:
        raise hlib.HarnessError("from_string: expected one try block")
    tr = tries[0]
    caught = caught_exceptions(f)
    if "BadURIError" not in caught:
        raise hlib.HarnessError("from_string: BadURIError is not caught")
    node = tr.body[0]
    if not isinstance(node, ast.If):
        raise hlib.HarnessError("from_string: try block does not start with the startswith chain")
    out = []
    while True:
        test = node.test
        unless = None
        if isinstance(test, ast.BoolOp) and isinstance(test.op, ast.And) and len(test.values) == 2 \
                and isinstance(test.values[1], ast.UnaryOp) and isinstance(test.values[1].op, ast.Not) \
                and isinstance(test.values[1].operand, ast.Name):
            unless = test.values[1].operand.id
            test = test.values[0]
        ok = (isinstance(test, ast.Call) and _dotted(test.func) == "s.startswith" and len(test.args) == 1
              and isinstance(test.args[0], ast.Constant) and isinstance(test.args[0].value, bytes))
        if not ok:
            raise hlib.HarnessError("from_string: unsupported chain test %s" % ast.unparse(node.test))
        prefix = test.args[0].value
        body = node.body

        def ret_cls(st):
            if isinstance(st, ast.Return) and isinstance(st.value, ast.Call) and isinstance(st.value.func, ast.Attribute) \
                    and st.value.func.attr == "init_from_string" and [_dotted(a) for a in st.value.args] == ["s"]:
                return _dotted(st.value.func.value)
            return None
        cls = guard = None
        if len(body) >= 1 and ret_cls(body[0]) and all(isinstance(b, ast.Assign) and _dotted(b.targets[0]) == "kind" for b in body[1:]):
            cls = ret_cls(body[0])      # unconditional return (anything after it is dead code)
        elif len(body) == 2 and isinstance(body[0], ast.If) and isinstance(body[0].test, ast.Name) and not body[0].orelse \
                and len(body[0].body) == 1 and ret_cls(body[0].body[0]) and isinstance(body[1], ast.Assign) and _dotted(body[1].targets[0]) == "kind":
            cls = ret_cls(body[0].body[0])
            guard = body[0].test.id
        elif len(body) == 1 and isinstance(body[0], ast.Assign) and _dotted(body[0].targets[0]) == "kind":
            pass
        else:
            raise hlib.HarnessError("from_string: unsupported chain body for %r" % (prefix,))
        out.append(Entry(prefix, cls, guard, unless))
        if len(node.orelse) == 1 and isinstance(node.orelse[0], ast.If):
            node = node.orelse[0]
            continue
        # final else: return UnknownURI(u)
        oe = node.orelse
        if not (len(oe) == 1 and isinstance(oe[0], ast.Return) and ast.unparse(oe[0].value) == "UnknownURI(u)"):
            raise hlib.HarnessError("from_string: final else is not 'return UnknownURI(u)'")
        break
    # after the try: return UnknownURI(u, error=error)
    last = f.body[-1]
    if not (isinstance(last, ast.Return) and ast.unparse(last.value) == "UnknownURI(u, error=error)"):
        raise hlib.HarnessError("from_string: does not end with 'return UnknownURI(u, error=error)'")
    return out


def caught_exceptions(f=None):
    """names of the exception classes that from_string's try block turns into UnknownURI(u, error=e)"""
    if f is None:
        f = _fn_ast(uri.from_string)
    tries = [n for n in f.body if isinstance(n, ast.Try)]
    if len(tries) != 1 or len(tries[0].handlers) != 1:
        raise hlib.HarnessError("from_string: expected one try block with one handler")
    h = tries[0].handlers[0]
    if not (len(h.body) == 1 and isinstance(h.body[0], ast.Assign) and ast.unparse(h.body[0]) == "error = %s" % h.name):
        raise hlib.HarnessError("from_string: handler does not just record the error")
    t = h.type
    elts = t.elts if isinstance(t, ast.Tuple) else [t]
    names = [_dotted(e) for e in elts]
    if None in names:
        raise hlib.HarnessError("from_string: unsupported handler type")
    return names


# ---- alleged-prefix handling of from_string: LEARNED from the real function, not read from its source ------------------
# For every sequence T of up to MAX_TOK leading tokens ("ro." / "imm.") and both values of deep_immutable the real from_string is run
# on T + <sample cap> with the sample class's compiled regex wrapped: the subject handed to the regex shows how many bytes were
# stripped; a write cap / a mutable read cap as body shows the can_be_writeable / can_be_mutable flags in force.  Independent of how
# the stripping is written (if/elif, helper function, loop).  Assumption: behaviour depends on the leading token sequence only, and
# sequences longer than MAX_TOK behave like their first MAX_TOK tokens.
MAX_TOK = 3
_PREFIX_TABLE = None


def tokens():
    return [uri.ALLEGED_READONLY_PREFIX, uri.ALLEGED_IMMUTABLE_PREFIX]


def leading_tokens(u):
    out = []
    rest = u
    while len(out) < MAX_TOK:
        for t in (uri.ALLEGED_IMMUTABLE_PREFIX, uri.ALLEGED_READONLY_PREFIX):
            if rest.startswith(t):
                out.append(t)
                rest = rest[len(t):]
                break
        else:
            break
    return tuple(out), rest


def _observe_strip(u, deep):
    """bytes the real from_string removed in front of a CHK body (None: the CHK regex was never consulted)"""
    log = []
    real = uri.CHKFileURI.STRING_RE
    uri.CHKFileURI.STRING_RE = _PatSpy(real, log)
    try:
        try:
            uri.from_string(u, deep_immutable=deep)
        except Exception:
            pass
    finally:
        uri.CHKFileURI.STRING_RE = real
    if len(log) != 1:
        return None
    subject = log[0][1]
    if not isinstance(subject, bytes) or not u.endswith(subject):
        return None
    return len(u) - len(subject)


def prefix_table():
    """{(token sequence, deep_immutable): (number of tokens stripped or None, can_be_writeable, can_be_mutable)}"""
    global _PREFIX_TABLE
    if _PREFIX_TABLE is not None:
        return _PREFIX_TABLE
    import itertools
    k16, h32 = bytes(range(1, 17)), bytes(range(200, 232))
    chk = uri.CHKFileURI(k16, h32, 3, 10, 1234).to_string()
    ssk = uri.WriteableSSKFileURI(k16, h32).to_string()
    ssk_ro = uri.ReadonlySSKFileURI(k16, h32).to_string()
    table = {}
    for deep in (False, True):
        for n in range(MAX_TOK + 1):
            for T in itertools.product(tokens(), repeat=n):
                P = b"".join(T)
                nb = _observe_strip(P + chk, deep)
                k = None
                if nb is not None:
                    acc = 0
                    for i in range(len(T) + 1):
                        if acc == nb:
                            k = i
                            break
                        if i < len(T):
                            acc += len(T[i])
                    if k is None:
                        raise hlib.HarnessError("from_string strips %d bytes of %r: not a whole number of prefix tokens" % (nb, P))
                cw = isinstance(uri.from_string(P + ssk, deep_immutable=deep), uri.WriteableSSKFileURI)
                cm = isinstance(uri.from_string(P + ssk_ro, deep_immutable=deep), uri.ReadonlySSKFileURI)
                table[(T, deep)] = (k, cw, cm)
    _PREFIX_TABLE = table
    return table


def context_flags(prefix, deep_immutable):
    """(can_be_writeable, can_be_mutable) in force for no prefix / "ro." / "imm." (learned table)"""
    T = {None: (), "ro": (uri.ALLEGED_READONLY_PREFIX,), "imm": (uri.ALLEGED_IMMUTABLE_PREFIX,)}[prefix]
    (k, cw, cm) = prefix_table()[(T, bool(deep_immutable))]
    return {"can_be_writeable": cw, "can_be_mutable": cm}


def model_from_string(u, deep_immutable, models, chain):
    """Concrete evaluation of the extracted model (used only to validate it against the real function).
    Returns (class name | 'UnknownURI', error kind or None)."""
    T, rest = leading_tokens(u)
    (k, cw, cm) = prefix_table()[(T, bool(deep_immutable))]
    if k is None:
        # what is left after stripping still starts with a prefix token: no chain entry can match
        k = 0 if not T else None
    if k is None:
        return ("UnknownURI", None)
    s = b"".join(T[k:]) + rest
    fl = {"can_be_writeable": cw, "can_be_mutable": cm}
    for e in chain:
        if not s.startswith(e.prefix):
            continue
        if e.unless is not None and fl[e.unless]:
            continue
        if e.cls is not None and (e.guard is None or fl[e.guard]):
            m = models[e.cls]
            if m.accepts(py2z(s)):
                return (e.cls, None)
            return ("UnknownURI", "BadURIError")
        return ("UnknownURI", "MustBeDeepImmutableError" if not fl["can_be_mutable"] else "MustBeReadonlyError")
    return ("UnknownURI", None)


def dispatch_index(s, chain, flags=None):
    """z3: list of conditions cond[i] <=> string s is handled by chain entry i (first match wins);
    plus cond_none.  flags: dict of python bools for the 'unless' entries (default: unprefixed, not deep-immutable)."""
    flags = flags or context_flags(None, False)
    conds = []
    earlier = []
    for e in chain:
        if e.unless is not None and flags[e.unless]:
            conds.append(z3.BoolVal(False))
            continue
        here = z3.PrefixOf(z3.StringVal(py2z(e.prefix)), s)
        conds.append(z3.And(here, *[z3.Not(x) for x in earlier]) if earlier else here)
        earlier.append(here)
    none = z3.And(*[z3.Not(x) for x in earlier])
    return conds, none


# ---- assembling + validation -------------------------------------------------------------------

def build():
    global _PREFIX_TABLE
    _PREFIX_TABLE = None
    del PREPROCESSED[:]
    files = {}
    for c in file_classes():
        files[c.__name__] = FileModel(c)
    dirs = {}
    for c in dir_classes():
        dirs[c.__name__] = DirModel(c, files)
    models = dict(files)
    models.update(dirs)
    chain = dispatch_chain()
    for e in chain:
        if e.cls is not None and e.cls not in models:
            raise hlib.HarnessError("from_string dispatches to %s which has no model" % e.cls)
    return files, dirs, models, chain


SAMPLE_FAILURES = []   # (index in sample_objects(), description, exception repr): real code raised on a well-formed object


def sample_objects():
    """One or more well-formed capability objects per class (fixed keys), built with the real constructors.
    Objects whose to_string()/derivation raises are kept (to_string failures are recorded in SAMPLE_FAILURES)."""
    k16a, k16b = bytes(range(1, 17)), bytes(range(101, 117))
    h32 = bytes(range(200, 232))
    objs = [
        uri.CHKFileURI(k16a, h32, 3, 10, 1234), uri.CHKFileURI(k16b, h32, 1, 1, 0),
        uri.CHKFileVerifierURI(k16a, h32, 25, 255, 2 ** 70),
        uri.LiteralFileURI(b""), uri.LiteralFileURI(b"a"), uri.LiteralFileURI(b"ab"), uri.LiteralFileURI(b"abc"),
        uri.LiteralFileURI(b"abcd"), uri.LiteralFileURI(b"abcde"), uri.LiteralFileURI(b"\xff" * 11),
        uri.WriteableSSKFileURI(k16a, h32), uri.ReadonlySSKFileURI(k16b, h32), uri.SSKVerifierURI(k16a, h32),
        uri.WriteableMDMFFileURI(k16a, h32), uri.ReadonlyMDMFFileURI(k16b, h32), uri.MDMFVerifierURI(k16a, h32),
    ]
    more = []
    for o in objs:
        try:
            more.append(uri.wrap_dirnode_cap(o))
        except AssertionError:
            pass
    seen = []
    del SAMPLE_FAILURES[:]

    def printed(o):
        try:
            return o.to_string()
        except Exception as e:
            return e
    for o in list(more) + objs:
        # verify caps of the write/read caps only (verify-cap-of-a-verify-cap is not part of the properties)
        if "Verifier" in type(o).__name__:
            continue
        try:
            v = o.get_verify_cap()
        except Exception:
            v = None
        if v is not None:
            more.append(v)
    out = []
    for o in objs + more:
        p = printed(o)
        if isinstance(p, Exception):
            SAMPLE_FAILURES.append((len(out), type(o).__name__, repr(p)))
            out.append(o)
        elif p not in seen:
            seen.append(p)
            out.append(o)
    return out


def sample_strings():
    out = []
    for o in sample_objects():
        try:
            out.append(o.to_string())
        except Exception:
            pass
    return out


def corpus():
    """Concrete strings: literals of the repo's test_uri.py, printed sample objects, and fixed mutations."""
    lits = set()
    try:
        import allmydata.test
        import os
        p = os.path.join(os.path.dirname(allmydata.test.__file__), "test_uri.py")
        t = ast.parse(open(p).read())
        for n in ast.walk(t):
            if isinstance(n, ast.Constant) and isinstance(n.value, (bytes, str)) and len(n.value) > 3:
                v = n.value if isinstance(n.value, bytes) else n.value.encode("utf-8")
                if b"URI" in v or b"x-tahoe" in v or v.startswith((b"ro.", b"imm.")):
                    lits.add(v)
    except (OSError, SyntaxError, ImportError):
        pass
    base = sorted(lits) + sample_strings()
    base += [b"x-tahoe-future-test-writeable:abc", b"x-tahoe-future-test-mutable:abc", b"", b"URI", b"URI:CHK", b"uri:chk:"]
    out = []
    seen = set()

    def add(x):
        if x not in seen:
            seen.add(x)
            out.append(x)
    for b in base:
        add(b)
        add(b + b"\n")
        add(b + b"\n\n")
        add(b + b"x")
        add(b + b":")
        add(b + b":ext:1")
        add(b + b"0")
        add(b[:-1])
        add(b" " + b)
        add(b"ro." + b)
        add(b"imm." + b)
        add(b"ro.imm." + b)
        add(b"imm.ro." + b)
        add(b"ro.ro." + b)
        add(b"imm.imm.ro." + b)
        add(b.upper())
        add(b.replace(b":3:", b":03:"))
        add(b.replace(b":10:", b":010:"))
        add(b.replace(b":1234", b":+1234"))
        add(b.replace(b":1234", b":1_234"))
        add(b.replace(b":0", b":00"))
        if len(b) > 12:
            add(b[:-1] + b"b")
            add(b[:-1] + b"c")
            add(b[:-1] + b"7")
            add(b[:10] + b"1" + b[11:])
            add(b[:9] + b[10:])
            add(b.replace(b"URI:", b"URI:URI:", 1))
            add(b.replace(b"-", b"", 1))
            add(b.replace(b":", b"-Verifier:", 2).replace(b"-Verifier:", b":", 1))
    return out


class RealCodeViolation(Exception):
    def __init__(self, w, what):
        Exception.__init__(self, what)
        self.w, self.what = w, what


def real_from_string(u, deep_immutable):
    r = uri.from_string(u, deep_immutable=deep_immutable)
    if isinstance(r, uri.UnknownURI):
        e = r.get_error()
        return ("UnknownURI", type(e).__name__ if e is not None else None)
    return (type(r).__name__, None)


def validate_all(models, chain, level="full"):
    """Model vs real code on the corpus: regex translations (per class, incl. groups), from_string result class
    in all six contexts, and print/reprint templates on accepted strings."""
    cp = corpus()
    n = 0
    for m in models.values():
        if isinstance(m, FileModel):
            n += m.rx.validate(cp, m.method)
        else:
            n += m.base_rx.validate(cp, m.base_method)
            n += m.inner_base_rx.validate(cp, "match")
    for u in (cp if level == "full" else cp[::7]):
        for deep in (False, True):
            try:
                real = real_from_string(u, deep)
            except (ValueError, AssertionError) as e:
                raise hlib.HarnessError("from_string(%r) raised %r on the validation corpus" % (u, e))
            mod = model_from_string(u, deep, models, chain)
            if real != mod:
                if real[0] != "UnknownURI" and not u.startswith((b"ro.", b"imm.")):
                    t = uri.from_string(u, deep_immutable=deep).to_string()
                    if t != u and not (any(u.startswith(k.encode()) for k in MDMF_KINDS) and u.startswith(t + b":")):
                        # the real parser accepts a string as a known kind that does not print back to itself: that is the property's
                        # violation itself, found while comparing model and code on the corpus
                        raise RealCodeViolation(u, "uri.from_string(%r) is a %s whose to_string() is %r" % (u, real[0], t))
                raise hlib.HarnessError("from_string model disagrees with real code on %r (deep_immutable=%s): real=%r model=%r" % (u, deep, real, mod))
            n += 1
    if PREPROCESSED:
        raise hlib.HarnessError(PREPROCESSED[0])
    # ideal conversions vs the real base32 / int on the corpus groups
    c32 = CANON32_ANY()
    for m in models.values():
        if not isinstance(m, FileModel):
            continue
        for u in cp:
            mo = getattr(m.cls.STRING_RE, m.method)(u)
            if not mo:
                continue
            for (kind, group, attr) in m.slots:
                g = mo.group(group)
                if kind == "b32":
                    real_same = base32.b2a(base32.a2b(g)) == g
                    model_same = _rx.member(py2z(g), c32)
                else:
                    real_same = (b"%d" % int(g)) == g
                    model_same = _rx.member(py2z(g), CANON_INT())
                if real_same != model_same:
                    raise hlib.HarnessError("ideal %s conversion disagrees with real code on %r" % (kind, g))
                n += 1
    return n
