"""
C13 -- one client serializes operations on a mutable node.

Real code executed: MutableFileNode._do_serialized and MutableFileVersion._do_serialized (the two
definitions in mutable/filenode.py) reached through the real public entry points
(download_best_version/overwrite/upload/modify/get_servermap, resp. overwrite/modify/read/update),
on an instance made with Class.__new__ that holds a real Twisted Deferred chain; the private
`_xxx` implementations are replaced (instance attributes) by harness operations whose inner
Deferreds are fired by the schedule.  NodeMaker.create_from_cap cache rule on real caps.
DirectoryNode edit methods on a real DirectoryNode over such a node (lost-update check).

The schedule is symbolic: a permutation of the actions
    R_i  request operation i            (request order R_0 < R_1 < ...)
    F_i  fire operation i's inner Deferred (success or failure) -- may precede R_i / the start of i
    E_i  deliver the eventual-send that notifies caller i (only in the *_notify obligations;
         otherwise the harness-owned eventual queue is drained FIFO at the end)
encoded as choice integers c_0..c_{T-1}: c_t selects one of the actions enabled at step t.
"""
from vlib import hlib
from vlib.hlib import NS, assume
hlib.ensure_shims()
from twisted.internet import defer
from twisted.python import failure
from allmydata.mutable import filenode as fn_mod
from allmydata.mutable.filenode import MutableFileNode, MutableFileVersion

B = hlib.bounds()
NOTES = [
    "foolscap `eventually` replaced in allmydata.mutable.filenode by a harness-owned queue (drained by the schedule / FIFO at the end)",
    "`log` name in allmydata.mutable.filenode replaced by a recorder (log.err on the serializer chain must never fire)",
    "private serialized implementations (_overwrite, _upload, _modify, _download_best_version, _get_servermap, _read, _update) "
    "replaced on the instance by harness operations returning harness-owned Deferreds / values / raising",
]
hlib.encoded(MutableFileNode._do_serialized, MutableFileVersion._do_serialized,
             MutableFileNode.download_best_version, MutableFileNode.overwrite, MutableFileNode.upload,
             MutableFileNode.modify, MutableFileNode.get_servermap,
             MutableFileVersion.overwrite, MutableFileVersion.modify, MutableFileVersion.read,
             MutableFileVersion.update)

# ---- environment ------------------------------------------------------------------------------

_Q = []          # the eventual-send queue (reset per run)
_LOGERR = []     # calls of log.err


def _eventually(f, *a, **kw):
    _Q.append((f, a, kw))


fn_mod.eventually = _eventually
fn_mod.log = NS(err=lambda *a, **kw: _LOGERR.append(a), msg=lambda *a, **kw: None)


class OpError(Exception):
    def __init__(self, i):
        Exception.__init__(self, i)
        self.i = i


class Tok(object):
    """an opaque argument/result token"""
    __slots__ = ("name", "i")

    def __init__(self, name, i):
        self.name, self.i = name, i

    def __repr__(self):
        return "<Tok %s %s>" % (self.name, self.i)


# kinds of operation bodies
K_DEF_OK, K_DEF_FAIL, K_SYNC_VAL, K_SYNC_RAISE = 0, 1, 2, 3

NODE_METHODS = ("download_best_version", "overwrite", "upload", "modify", "get_servermap")
VERSION_METHODS = ("overwrite", "modify", "read", "update")
RAW = "_do_serialized"


class Run(object):
    """One node, n operations, bookkeeping of what happened when."""

    def __init__(self, cls_id, n, kinds, rot, raw):
        self.n = n
        self.kinds = kinds
        self.bad = None
        self.clock = 0
        self.requested = [False] * n
        self.started = [0] * n           # number of invocations of op i's callable
        self.fired = [False] * n         # inner Deferred fired (F_i done)
        self.finished = [False] * n      # operation body complete
        self.notified = [[] for _ in range(n)]
        self.callers = [None] * n
        self.inner = [defer.Deferred() for _ in range(n)]
        self.errs = [OpError(i) for i in range(n)]
        self.vals = [Tok("result", i) for i in range(n)]
        self.args = [(Tok("a", i), Tok("b", i)) for i in range(n)]
        if cls_id == 0:
            node = MutableFileNode.__new__(MutableFileNode)
            self.methods = NODE_METHODS
        else:
            node = MutableFileVersion.__new__(MutableFileVersion)
            node._writekey = b"writekey"
            self.methods = VERSION_METHODS
        node._serializer = defer.succeed(None)
        self.node = node
        self.raw = raw
        self.rot = rot
        self.meth_of = []
        for i in range(n):
            self.meth_of.append(RAW if raw else self.methods[(i + rot) % len(self.methods)])
        if not raw:
            for i in range(n):
                setattr(node, "_" + self.meth_of[i], self._make_impl(i))

    # -- the operation bodies -------------------------------------------------------------------
    def _make_impl(self, i):
        def impl(*args, **kwargs):
            return self.body(i, args, kwargs)
        return impl

    def expected_args(self, i):
        m = self.meth_of[i]
        a, b = self.args[i]
        if m == RAW:
            return ((a,), {"kw": b})
        if m == "download_best_version":
            return ((), {})
        if m in ("overwrite", "get_servermap"):
            return ((a,), {})
        if m in ("upload", "modify", "update"):
            return ((a, b), {})
        if m == "read":
            return ((a, b, None, False), {})
        raise hlib.HarnessError(m)

    def body(self, i, args, kwargs):
        self.started[i] += 1
        if self.started[i] > 1:
            self.fail("operation %d invoked twice" % i)
        if not self.requested[i]:
            self.fail("operation %d invoked before it was requested" % i)
        if (args, kwargs) != self.expected_args(i):
            self.fail("operation %d invoked with the wrong arguments" % i)
        for j in range(self.n):
            if j < i and not self.finished[j]:
                self.fail("operation %d started before operation %d finished" % (i, j))
            if j != i and self.started[j] and not self.finished[j]:
                self.fail("operation %d started while operation %d is running" % (i, j))
        k = self.kinds[i]
        if k == K_SYNC_VAL:
            self.finished[i] = True
            return self.vals[i]
        if k == K_SYNC_RAISE:
            self.finished[i] = True
            raise self.errs[i]
        if self.fired[i]:
            self.finished[i] = True
        return self.inner[i]

    def fail(self, msg):
        if self.bad is None:
            self.bad = msg

    # -- schedule actions -----------------------------------------------------------------------
    def request(self, i):
        self.requested[i] = True
        a, b = self.args[i]
        m = self.meth_of[i]
        node = self.node
        if m == RAW:
            d = type(node)._do_serialized(node, self._make_impl(i), a, kw=b)
        elif m == "download_best_version":
            d = node.download_best_version()
        elif m in ("overwrite", "get_servermap"):
            d = getattr(node, m)(a)
        elif m == "read":
            d = node.read(a, b)
        else:
            d = getattr(node, m)(a, b)
        if not isinstance(d, defer.Deferred):
            self.fail("request %d did not return a Deferred" % i)
            return
        self.callers[i] = d
        d.addBoth(lambda res, i=i: self.notified[i].append(res))

    def fire(self, i):
        k = self.kinds[i]
        self.fired[i] = True
        if k in (K_SYNC_VAL, K_SYNC_RAISE):
            return
        if self.started[i]:
            # the body is complete the moment its Deferred fires (before the chain moves on)
            self.finished[i] = True
        if k == K_DEF_OK:
            self.inner[i].callback(self.vals[i])
        else:
            self.inner[i].errback(failure.Failure(self.errs[i]))

    def deliver(self, i):
        """run the queued eventual-send that belongs to caller i; False if there is none"""
        for idx in range(len(_Q)):
            (f, a, kw) = _Q[idx]
            if getattr(f, "__self__", None) is self.callers[i]:
                del _Q[idx]
                f(*a, **kw)
                return True
        return False

    def drain_fifo(self):
        turns = 0
        while _Q:
            (f, a, kw) = _Q.pop(0)
            f(*a, **kw)
            turns += 1
            if turns > 100:
                raise hlib.HarnessError("eventual queue does not drain")

    # -- final oracle ---------------------------------------------------------------------------
    def verdict(self):
        if self.bad is not None:
            return self.bad
        for i in range(self.n):
            if self.started[i] != 1:
                return "operation %d never started although everything before it completed" % i
            got = self.notified[i]
            if len(got) != 1:
                return "caller %d notified %d times" % (i, len(got))
            r = got[0]
            k = self.kinds[i]
            if k in (K_DEF_OK, K_SYNC_VAL):
                if r is not self.vals[i]:
                    return "caller %d got %r instead of its own result" % (i, r)
            else:
                if not isinstance(r, failure.Failure) or r.value is not self.errs[i]:
                    return "caller %d got %r instead of its own failure" % (i, r)
        if _LOGERR:
            return "a failure leaked into the serializer chain (log.err called)"
        s = self.node._serializer
        if not isinstance(s, defer.Deferred) or not s.called or s.paused or isinstance(s.result, failure.Failure):
            return "serializer chain left in a state that blocks or fails later operations"
        if _Q:
            return "eventual-sends left over"
        return True


# ---- schedule: at every step the symbolic choice c_t picks one of the currently enabled actions ----
#
# Enabledness is defined by the SPECIFICATION state (what was requested / fired), never by the state of
# the code under test: R_i after R_{i-1}; F_i any time (not at all for synchronous kinds); E_i (only in
# the *_notify obligations) once operations 0..i all were requested and completed.  Each vector of
# choices denotes exactly one schedule and every schedule is denoted (the last enabled action is the
# default branch), so the paths CrossHair explores are exactly the schedules.

def _kinds_ok(n, kinds):
    allowed = B.get("kinds", [0, 1])
    for i in range(n):
        if kinds[i] not in allowed:
            return False
    if B.get("kmask") is not None:
        # one process per failure mask: bit i set <=> operation i is of the second allowed kind
        for i in range(n):
            if kinds[i] != allowed[(B["kmask"] >> i) & 1]:
                return False
    if B.get("need_sync"):
        some = False
        for i in range(n):
            if kinds[i] >= K_SYNC_VAL:
                some = True
        if not some:
            return False
    return True


def _execute(cls_id, n, with_e, choices, kinds, rot, raw):
    del _Q[:]
    del _LOGERR[:]
    run = Run(cls_id, n, kinds, rot, raw)
    done_r = [False] * n
    done_f = [kinds[i] >= K_SYNC_VAL for i in range(n)]
    done_e = [not with_e] * n
    t = 0
    while True:
        enabled = []
        for i in range(n):
            if not done_r[i] and (i == 0 or done_r[i - 1]):
                enabled.append(("R", i))
            if not done_f[i]:
                enabled.append(("F", i))
            if not done_e[i]:
                ready = True
                for j in range(i + 1):
                    if not (done_r[j] and done_f[j]):
                        ready = False
                if ready:
                    enabled.append(("E", i))
        if not enabled:
            break
        if t >= len(choices):
            raise hlib.HarnessError("not enough choice variables")
        c = choices[t]
        t += 1
        pick = enabled[-1]
        for idx in range(len(enabled) - 1):
            if c == idx:
                pick = enabled[idx]
                break
        (what, i) = pick
        if what == "R":
            done_r[i] = True
            run.request(i)
        elif what == "F":
            done_f[i] = True
            run.fire(i)
        else:
            done_e[i] = True
            if not run.deliver(i):
                return "caller %d's notification was not queued although operations 0..%d are complete" % (i, i)
    run.drain_fifo()
    return run.verdict()


def h_serialized(cls_id: int, n: int, rot: int, raw: bool, k0: int, k1: int, k2: int, k3: int,
                 c0: int, c1: int, c2: int, c3: int, c4: int, c5: int, c6: int, c7: int) -> bool:
    """
    pre: cls_id == B["cls"] and n == B["n"] and 0 <= rot < B["nrot"] and raw == B["raw"]
    pre: _kinds_ok(n, [k0, k1, k2, k3])
    post: _ == True
    """
    return _execute(cls_id, n, False, [c0, c1, c2, c3, c4, c5, c6, c7], [k0, k1, k2, k3], rot, raw)


def h_serialized_notify(cls_id: int, n: int, rot: int, raw: bool, k0: int, k1: int, k2: int,
                        c0: int, c1: int, c2: int, c3: int, c4: int, c5: int, c6: int, c7: int, c8: int) -> bool:
    """
    pre: cls_id == B["cls"] and n == B["n"] and 0 <= rot < B["nrot"] and raw == B["raw"]
    pre: _kinds_ok(n, [k0, k1, k2])
    post: _ == True
    """
    return _execute(cls_id, n, True, [c0, c1, c2, c3, c4, c5, c6, c7, c8], [k0, k1, k2], rot, raw)
