"""
C13 -- one client serializes operations on a mutable node.

Real code executed: MutableFileNode._do_serialized and MutableFileVersion._do_serialized (the two
definitions in mutable/filenode.py) reached through the real public entry points
(download_best_version/overwrite/upload/modify/get_servermap, resp. overwrite/modify/read/update),
on an instance made with Class.__new__ that holds a real Twisted Deferred chain; the private
`_xxx` implementations are replaced (instance attributes) by harness operations whose inner
Deferreds are fired by the schedule.  NodeMaker.create_from_cap cache rule on real caps.
DirectoryNode edit methods on a real DirectoryNode over such a node (lost-update check).

The schedule is symbolic: a permutation of the actions
    R_i  request operation i            (request order R_0 < R_1 < ...)
    F_i  fire operation i's inner Deferred (success or failure) -- may precede R_i / the start of i
    E_i  deliver the eventual-send that notifies caller i (only in the *_notify obligations;
         otherwise the harness-owned eventual queue is drained FIFO at the end)
encoded as choice integers c_0..c_{T-1}: c_t selects one of the actions enabled at step t.
"""
from vlib import hlib
from vlib.hlib import NS, assume
hlib.ensure_shims()
from twisted.internet import defer
from twisted.python import failure
from allmydata.mutable import filenode as fn_mod
from allmydata.mutable.filenode import MutableFileNode, MutableFileVersion

B = hlib.bounds()
NOTES = [
    "foolscap `eventually` replaced in allmydata.mutable.filenode by a harness-owned queue (drained by the schedule / FIFO at the end)",
    "`log` name in allmydata.mutable.filenode replaced by a recorder (log.err on the serializer chain must never fire)",
    "private serialized implementations (_overwrite, _upload, _modify, _download_best_version, _get_servermap, _read, _update) "
    "replaced on the instance by harness operations returning harness-owned Deferreds / values / raising",
]
hlib.encoded(MutableFileNode._do_serialized, MutableFileVersion._do_serialized,
             MutableFileNode.download_best_version, MutableFileNode.overwrite, MutableFileNode.upload,
             MutableFileNode.modify, MutableFileNode.get_servermap,
             MutableFileVersion.overwrite, MutableFileVersion.modify, MutableFileVersion.read,
             MutableFileVersion.update)

# ---- environment ------------------------------------------------------------------------------

_Q = []          # the eventual-send queue (reset per run)
_LOGERR = []     # calls of log.err


def _eventually(f, *a, **kw):
    _Q.append((f, a, kw))


fn_mod.eventually = _eventually
fn_mod.log = NS(err=lambda *a, **kw: _LOGERR.append(a), msg=lambda *a, **kw: None)


class OpError(Exception):
    def __init__(self, i):
        Exception.__init__(self, i)
        self.i = i


class Tok(object):
    """an opaque argument/result token"""
    __slots__ = ("name", "i")

    def __init__(self, name, i):
        self.name, self.i = name, i

    def __repr__(self):
        return "<Tok %s %s>" % (self.name, self.i)


# kinds of operation bodies
K_DEF_OK, K_DEF_FAIL, K_SYNC_VAL, K_SYNC_RAISE = 0, 1, 2, 3

NODE_METHODS = ("download_best_version", "overwrite", "upload", "modify", "get_servermap")
VERSION_METHODS = ("overwrite", "modify", "read", "update")
RAW = "_do_serialized"


class Run(object):
    """One node, n operations, bookkeeping of what happened when."""

    def __init__(self, cls_id, n, kinds, rot, raw):
        self.n = n
        self.kinds = kinds
        self.bad = None
        self.clock = 0
        self.requested = [False] * n
        self.started = [0] * n           # number of invocations of op i's callable
        self.fired = [False] * n         # inner Deferred fired (F_i done)
        self.finished = [False] * n      # operation body complete
        self.notified = [[] for _ in range(n)]
        self.callers = [None] * n
        self.inner = [defer.Deferred() for _ in range(n)]
        self.errs = [OpError(i) for i in range(n)]
        self.vals = [Tok("result", i) for i in range(n)]
        self.args = [(Tok("a", i), Tok("b", i)) for i in range(n)]
        if cls_id == 0:
            node = MutableFileNode.__new__(MutableFileNode)
            self.methods = NODE_METHODS
        else:
            node = MutableFileVersion.__new__(MutableFileVersion)
            node._writekey = b"writekey"
            self.methods = VERSION_METHODS
        node._serializer = defer.succeed(None)
        self.node = node
        self.raw = raw
        self.rot = rot
        self.meth_of = []
        for i in range(n):
            self.meth_of.append(RAW if raw else self.methods[(i + rot) % len(self.methods)])
        if not raw:
            for i in range(n):
                setattr(node, "_" + self.meth_of[i], self._make_impl(i))

    # -- the operation bodies -------------------------------------------------------------------
    def _make_impl(self, i):
        def impl(*args, **kwargs):
            return self.body(i, args, kwargs)
        return impl

    def expected_args(self, i):
        m = self.meth_of[i]
        a, b = self.args[i]
        if m == RAW:
            return ((a,), {"kw": b})
        if m == "download_best_version":
            return ((), {})
        if m in ("overwrite", "get_servermap"):
            return ((a,), {})
        if m in ("upload", "modify", "update"):
            return ((a, b), {})
        if m == "read":
            return ((a, b, None, False), {})
        raise hlib.HarnessError(m)

    def body(self, i, args, kwargs):
        self.started[i] += 1
        if self.started[i] > 1:
            self.fail("operation %d invoked twice" % i)
        if not self.requested[i]:
            self.fail("operation %d invoked before it was requested" % i)
        if (args, kwargs) != self.expected_args(i):
            self.fail("operation %d invoked with the wrong arguments" % i)
        for j in range(self.n):
            if j < i and not self.finished[j]:
                self.fail("operation %d started before operation %d finished" % (i, j))
            if j != i and self.started[j] and not self.finished[j]:
                self.fail("operation %d started while operation %d is running" % (i, j))
        k = self.kinds[i]
        if k == K_SYNC_VAL:
            self.finished[i] = True
            return self.vals[i]
        if k == K_SYNC_RAISE:
            self.finished[i] = True
            raise self.errs[i]
        if self.fired[i]:
            self.finished[i] = True
        return self.inner[i]

    def fail(self, msg):
        if self.bad is None:
            self.bad = msg

    # -- schedule actions -----------------------------------------------------------------------
    def request(self, i):
        self.requested[i] = True
        a, b = self.args[i]
        m = self.meth_of[i]
        node = self.node
        if m == RAW:
            d = type(node)._do_serialized(node, self._make_impl(i), a, kw=b)
        elif m == "download_best_version":
            d = node.download_best_version()
        elif m in ("overwrite", "get_servermap"):
            d = getattr(node, m)(a)
        elif m == "read":
            d = node.read(a, b)
        else:
            d = getattr(node, m)(a, b)
        if not isinstance(d, defer.Deferred):
            self.fail("request %d did not return a Deferred" % i)
            return
        self.callers[i] = d
        d.addBoth(lambda res, i=i: self.notified[i].append(res))

    def fire(self, i):
        k = self.kinds[i]
        self.fired[i] = True
        if k in (K_SYNC_VAL, K_SYNC_RAISE):
            return
        if self.started[i]:
            # the body is complete the moment its Deferred fires (before the chain moves on)
            self.finished[i] = True
        if k == K_DEF_OK:
            self.inner[i].callback(self.vals[i])
        else:
            self.inner[i].errback(failure.Failure(self.errs[i]))

    def deliver(self, i):
        """run the queued eventual-send that belongs to caller i; False if there is none"""
        for idx in range(len(_Q)):
            (f, a, kw) = _Q[idx]
            if getattr(f, "__self__", None) is self.callers[i]:
                del _Q[idx]
                f(*a, **kw)
                return True
        # nothing queued: acceptable only if caller i has been notified already (a synchronous notification)
        return len(self.notified[i]) == 1

    def drain_fifo(self):
        turns = 0
        while _Q:
            (f, a, kw) = _Q.pop(0)
            f(*a, **kw)
            turns += 1
            if turns > 100:
                raise hlib.HarnessError("eventual queue does not drain")

    # -- final oracle ---------------------------------------------------------------------------
    def verdict(self):
        if self.bad is not None:
            return self.bad
        for i in range(self.n):
            if self.started[i] != 1:
                return "operation %d never started although everything before it completed" % i
            got = self.notified[i]
            if len(got) != 1:
                return "caller %d notified %d times" % (i, len(got))
            r = got[0]
            k = self.kinds[i]
            if k in (K_DEF_OK, K_SYNC_VAL):
                if r is not self.vals[i]:
                    return "caller %d got %r instead of its own result" % (i, r)
            else:
                if not isinstance(r, failure.Failure) or r.value is not self.errs[i]:
                    return "caller %d got %r instead of its own failure" % (i, r)
        if _LOGERR:
            return "a failure leaked into the serializer chain (log.err called)"
        s = self.node._serializer
        if not isinstance(s, defer.Deferred) or not s.called or s.paused or isinstance(s.result, failure.Failure):
            return "serializer chain left in a state that blocks or fails later operations"
        if _Q:
            return "eventual-sends left over"
        return True


# ---- schedule: at every step the symbolic choice c_t picks one of the currently enabled actions ----
#
# Enabledness is defined by the SPECIFICATION state (what was requested / fired), never by the state of
# the code under test: R_i after R_{i-1}; F_i any time (not at all for synchronous kinds); E_i (only in
# the *_notify obligations) once operations 0..i all were requested and completed.  Each vector of
# choices denotes exactly one schedule and every schedule is denoted (the last enabled action is the
# default branch), so the paths CrossHair explores are exactly the schedules.

def _kinds_ok(n, kinds):
    allowed = B.get("kinds", [0, 1])
    for i in range(n):
        if kinds[i] not in allowed:
            return False
    if B.get("k0in") is not None and kinds[0] not in B["k0in"]:
        # case split on the kind of the first operation (one process per value)
        return False
    if B.get("k1in") is not None and n > 1 and kinds[1] not in B["k1in"]:
        return False
    if B.get("need_sync"):
        some = False
        for i in range(n):
            if kinds[i] >= K_SYNC_VAL:
                some = True
        if not some:
            return False
    return True


def _execute(cls_id, n, with_e, choices, kinds, rot, raw):
    del _Q[:]
    del _LOGERR[:]
    run = Run(cls_id, n, kinds, rot, raw)
    done_r = [False] * n
    done_f = [kinds[i] >= K_SYNC_VAL for i in range(n)]
    done_e = [not with_e] * n
    t = 0
    while True:
        enabled = []
        for i in range(n):
            if not done_r[i] and (i == 0 or done_r[i - 1]):
                enabled.append(("R", i))
            if not done_f[i]:
                enabled.append(("F", i))
            if not done_e[i]:
                ready = True
                for j in range(i + 1):
                    if not (done_r[j] and done_f[j]):
                        ready = False
                if ready:
                    enabled.append(("E", i))
        if not enabled:
            break
        if t >= len(choices):
            raise hlib.HarnessError("not enough choice variables")
        c = choices[t]
        t += 1
        pick = enabled[-1]
        for idx in range(len(enabled) - 1):
            if c == idx:
                pick = enabled[idx]
                break
        (what, i) = pick
        if what == "R":
            done_r[i] = True
            run.request(i)
        elif what == "F":
            done_f[i] = True
            run.fire(i)
        else:
            done_e[i] = True
            if not run.deliver(i):
                return "caller %d's notification was not queued although operations 0..%d are complete" % (i, i)
    run.drain_fifo()
    return run.verdict()


def h_serialized(k0: int, k1: int, k2: int, k3: int,
                 c0: int, c1: int, c2: int, c3: int, c4: int, c5: int, c6: int, c7: int) -> bool:
    """
    pre: _kinds_ok(B["n"], [k0, k1, k2, k3])
    post: _ == True
    """
    return _execute(B["cls"], B["n"], False, [c0, c1, c2, c3, c4, c5, c6, c7], [k0, k1, k2, k3], B["rot"], B["raw"])


def h_serialized_notify(k0: int, k1: int, k2: int,
                        c0: int, c1: int, c2: int, c3: int, c4: int, c5: int, c6: int, c7: int, c8: int) -> bool:
    """
    pre: _kinds_ok(B["n"], [k0, k1, k2])
    post: _ == True
    """
    return _execute(B["cls"], B["n"], True, [c0, c1, c2, c3, c4, c5, c6, c7, c8], [k0, k1, k2], B["rot"], B["raw"])


# ---- NodeMaker.create_from_cap: one node object per (capability string, deep_immutable) ---------

from allmydata import uri as uri_mod
from allmydata import nodemaker as nm_mod
from allmydata import dirnode as dn_mod
from allmydata.unknown import UnknownNode
from allmydata.blacklist import ProhibitedNode

hlib.encoded(nm_mod.NodeMaker.create_from_cap, nm_mod.NodeMaker._create_from_single_cap,
             nm_mod.NodeMaker._create_mutable, nm_mod.NodeMaker._create_dirnode)

_W1 = uri_mod.WriteableSSKFileURI(b"w" * 16, b"f" * 32)
_W2 = uri_mod.WriteableSSKFileURI(b"w" * 16, b"f" * 31 + b"g")      # differs from _W1 only at the very end of the string
_M1 = uri_mod.WriteableMDMFFileURI(b"x" * 16, b"g" * 32)
_C1 = uri_mod.CHKFileURI(b"k" * 16, b"u" * 32, 3, 10, 1000)
# (cap string, names a mutable object)
CAPS = [
    (_W1.to_string(), True),
    (_W2.to_string(), True),
    (_W1.get_readonly().to_string(), True),
    (_M1.to_string(), True),
    (uri_mod.DirectoryURI(_W1).to_string(), True),
    (uri_mod.DirectoryURI(_W1).get_readonly().to_string(), True),
    (uri_mod.MDMFDirectoryURI(_M1).to_string(), True),
    (_C1.to_string(), False),
    (uri_mod.ImmutableDirectoryURI(_C1).to_string(), False),
    (uri_mod.LiteralFileURI(b"hello").to_string(), False),
    # MDMF caps spelled with trailing extension hints (":k:segsize"): uri.from_string accepts them and to_string() drops
    # them, so the cap STRING the caller uses differs from the canonical one -- the cache must still key on the caller's string
    (_M1.to_string() + b":3:131073", True),
    (_M1.get_readonly().to_string() + b":3:131073", True),
    (uri_mod.MDMFDirectoryURI(_M1).to_string() + b":3:131073", True),
    (uri_mod.MDMFDirectoryURI(_M1).get_readonly().to_string() + b":3:131073", True),
    (_M1.get_readonly().to_string(), True),
]


def _core(node):
    return node.wrapped_node if isinstance(node, ProhibitedNode) else node


# uri.from_string on the table entries is evaluated ONCE at import by the real function (base32 decoding under
# CrossHair's byte-sequence model costs ~0.4 s per call); nodemaker sees a proxy module that looks the result up.
_PARSED = {}
for (_c, _m) in CAPS:
    for _di in (False, True):
        _PARSED[(_c, _di)] = uri_mod.from_string(_c, deep_immutable=_di, name=u"<unknown name>")


class _UriProxy(object):
    def __getattr__(self, name):
        return getattr(uri_mod, name)

    @staticmethod
    def from_string(u, deep_immutable=False, name=u"<unknown name>"):
        if name != u"<unknown name>" or (u, deep_immutable) not in _PARSED:
            raise hlib.HarnessError("from_string outside the table")
        return _PARSED[(u, deep_immutable)]


nm_mod.uri = _UriProxy()
NOTES.append("nodemaker's `uri.from_string` answers from a table filled at import by the real uri.from_string for the 15 caps x deep_immutable "
             "(identical results; avoids re-running base32 under the symbolic byte model); cap identity of a node is compared field-wise")


def _fields(u):
    """structural identity of a parsed cap (URI.__eq__ goes through to_string/base32)"""
    if hasattr(u, "_filenode_uri"):
        return (type(u).__name__, _fields(u._filenode_uri))
    out = [type(u).__name__]
    for a in ("writekey", "readkey", "fingerprint", "key", "uri_extension_hash", "needed_shares", "total_shares", "size", "data"):
        out.append(getattr(u, a, None))
    return tuple(out)


def h_node_cache(i1: int, i2: int, di1: bool, di2: bool, as_read1: bool, as_read2: bool, black1: bool, black2: bool) -> bool:
    """
    pre: 0 <= i1 < B["ncaps"] and 0 <= i2 < B["ncaps"]
    pre: B["pairs"] == "all" or i2 == i1 or i2 == (i1 + 1) % B["ncaps"] or i2 == (i1 + 2) % B["ncaps"]
    pre: B["pairs"] == "all" or (not as_read1 and not black1)
    pre: (B.get("ar1") is None or as_read1 == B["ar1"]) and (B.get("bl1") is None or black1 == B["bl1"])
    post: _ == True
    """
    nm = nm_mod.NodeMaker(None, None, None, None, None, {"k": 3, "n": 10}, None, None)
    flags = [black1, black2]
    turn = [0]
    nm.blacklist = NS(check_storageindex=lambda si: ("prohibited" if flags[turn[0]] else None))
    (c1, mut1) = CAPS[i1]
    (c2, mut2) = CAPS[i2]
    n1 = nm.create_from_cap(None, c1, deep_immutable=di1) if as_read1 else nm.create_from_cap(c1, None, deep_immutable=di1)
    turn[0] = 1
    n2 = nm.create_from_cap(None, c2, deep_immutable=di2) if as_read2 else nm.create_from_cap(c2, None, deep_immutable=di2)
    for (n, c, mut, di, blk) in ((n1, c1, mut1, di1, black1), (n2, c2, mut2, di2, black2)):
        if isinstance(n, ProhibitedNode) != blk:
            return "blacklist wrapper wrong"
        k = _core(n)
        if mut and di:
            # a mutable cap in a deep-immutable context must not yield a usable mutable node
            if not isinstance(k, UnknownNode):
                return "mutable cap accepted in deep-immutable context"
        else:
            if isinstance(k, UnknownNode):
                return "known cap produced an UnknownNode"
            if _fields(k.get_cap()) != _fields(_PARSED[(c, di)]):
                return "node does not carry the capability that was asked for"
            if k.is_mutable() != mut:
                return "mutability of the node differs from the cap's"
    same_key = (c1 == c2) and (di1 == di2)
    k1, k2 = _core(n1), _core(n2)
    if same_key and mut1 and not di1:
        if k1 is not k2:
            return "two nodes for one mutable capability string: their serializers are independent"
        if isinstance(k1, dn_mod.DirectoryNode) and k1._node is not k2._node:
            return "directory nodes share no backing mutable file node"
    if not same_key and k1 is k2:
        return "different capabilities share one node object"
    return True


# ---- directory edits through one client: no lost updates ------------------------------------------

hlib.encoded(dn_mod.DirectoryNode.set_node, dn_mod.DirectoryNode.delete, dn_mod.DirectoryNode.set_metadata_for,
             dn_mod.DirectoryNode.set_nodes, dn_mod.Adder.modify, dn_mod.Deleter.modify, dn_mod.MetadataSetter.modify)
NOTES.append("DirectoryNode._unpack_contents/_pack_contents replaced (instance attributes) by dict copy: directory contents are a "
             "{name: (child, metadata)} dict; allmydata.dirnode.time replaced by a constant clock")
dn_mod.time = NS(time=lambda: 1000.0)

E_ADD, E_DEL_X, E_META_Y, E_REPLACE_X = 0, 1, 2, 3


class DirRun(object):
    """A real DirectoryNode over a real MutableFileNode whose serialized `_modify` is a read-modify-write with
    latency: the contents are read when the operation STARTS, the modifier is applied to that snapshot and the
    result written when the operation's inner Deferred fires (so two overlapping operations lose an update)."""

    def __init__(self, n, kinds, edits):
        self.n = n
        self.kinds = kinds
        self.edits = edits
        self.bad = None
        fnode = MutableFileNode(None, None, {"k": 3, "n": 10}, None).init_from_cap(_W1)
        self.fnode = fnode
        self.dir = dn_mod.DirectoryNode(fnode, None, None)
        self.dir._unpack_contents = lambda c: dict(c)
        self.dir._pack_contents = lambda ch: dict(ch)
        mk = lambda s: MutableFileNode(None, None, {"k": 3, "n": 10}, None).init_from_cap(
            uri_mod.WriteableSSKFileURI(s * 16, b"f" * 32))
        self.X, self.Y = mk(b"1"), mk(b"2")
        self.kids = [mk(b"%d" % (3 + i)) for i in range(n)]
        self.store = {u"x": (self.X, {}), u"y": (self.Y, {})}
        self.inner = [defer.Deferred() for _ in range(n)]
        self.errs = [OpError(i) for i in range(n)]
        self.started = [False] * n
        self.finished = [False] * n
        self.notified = [[] for _ in range(n)]
        self.callers = [None] * n
        self.who = []                 # (modifier owner object, operation index) registered at request time
        self.current = None
        fnode._modify = self._modify
        real_modify = MutableFileNode.modify

        def modify(modifier, backoffer=None):
            # instrumentation only: remember which request this modifier belongs to, then the real method
            self.who.append((modifier.__self__, self.current))
            return real_modify(fnode, modifier, backoffer)
        fnode.modify = modify

    def _modify(self, modifier, backoffer):
        i = None
        for (owner, idx) in self.who:
            if owner is modifier.__self__:
                i = idx
        if i is None:
            raise hlib.HarnessError("modify for an unknown request")
        if self.started[i]:
            self.bad = self.bad or "edit %d started twice" % i
        self.started[i] = True
        snapshot = dict(self.store)

        def _commit(res, snapshot=snapshot, modifier=modifier):
            new = modifier(snapshot, None, True)
            if new is not None:
                self.store = dict(new)
            return res
        d = defer.Deferred()
        self.inner[i].addCallbacks(lambda res: d.callback(res), lambda f: d.errback(f))
        d.addCallback(_commit)
        return d

    def request(self, i):
        e = self.edits[i]
        self.current = i
        if e == E_ADD:
            d = self.dir.set_node(u"new%d" % i, self.kids[i], None, True)
        elif e == E_DEL_X:
            d = self.dir.delete(u"x")
        elif e == E_META_Y:
            d = self.dir.set_metadata_for(u"y", {"tag": i})
        else:
            d = self.dir.set_node(u"x", self.kids[i], None, True)
        self.callers[i] = d
        d.addBoth(lambda res, i=i: self.notified[i].append(res))

    def fire(self, i):
        if self.kinds[i] == K_DEF_OK:
            self.inner[i].callback(None)
        else:
            self.inner[i].errback(failure.Failure(self.errs[i]))

    def deliver(self, i):
        return False

    def drain_fifo(self):
        turns = 0
        while _Q:
            (f, a, kw) = _Q.pop(0)
            f(*a, **kw)
            turns += 1
            if turns > 100:
                raise hlib.HarnessError("eventual queue does not drain")

    def verdict(self):
        if self.bad:
            return self.bad
        # independent model: apply the edits whose publish succeeded, one after the other in request order
        model = {u"x": self.X, u"y": self.Y}
        tag = None
        for i in range(self.n):
            e = self.edits[i]
            got = self.notified[i]
            if len(got) != 1:
                return "caller %d notified %d times" % (i, len(got))
            r = got[0]
            if self.kinds[i] != K_DEF_OK:
                if not isinstance(r, failure.Failure) or r.value is not self.errs[i]:
                    return "caller %d: expected its own failure, got %r" % (i, r)
                continue
            if e == E_ADD:
                model[u"new%d" % i] = self.kids[i]
                want = self.kids[i]
            elif e == E_REPLACE_X:
                model[u"x"] = self.kids[i]
                want = self.kids[i]
            elif e == E_DEL_X:
                if u"x" not in model:
                    if not isinstance(r, failure.Failure) or not r.check(dn_mod.NoSuchChildError):
                        return "delete of a missing child did not fail with NoSuchChildError"
                    continue
                want = model.pop(u"x")
            else:
                tag = i
                want = self.dir
            if r is not want:
                return "caller %d got %r" % (i, r)
        final = self.store
        if sorted(final.keys()) != sorted(model.keys()):
            return "final directory has names %r, sequential application gives %r: an edit was lost" % (sorted(final), sorted(model))
        for name in model:
            if final[name][0] is not model[name]:
                return "child %r is not the one the last successful edit set" % (name,)
        if final[u"y"][1].get("tag") != tag:
            return "metadata edit lost"
        if _LOGERR:
            return "a failure leaked into the serializer chain"
        return True


def _execute_dir(n, choices, kinds, edits):
    del _Q[:]
    del _LOGERR[:]
    run = DirRun(n, kinds, edits)
    done_r = [False] * n
    done_f = [False] * n
    t = 0
    while True:
        enabled = []
        for i in range(n):
            if not done_r[i] and (i == 0 or done_r[i - 1]):
                enabled.append(("R", i))
            if not done_f[i]:
                enabled.append(("F", i))
        if not enabled:
            break
        c = choices[t]
        t += 1
        pick = enabled[-1]
        for idx in range(len(enabled) - 1):
            if c == idx:
                pick = enabled[idx]
                break
        (what, i) = pick
        if what == "R":
            done_r[i] = True
            run.request(i)
        else:
            done_f[i] = True
            run.fire(i)
    run.drain_fifo()
    return run.verdict()


def _edits_ok(n, edits):
    for i in range(n):
        if not (0 <= edits[i] <= 3):
            return False
    if B.get("e0") is not None and edits[0] != B["e0"]:
        return False
    return True


def h_dir_edits(k0: int, k1: int, k2: int, e0: int, e1: int, e2: int,
                c0: int, c1: int, c2: int, c3: int, c4: int, c5: int) -> bool:
    """
    pre: _kinds_ok(B["n"], [k0, k1, k2]) and _edits_ok(B["n"], [e0, e1, e2])
    post: _ == True
    """
    return _execute_dir(B["n"], [c0, c1, c2, c3, c4, c5], [k0, k1, k2], [e0, e1, e2])
