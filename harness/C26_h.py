"""
C26 — garbage collection deletes exactly the expired shares.

The real LeaseCheckingCrawler (constructor, process_share, process_bucket, increment_space/...)
and the real lease objects (LeaseInfo.get_expiration_time / get_grant_renew_time_time / get_age)
and the real cancel_lease logic of ShareFile / MutableShareFile are executed; disk I/O primitives of
the share containers are replaced by in-memory ones; the clock is a harness-owned monotone sequence
of symbolic integers.

The oracle is the documented predicate of docs/garbage-collection.rst, written independently:
   age mode    : lease expired  <=>  renewal + duration < now   (duration = 31 days, or the override)
   cutoff mode : lease expired  <=>  renewal < cutoff
   renewal     :=  expiration_time - 31 days   (all leases are granted for 31 days)
Since the code reads the clock several times while it walks the leases, "now" is any instant of the
window [first clock read, last clock read] (with a standing clock this is an exact iff).
"""
from vlib import hlib
from vlib.hlib import NS, assume
hlib.ensure_shims()
from allmydata.storage import expirer, crawler as crawler_mod, lease as lease_mod
from allmydata.storage import immutable as imm_mod, mutable as mut_mod
from allmydata.storage.lease import LeaseInfo

B = hlib.bounds()
DAY = 24 * 60 * 60
D31 = 31 * DAY

NOTES = [
    "time.time in storage.expirer and storage.lease replaced by a harness clock: successive reads return "
    "now, now+d1, now+d1+d2, ... with symbolic non-negative integer steps (integer-valued clock)",
    "expirer.get_share_file returns an in-memory share object: a subclass of the real ShareFile / MutableShareFile whose "
    "disk primitives (open, get_leases/_enumerate_leases, _write_lease_record, _write_num_leases, _truncate_leases, os.stat, unlink) "
    "work on a Python list of real LeaseInfo objects; cancel_lease itself is the real method",
    "LeaseCheckingCrawler.add_lease_age_to_histogram replaced by a recorder (float bucket arithmetic; statistics only)",
    "LeaseCheckingCrawler.stat replaced by a stub returning symbolic st_size / st_blocks",
    "ShareCrawler.__init__ (twisted service set-up, state file) replaced by: self.state = {}; self.add_initial_state(); "
    "_HistorySerializer replaced by an in-memory object",
    "cancel secrets of the leases of one share are pairwise distinct tokens",
    "config_policy: tahoe.cfg is a concrete text (chosen by symbolic selectors) parsed by the real allmydata.node._Config/configparser with CrossHair "
    "tracing switched off; client.parse_duration / parse_date return symbolic integers; client.StorageServer is a subclass of the real StorageServer "
    "without _clean_incomplete/add_bucket_counter/setServiceParent; storage.server.fileutil.make_dirs and log are no-ops",
]
hlib.encoded(expirer.LeaseCheckingCrawler.__init__, expirer.LeaseCheckingCrawler.process_share,
             expirer.LeaseCheckingCrawler.process_bucket,
             expirer.LeaseCheckingCrawler.increment_space, expirer.LeaseCheckingCrawler.increment_bucketspace,
             expirer.LeaseCheckingCrawler.increment, expirer.LeaseCheckingCrawler.add_initial_state,
             expirer.LeaseCheckingCrawler.create_empty_cycle_dict, expirer.LeaseCheckingCrawler.create_empty_recovered_dict,
             LeaseInfo.get_expiration_time, LeaseInfo.get_grant_renew_time_time, LeaseInfo.get_age,
             LeaseInfo.is_cancel_secret,
             imm_mod.ShareFile.cancel_lease, mut_mod.MutableShareFile.cancel_lease)


# ---- clock -------------------------------------------------------------------

class _Clock(object):
    def __init__(self):
        self.seq = [0]
        self.reads = 0

    def set(self, seq):
        self.seq = list(seq)
        self.reads = 0

    def time(self):
        i = self.reads
        self.reads = i + 1
        if i < len(self.seq):
            return self.seq[i]
        return self.seq[-1]


CLOCK = _Clock()
expirer.time = CLOCK
lease_mod.time = CLOCK


# ---- in-memory share containers (real cancel_lease on top) ------------------------

class _F(object):
    """what `open(home, 'rb+')` returns: only a context manager; all I/O goes through the overridden primitives"""

    def __enter__(self):
        return self

    def __exit__(self, *a):
        return False

    def close(self):
        pass


def _fake_open(name, mode="r"):
    return _F()


class _FakeStatOS(object):
    """stands in for the `os` name in storage.immutable / storage.mutable while cancel_lease runs"""

    def __init__(self, size):
        self.size = size

    def stat(self, fn):
        # indexable like os.stat_result: [stat.ST_SIZE] == index 6
        return [0, 0, 0, 0, 0, 0, self.size, 0, 0, 0]


class MemImmutable(imm_mod.ShareFile):
    bad = None

    def __init__(self, leases, size):
        self.home = "share-imm"
        self.leases = list(leases)
        # what the real constructor caches when the container is opened (never updated afterwards)
        self._num_leases = len(self.leases)
        self._lease_offset = 0xc + size
        self._length = size
        self._data_offset = 0xc
        self.deleted = False
        self.size = size
        self.cancel_calls = []
        self._pending = {}

    def get_leases(self):
        return iter(list(self.leases))

    def _write_lease_record(self, f, lease_number, lease_info):
        self._pending[lease_number] = lease_info

    def _write_num_leases(self, f, num_leases):
        self._pending_n = num_leases

    def _truncate_leases(self, f, num_leases):
        new = []
        for i in range(num_leases):
            new.append(self._pending[i] if i in self._pending else self.leases[i])
        if self._pending_n != num_leases:
            self.bad = "lease count written to the header and truncation point disagree"
        self.leases = new
        self._pending = {}

    def unlink(self):
        self.deleted = True

    def cancel_lease(self, cancel_secret):
        self.cancel_calls.append(cancel_secret)
        if self.deleted:
            self.bad = "cancel_lease called on a share that was already unlinked"
        saved = (imm_mod.__dict__.get("open"), imm_mod.os)
        imm_mod.open = _fake_open
        imm_mod.os = _FakeStatOS(self.size)
        try:
            return imm_mod.ShareFile.cancel_lease(self, cancel_secret)
        finally:
            if saved[0] is None:
                del imm_mod.open
            else:
                imm_mod.open = saved[0]
            imm_mod.os = saved[1]


class MemMutable(mut_mod.MutableShareFile):
    bad = None

    def __init__(self, leases, size):
        self.home = "share-mut"
        self.slots = list(leases)          # blank slots hold owner_num == 0 records
        self.deleted = False
        self.size = size
        self.cancel_calls = []

    @property
    def leases(self):
        return [l for l in self.slots if l.owner_num != 0]

    def get_leases(self):
        return iter(self.leases)

    def _enumerate_leases(self, f):
        for i, l in enumerate(list(self.slots)):
            if l.owner_num != 0:
                yield i, l

    def _write_lease_record(self, f, lease_number, lease_info):
        self.slots[lease_number] = lease_info

    def unlink(self):
        self.deleted = True

    def cancel_lease(self, cancel_secret):
        self.cancel_calls.append(cancel_secret)
        if self.deleted:
            self.bad = "cancel_lease called on a share that was already unlinked"
        saved = (mut_mod.__dict__.get("open"), mut_mod.os)
        mut_mod.open = _fake_open
        mut_mod.os = _FakeStatOS(self.size)
        try:
            return mut_mod.MutableShareFile.cancel_lease(self, cancel_secret)
        finally:
            if saved[0] is None:
                del mut_mod.open
            else:
                mut_mod.open = saved[0]
            mut_mod.os = saved[1]


def _secret(kind, i):
    return (b"%s%d" % (kind, i)) + b"-" * 30


def _mk_share(mutable, expiries, size):
    leases = []
    for i, e in enumerate(expiries):
        leases.append(LeaseInfo(owner_num=1 + i, renew_secret=_secret(b"R", i), cancel_secret=_secret(b"C", i),
                                expiration_time=e, nodeid=b"n" * 20))
    return (MemMutable if mutable else MemImmutable)(leases, size)


# ---- crawler construction through the real constructor ------------------------------

class _MemHistory(object):
    def __init__(self, path):
        self.h = {}

    def load(self):
        return dict(self.h)

    def save(self, h):
        self.h = dict(h)


def _fake_sharecrawler_init(self, server, statefile, allowed_cpu_percentage=None):
    self.server = server
    self.state = {}
    self.add_initial_state()


expirer._HistorySerializer = _MemHistory
crawler_mod.ShareCrawler.__init__ = _fake_sharecrawler_init


def _mk_crawler(enabled, age_mode, override, cutoff, sharetypes, stat_result, ages):
    c = expirer.LeaseCheckingCrawler(NS(sharedir="shares"), "statefile", "historyfile", enabled,
                                     "age" if age_mode else "cutoff-date", override, cutoff, sharetypes)
    c.stat = lambda fn: stat_result
    c.add_lease_age_to_histogram = lambda age: ages.append(age)
    return c


# ---- the documented predicate ------------------------------------------------------

def _must_may_expire(age_mode, override, cutoff, expiry, t_first, t_last):
    """(must, may): the lease is expired at every / at some instant of [t_first, t_last]."""
    renewal = expiry - D31
    if age_mode:
        duration = D31 if override is None else override
        return (renewal + duration < t_first, renewal + duration < t_last)
    return (renewal < cutoff, renewal < cutoff)


def _counter_check(sr, a, sharetype, hit, sz, blk):
    other = "mutable" if sharetype == "immutable" else "immutable"
    want = 1 if hit else 0
    if sr[a + "-shares"] != want or sr[a + "-shares-" + sharetype] != want or sr[a + "-shares-" + other] != 0:
        return False
    if sr[a + "-sharebytes"] != want * sz or sr[a + "-sharebytes-" + sharetype] != want * sz:
        return False
    if sr[a + "-diskbytes"] != want * blk * 512 or sr[a + "-diskbytes-" + sharetype] != want * blk * 512:
        return False
    return True


def h_process_share(n: int, now: int, d1: int, d2: int, d3: int, e1: int, e2: int, e3: int,
                    age_mode: bool, has_override: bool, override: int, cutoff: int,
                    enabled: bool, mutable: bool, exp_imm: bool, exp_mut: bool, sz: int, blk: int) -> bool:
    """
    pre: B.get("n_min", 0) <= n <= B.get("n_max", 3)
    pre: e1 >= D31 and e2 >= D31 and e3 >= D31
    pre: now >= 0 and d1 >= 0 and d2 >= 0 and d3 >= 0
    pre: B.get("policy") is None or (age_mode, has_override) == [(True, False), (True, True), (False, False)][B["policy"]]
    pre: B.get("enabled") is None or enabled == B["enabled"]
    pre: B.get("other_type_symbolic", True) or (exp_imm if mutable else exp_mut)
    pre: sz >= 0 and blk >= 0
    post: _ == True
    """
    expiries = [e1, e2, e3][:n]
    steps = [d1, d2, d3]
    seq = [now]
    for i in range(3):
        seq.append(seq[-1] + steps[i])
    CLOCK.set(seq)
    ovr = override if has_override else None
    sharetypes = tuple((["immutable"] if exp_imm else []) + (["mutable"] if exp_mut else []))
    sharetype = "mutable" if mutable else "immutable"
    selected = exp_mut if mutable else exp_imm
    ages = []
    c = _mk_crawler(enabled, age_mode, ovr, cutoff, sharetypes, NS(st_size=sz, st_blocks=blk), ages)
    # what the constructor is documented to keep
    if age_mode:
        if c.override_lease_duration != ovr or c.cutoff_date is not None:
            return "constructor: age mode must keep the override and no cutoff"
    else:
        if c.cutoff_date != cutoff or c.override_lease_duration is not None:
            return "constructor: cutoff mode must keep the cutoff and ignore the override"
    sf = _mk_share(mutable, expiries, sz)
    before = list(sf.leases)
    saved = expirer.get_share_file
    expirer.get_share_file = lambda fn: sf
    try:
        wks = c.process_share("share-file")
    finally:
        expirer.get_share_file = saved
    if sf.bad:
        return sf.bad
    t_first = seq[0]
    t_last = seq[min(CLOCK.reads, len(seq)) - 1] if CLOCK.reads > 0 else seq[0]
    if CLOCK.reads != 1 + n:
        # one read for `now`, one per lease age: anything else changes the meaning of the window below
        return "unexpected number of clock reads"
    # lease ages handed to the statistics are measured from the renewal time
    if len(ages) != n:
        return "lease age not recorded once per lease"
    for i in range(n):
        if ages[i] != seq[1 + i] - (expiries[i] - D31):
            return "LeaseInfo.get_age() is not (clock - renewal time)"
        if before[i].get_grant_renew_time_time() != expiries[i] - D31 or before[i].get_expiration_time() != expiries[i]:
            return "renewal/expiration time accessors"
    cancelled = [False] * n
    for s in sf.cancel_calls:
        hit = False
        for i in range(n):
            if s == before[i].cancel_secret:
                if cancelled[i]:
                    return "a lease was cancelled twice"
                cancelled[i] = True
                hit = True
        if not hit:
            return "cancel_lease called with an unknown secret"
    all_cancelled = True
    all_must = True
    all_may = True
    for i in range(n):
        must, may = _must_may_expire(age_mode, ovr, cutoff, expiries[i], t_first, t_last)
        if not (enabled and selected):
            if cancelled[i]:
                return "lease cancelled although expiration is disabled or the share type is not selected"
        else:
            if cancelled[i] and not may:
                return "a lease that is not expired under the configured policy was cancelled"
            if must and not cancelled[i]:
                return "a lease that is expired under the configured policy was kept"
        all_cancelled = all_cancelled and cancelled[i]
        all_must = all_must and must
        all_may = all_may and may
    # the share container afterwards
    remaining = [before[i] for i in range(n) if not cancelled[i]]
    left = sf.leases
    if len(left) != len(remaining):
        return "leases left on the share are not exactly the non-expired ones"
    for i in range(len(left)):
        if left[i] is not remaining[i]:
            return "leases left on the share are not exactly the non-expired ones (order/identity)"
    if sf.deleted != (n >= 1 and all_cancelled):
        return "share unlinked iff all its leases were cancelled"
    if sf.deleted and not (enabled and selected and all_may):
        return "share deleted although a lease is not expired / expiry disabled / type not selected"
    if enabled and selected and n >= 1 and all_must and not sf.deleted:
        return "share with only expired leases was not deleted"
    # would-keep report: [original, configured, actual, sharetype]
    if len(wks) != 4 or wks[3] != sharetype:
        return "share type not reported"
    removable_cfg = (wks[1] == 0)
    if wks[1] not in (0, 1) or wks[2] not in (0, 1) or wks[0] not in (0, 1):
        return "would-keep flags are not 0/1"
    if n >= 1:
        if removable_cfg and not (selected and all_may):
            return "share reported removable although a lease is not expired or the type is not selected"
        if selected and all_must and not removable_cfg:
            return "share with only expired leases not reported removable"
        if enabled and selected and removable_cfg != all_cancelled:
            return "removable report and the cancelled leases disagree"
    else:
        if not removable_cfg:
            return "a share without leases must be reported removable"
    if (wks[2] == 0) != (enabled and removable_cfg):
        return "actual-removal flag must be (enabled and removable)"
    orig_all_expired = True
    for i in range(n):
        if expiries[i] > t_first:
            orig_all_expired = False
    if (wks[0] == 0) != orig_all_expired:
        return "original-expiry report wrong"
    # space-recovered counters
    sr = c.state["cycle-to-date"]["space-recovered"]
    if not _counter_check(sr, "examined", sharetype, True, sz, blk):
        return "examined-* counters"
    if not _counter_check(sr, "actual", sharetype, wks[2] == 0, sz, blk):
        return "actual-* counters"
    if not _counter_check(sr, "configured", sharetype, wks[1] == 0, sz, blk):
        return "configured-* counters"
    if not _counter_check(sr, "original", sharetype, wks[0] == 0, sz, blk):
        return "original-* counters"
    if c.state["cycle-to-date"]["leases-per-share-histogram"] != {str(n): 1}:
        return "leases-per-share histogram"
    return True


# ---- process_bucket: a bucket is reported/recovered iff all of its shares are --------------------

class _FakeOS(object):
    """stands in for `os` in storage.expirer during process_bucket"""
    import os as _real
    path = _real.path

    def __init__(self, names):
        self.names = names
        self.listed = []

    def listdir(self, d):
        self.listed.append(d)
        return list(self.names)


class _TwLog(object):
    def __init__(self):
        self.n = 0

    def msg(self, *a, **kw):
        self.n += 1

    def err(self, *a, **kw):
        self.n += 1


def h_process_bucket(now: int, d1: int, d2: int, d3: int, e1: int, e2: int,
                     age_mode: bool, has_override: bool, override: int, cutoff: int,
                     enabled: bool, mutable: bool, selected: bool, corrupt2: bool, sz: int, blk: int, dblk: int) -> bool:
    """
    pre: e1 >= D31 and e2 >= D31
    pre: now >= 0 and d1 >= 0 and d2 >= 0 and d3 >= 0
    pre: sz >= 0 and blk >= 0 and dblk >= 0
    pre: B.get("policy") is None or (age_mode, has_override) == [(True, False), (True, True), (False, False)][B["policy"]]
    post: _ == True
    """
    seq = [now, now + d1, now + d1 + d2, now + d1 + d2 + d3]
    CLOCK.set(seq)
    ovr = override if has_override else None
    sharetype = "mutable" if mutable else "immutable"
    other = "immutable" if mutable else "mutable"
    sharetypes = (sharetype, other) if selected else (other,)
    ages = []
    c = _mk_crawler(enabled, age_mode, ovr, cutoff, sharetypes, None, ages)
    bucketdir = "shares/aa/aabbb"
    stats = {bucketdir: NS(st_size=0, st_blocks=dblk)}
    c.stat = lambda fn: stats.get(fn) or NS(st_size=sz, st_blocks=blk)
    shares = {"shares/aa/aabbb/0": _mk_share(mutable, [e1], sz), "shares/aa/aabbb/7": _mk_share(mutable, [e2], sz)}
    opened = []

    def get_share_file(fn):
        opened.append(fn)
        if fn not in shares:
            raise hlib.HarnessError("process_bucket opened %r" % (fn,))
        if corrupt2 and fn.endswith("/7"):
            raise expirer.UnknownImmutableContainerVersionError(fn, 99)
        return shares[fn]
    fos = _FakeOS(["0", "7", "README"])
    saved = (expirer.get_share_file, expirer.os, expirer.twlog)
    expirer.get_share_file = get_share_file
    expirer.os = fos
    expirer.twlog = _TwLog()
    try:
        c.process_bucket(3, "aa", "shares/aa", "aabbb")
    finally:
        expirer.get_share_file, expirer.os, expirer.twlog = saved
    if fos.listed != [bucketdir] or opened != ["shares/aa/aabbb/0", "shares/aa/aabbb/7"]:
        return "did not examine exactly the numeric entries of the bucket directory"
    # share 0 reads clock index 0 (now) and 1 (age); share 7 (unless corrupt) index 2 and 3
    windows = [(seq[0], seq[1]), (seq[2], seq[3])]
    exps = [e1, e2]
    names = ["shares/aa/aabbb/0", "shares/aa/aabbb/7"]
    all_deleted = True
    all_must = True
    for j in range(2):
        sf = shares[names[j]]
        if sf.bad:
            return sf.bad
        if j == 1 and corrupt2:
            if sf.cancel_calls or sf.deleted:
                return "corrupt share touched"
            all_deleted = False
            all_must = False
            continue
        must, may = _must_may_expire(age_mode, ovr, cutoff, exps[j], windows[j][0], windows[j][1])
        if sf.deleted and not (enabled and selected and may):
            return "share deleted although not expired / disabled / type not selected"
        if enabled and selected and must and not sf.deleted:
            return "expired share not deleted"
        if sf.deleted != (len(sf.leases) == 0):
            return "share deleted iff no lease left"
        all_deleted = all_deleted and sf.deleted
        all_must = all_must and must
    st = c.state["cycle-to-date"]
    sr = st["space-recovered"]
    if corrupt2:
        if st["corrupt-shares"] != [["aabbb", 7]]:
            return "corrupt share not recorded"
    elif st["corrupt-shares"] != []:
        return "spurious corrupt-share record"
    if sr["examined-buckets"] != 1:
        return "examined-buckets"
    if sr["examined-shares"] != (1 if corrupt2 else 2):
        return "examined-shares"
    # the bucket counts as actually recovered iff every share in it was deleted
    if sr["actual-buckets"] != (1 if all_deleted else 0):
        return "actual-buckets must count the bucket iff all its shares were deleted"
    if sr["actual-shares"] != sum(1 for n in names if shares[n].deleted):
        return "actual-shares must equal the number of deleted shares"
    if all_deleted and sr["actual-diskbytes"] != 2 * blk * 512 + dblk * 512:
        return "actual-diskbytes of a fully recovered bucket"
    if selected and all_must and sr["configured-buckets"] != 1:
        return "configured-buckets: bucket with only expired shares not counted"
    if sr["configured-buckets"] == 1 and not enabled and (shares[names[0]].deleted or shares[names[1]].deleted):
        return "deleted while disabled"
    if enabled and (sr["configured-buckets"] == 1) != all_deleted:
        return "configured-buckets and deletions disagree while expiration is enabled"
    return True


# ---- configuration -> policy: client.py expire.* options reach the crawler with their documented meaning ----------

def _load_client_side():
    """imported lazily: allmydata.client pulls in most of the code base"""
    from allmydata import client as client_mod, node as node_mod
    from allmydata.storage import server as server_mod
    return client_mod, node_mod, server_mod


class _NullLog(object):
    UNUSUAL = 23

    def msg(self, *a, **kw):
        return 0

    def err(self, *a, **kw):
        return 0


class _UntracedConfig(object):
    """the real allmydata.node._Config (configparser underneath) on a concrete tahoe.cfg text; its methods run with CrossHair's
    tracing switched off (arguments and results are concrete strings; tracing configparser costs ~0.3 s per path)"""
    _cache = {}

    def __init__(self, client_mod, text):
        from crosshair.tracers import NoTracing
        self._nt = NoTracing
        with NoTracing():
            text = str(text)
            if text not in self._cache:
                self._cache[text] = client_mod.config_from_string("/nonexistent/basedir", "client.port", text)
            self._cfg = self._cache[text]

    def get_config(self, *a, **kw):
        with self._nt():
            return self._cfg.get_config(*a, **kw)

    def get_config_path(self, *a):
        with self._nt():
            return self._cfg.get_config_path(*a)


_BOOL = {1: "true", 2: "false"}
_MODES = {1: "age", 2: "cutoff-date", 3: "sometimes"}


def h_config_policy(en: int, md: int, ov: bool, cd: bool, imm: int, mut: int, override: int, cutoff: int,
                    now: int, d1: int, e1: int, mutable: bool) -> bool:
    """
    pre: 0 <= en <= 2 and 0 <= md <= 3 and 0 <= imm <= 2 and 0 <= mut <= 2
    pre: B.get("md") is None or md == B["md"]
    pre: B.get("ov") is None or ov == B["ov"]
    pre: B.get("explicit_true", True) or (imm != 1 and mut != 1)
    pre: e1 >= D31 and now >= 0 and d1 >= 0
    post: _ == True
    """
    client_mod, node_mod, server_mod = _load_client_side()
    lines = ["[storage]", "enabled = true"]
    if en:
        lines.append("expire.enabled = " + _BOOL[en])
    if md:
        lines.append("expire.mode = " + _MODES[md])
    if ov:
        lines.append("expire.override_lease_duration = 12 days")
    if cd:
        lines.append("expire.cutoff_date = 2009-01-16")
    if imm:
        lines.append("expire.immutable = " + _BOOL[imm])
    if mut:
        lines.append("expire.mutable = " + _BOOL[mut])
    cfg = _UntracedConfig(client_mod, "\n".join(lines) + "\n")
    parsed = []

    def parse_duration(s):
        parsed.append(("duration", s))
        return override

    def parse_date(s):
        parsed.append(("date", s))
        return cutoff

    class Crawler(expirer.LeaseCheckingCrawler):
        def setServiceParent(self, parent):
            self.harness_parent = parent

    class SS(server_mod.StorageServer):
        LeaseCheckerClass = Crawler

        def _clean_incomplete(self):
            pass

        def add_bucket_counter(self):
            pass

        def setServiceParent(self, parent):
            self.harness_parent = parent

    def no_service(name):
        raise KeyError(name)
    fake = NS(config=cfg, get_config=cfg.get_config, getServiceNamed=no_service, STOREDIR="storage",
              nodeid=b"n" * 20, stats_provider=None)
    saved = (client_mod.StorageServer, client_mod.parse_duration, client_mod.parse_date, server_mod.fileutil, server_mod.log)
    client_mod.StorageServer = SS
    client_mod.parse_duration = parse_duration
    client_mod.parse_date = parse_date
    server_mod.fileutil = NS(make_dirs=lambda d, mode=0o777: None)
    server_mod.log = _NullLog()
    err = None
    ss = None
    try:
        try:
            ss = client_mod._Client.get_anonymous_storage_server(fake)
        except (node_mod.MissingConfigEntry, ValueError) as e:
            err = e
    finally:
        (client_mod.StorageServer, client_mod.parse_duration, client_mod.parse_date, server_mod.fileutil, server_mod.log) = saved
    # --- what the documentation says about these options (docs/garbage-collection.rst) ---
    enabled = (en == 1)                       # default False
    if md == 0:
        mode = None if enabled else "age"     # "expire.mode = (string, required if expiration enabled)"
    else:
        mode = _MODES[md]
    must_fail = (mode is None) or (mode not in ("age", "cutoff-date")) or (mode == "cutoff-date" and not cd)
    if must_fail:
        if err is None:
            return "configuration without a usable expire.mode / cutoff date was accepted"
        return True
    if err is not None:
        return "valid configuration rejected"
    c = ss.lease_checker
    if ss.harness_parent is not fake or c.harness_parent is not ss:
        return "storage server / lease checker not attached to their parents"
    age_mode = (mode == "age")
    ovr = override if (ov and age_mode) else None
    want_types = tuple((["immutable"] if imm != 2 else []) + (["mutable"] if mut != 2 else []))
    if tuple(c.sharetypes_to_expire) != want_types:
        return "share types to expire differ from expire.immutable / expire.mutable"
    if ov and ("duration", "12 days") not in parsed:
        return "override duration string not parsed"
    if mode == "cutoff-date" and ("date", "2009-01-16") not in parsed:
        return "cutoff date string not parsed"
    # one share with one lease through process_share
    seq = [now, now + d1]
    CLOCK.set(seq)
    ages = []
    c.stat = lambda fn: NS(st_size=10, st_blocks=1)
    c.add_lease_age_to_histogram = lambda age: ages.append(age)
    sf = _mk_share(mutable, [e1], 10)
    saved_g = expirer.get_share_file
    expirer.get_share_file = lambda fn: sf
    try:
        c.process_share("share-file")
    finally:
        expirer.get_share_file = saved_g
    if sf.bad:
        return sf.bad
    selected = ("mutable" if mutable else "immutable") in want_types
    must, may = _must_may_expire(age_mode, ovr, cutoff, e1, seq[0], seq[1])
    if sf.deleted and not (enabled and selected and may):
        return "share deleted although expire.enabled is off / type not selected / lease not expired under the configured policy"
    if enabled and selected and must and not sf.deleted:
        return "expired share survived although expiration is enabled for its type"
    return True


# ---- expire.cutoff_date means midnight UTC at the beginning of that day, whatever the time zone of the process ------------

_TZS = ["UTC0", "PST8PDT", "XXX8", "JST-9", "IST-5:30", "NZX-13"]     # POSIX TZ strings (no tzdata needed)
CUTOFF_DAY = "2009-01-16"
CUTOFF_UTC = 1232064000          # 2009-01-16T00:00:00Z  (docs/garbage-collection.rst: "midnight UTC at the beginning of the given day")


def h_cutoff_date_tz(tz: int, now: int, d1: int, e1: int, mutable: bool) -> bool:
    """
    pre: 0 <= tz < len(_TZS)
    pre: e1 >= D31 and now >= 0 and d1 >= 0
    post: _ == True
    """
    import os
    import time as real_time
    client_mod, node_mod, server_mod = _load_client_side()
    real_parse_date = client_mod.parse_date
    cfg = _UntracedConfig(client_mod, "[storage]\nenabled = true\nexpire.enabled = true\nexpire.mode = cutoff-date\n"
                                      "expire.cutoff_date = %s\n" % CUTOFF_DAY)

    def parse_date(s):
        # the real allmydata.util.time_format.parse_date on the concrete string, with the process time zone set; tracing off
        from crosshair import NoTracing
        with NoTracing():
            old = os.environ.get("TZ")
            os.environ["TZ"] = _TZS[int(tz)]
            real_time.tzset()
            try:
                return real_parse_date(str(s))
            finally:
                if old is None:
                    del os.environ["TZ"]
                else:
                    os.environ["TZ"] = old
                real_time.tzset()

    class Crawler(expirer.LeaseCheckingCrawler):
        def setServiceParent(self, parent):
            self.harness_parent = parent

    class SS(server_mod.StorageServer):
        LeaseCheckerClass = Crawler

        def _clean_incomplete(self):
            pass

        def add_bucket_counter(self):
            pass

        def setServiceParent(self, parent):
            self.harness_parent = parent

    def no_service(name):
        raise KeyError(name)
    fake = NS(config=cfg, get_config=cfg.get_config, getServiceNamed=no_service, STOREDIR="storage",
              nodeid=b"n" * 20, stats_provider=None)
    saved = (client_mod.StorageServer, client_mod.parse_date, server_mod.fileutil, server_mod.log)
    client_mod.StorageServer = SS
    client_mod.parse_date = parse_date
    server_mod.fileutil = NS(make_dirs=lambda d, mode=0o777: None)
    server_mod.log = _NullLog()
    try:
        ss = client_mod._Client.get_anonymous_storage_server(fake)
    finally:
        (client_mod.StorageServer, client_mod.parse_date, server_mod.fileutil, server_mod.log) = saved
    c = ss.lease_checker
    if c.cutoff_date != CUTOFF_UTC:
        return "expire.cutoff_date = %s became %r seconds (UTC midnight is %d) with TZ=%s" % (CUTOFF_DAY, c.cutoff_date, CUTOFF_UTC, _TZS[tz])
    seq = [now, now + d1]
    CLOCK.set(seq)
    c.stat = lambda fn: NS(st_size=10, st_blocks=1)
    c.add_lease_age_to_histogram = lambda age: None
    sf = _mk_share(mutable, [e1], 10)
    saved_g = expirer.get_share_file
    expirer.get_share_file = lambda fn: sf
    try:
        c.process_share("share-file")
    finally:
        expirer.get_share_file = saved_g
    if sf.bad:
        return sf.bad
    if sf.deleted != (e1 - D31 < CUTOFF_UTC):
        return "share %s although its lease was last renewed %s midnight UTC of the cutoff day" % (
            ("deleted", "after") if sf.deleted else ("kept", "before"))
    return True
