"""
C26 — garbage collection deletes exactly the expired shares.

The real LeaseCheckingCrawler (constructor, process_share, process_bucket, increment_space/...)
and the real lease objects (LeaseInfo.get_expiration_time / get_grant_renew_time_time / get_age)
and the real cancel_lease logic of ShareFile / MutableShareFile are executed; disk I/O primitives of
the share containers are replaced by in-memory ones; the clock is a harness-owned monotone sequence
of symbolic integers.

The oracle is the documented predicate of docs/garbage-collection.rst, written independently:
   age mode    : lease expired  <=>  renewal + duration < now   (duration = 31 days, or the override)
   cutoff mode : lease expired  <=>  renewal < cutoff
   renewal     :=  expiration_time - 31 days   (all leases are granted for 31 days)
Since the code reads the clock several times while it walks the leases, "now" is any instant of the
window [first clock read, last clock read] (with a standing clock this is an exact iff).
"""
from vlib import hlib
from vlib.hlib import NS, assume
hlib.ensure_shims()
from allmydata.storage import expirer, crawler as crawler_mod, lease as lease_mod
from allmydata.storage import immutable as imm_mod, mutable as mut_mod
from allmydata.storage.lease import LeaseInfo

B = hlib.bounds()
DAY = 24 * 60 * 60
D31 = 31 * DAY

NOTES = [
    "time.time in storage.expirer and storage.lease replaced by a harness clock: successive reads return "
    "now, now+d1, now+d1+d2, ... with symbolic non-negative integer steps (integer-valued clock)",
    "expirer.get_share_file returns an in-memory share object: a subclass of the real ShareFile / MutableShareFile whose "
    "disk primitives (open, get_leases/_enumerate_leases, _write_lease_record, _write_num_leases, _truncate_leases, os.stat, unlink) "
    "work on a Python list of real LeaseInfo objects; cancel_lease itself is the real method",
    "LeaseCheckingCrawler.add_lease_age_to_histogram replaced by a recorder (float bucket arithmetic; statistics only)",
    "LeaseCheckingCrawler.stat replaced by a stub returning symbolic st_size / st_blocks",
    "ShareCrawler.__init__ (twisted service set-up, state file) replaced by: self.state = {}; self.add_initial_state(); "
    "_HistorySerializer replaced by an in-memory object",
    "cancel secrets of the leases of one share are pairwise distinct tokens",
]
hlib.encoded(expirer.LeaseCheckingCrawler.__init__, expirer.LeaseCheckingCrawler.process_share,
             expirer.LeaseCheckingCrawler.process_bucket,
             expirer.LeaseCheckingCrawler.increment_space, expirer.LeaseCheckingCrawler.increment_bucketspace,
             expirer.LeaseCheckingCrawler.increment, expirer.LeaseCheckingCrawler.add_initial_state,
             expirer.LeaseCheckingCrawler.create_empty_cycle_dict, expirer.LeaseCheckingCrawler.create_empty_recovered_dict,
             LeaseInfo.get_expiration_time, LeaseInfo.get_grant_renew_time_time, LeaseInfo.get_age,
             LeaseInfo.is_cancel_secret,
             imm_mod.ShareFile.cancel_lease, mut_mod.MutableShareFile.cancel_lease)


# ---- clock -------------------------------------------------------------------

class _Clock(object):
    def __init__(self):
        self.seq = [0]
        self.reads = 0

    def set(self, seq):
        self.seq = list(seq)
        self.reads = 0

    def time(self):
        i = self.reads
        self.reads = i + 1
        if i < len(self.seq):
            return self.seq[i]
        return self.seq[-1]


CLOCK = _Clock()
expirer.time = CLOCK
lease_mod.time = CLOCK


# ---- in-memory share containers (real cancel_lease on top) ------------------------

class _F(object):
    """what `open(home, 'rb+')` returns: only a context manager; all I/O goes through the overridden primitives"""

    def __enter__(self):
        return self

    def __exit__(self, *a):
        return False

    def close(self):
        pass


def _fake_open(name, mode="r"):
    return _F()


class _FakeStatOS(object):
    """stands in for the `os` name in storage.immutable / storage.mutable while cancel_lease runs"""

    def __init__(self, size):
        self.size = size

    def stat(self, fn):
        # indexable like os.stat_result: [stat.ST_SIZE] == index 6
        return [0, 0, 0, 0, 0, 0, self.size, 0, 0, 0]


class MemImmutable(imm_mod.ShareFile):
    def __init__(self, leases, size):
        self.home = "share-imm"
        self.leases = list(leases)
        self.deleted = False
        self.size = size
        self.cancel_calls = []
        self._pending = {}

    def get_leases(self):
        return iter(list(self.leases))

    def _write_lease_record(self, f, lease_number, lease_info):
        self._pending[lease_number] = lease_info

    def _write_num_leases(self, f, num_leases):
        self._pending_n = num_leases

    def _truncate_leases(self, f, num_leases):
        new = []
        for i in range(num_leases):
            new.append(self._pending[i] if i in self._pending else self.leases[i])
        if self._pending_n != num_leases:
            raise hlib.HarnessError("lease count and truncation disagree")
        self.leases = new
        self._pending = {}

    def unlink(self):
        self.deleted = True

    def cancel_lease(self, cancel_secret):
        self.cancel_calls.append(cancel_secret)
        if self.deleted:
            raise hlib.HarnessError("cancel_lease on a deleted share")
        saved = (imm_mod.__dict__.get("open"), imm_mod.os)
        imm_mod.open = _fake_open
        imm_mod.os = _FakeStatOS(self.size)
        try:
            return imm_mod.ShareFile.cancel_lease(self, cancel_secret)
        finally:
            if saved[0] is None:
                del imm_mod.open
            else:
                imm_mod.open = saved[0]
            imm_mod.os = saved[1]


class MemMutable(mut_mod.MutableShareFile):
    def __init__(self, leases, size):
        self.home = "share-mut"
        self.slots = list(leases)          # blank slots hold owner_num == 0 records
        self.deleted = False
        self.size = size
        self.cancel_calls = []

    @property
    def leases(self):
        return [l for l in self.slots if l.owner_num != 0]

    def get_leases(self):
        return iter(self.leases)

    def _enumerate_leases(self, f):
        for i, l in enumerate(list(self.slots)):
            if l.owner_num != 0:
                yield i, l

    def _write_lease_record(self, f, lease_number, lease_info):
        self.slots[lease_number] = lease_info

    def unlink(self):
        self.deleted = True

    def cancel_lease(self, cancel_secret):
        self.cancel_calls.append(cancel_secret)
        if self.deleted:
            raise hlib.HarnessError("cancel_lease on a deleted share")
        saved = (mut_mod.__dict__.get("open"), mut_mod.os)
        mut_mod.open = _fake_open
        mut_mod.os = _FakeStatOS(self.size)
        try:
            return mut_mod.MutableShareFile.cancel_lease(self, cancel_secret)
        finally:
            if saved[0] is None:
                del mut_mod.open
            else:
                mut_mod.open = saved[0]
            mut_mod.os = saved[1]


def _secret(kind, i):
    return (b"%s%d" % (kind, i)) + b"-" * 30


def _mk_share(mutable, expiries, size):
    leases = []
    for i, e in enumerate(expiries):
        leases.append(LeaseInfo(owner_num=1 + i, renew_secret=_secret(b"R", i), cancel_secret=_secret(b"C", i),
                                expiration_time=e, nodeid=b"n" * 20))
    return (MemMutable if mutable else MemImmutable)(leases, size)


# ---- crawler construction through the real constructor ------------------------------

class _MemHistory(object):
    def __init__(self, path):
        self.h = {}

    def load(self):
        return dict(self.h)

    def save(self, h):
        self.h = dict(h)


def _fake_sharecrawler_init(self, server, statefile, allowed_cpu_percentage=None):
    self.server = server
    self.state = {}
    self.add_initial_state()


expirer._HistorySerializer = _MemHistory
crawler_mod.ShareCrawler.__init__ = _fake_sharecrawler_init


def _mk_crawler(enabled, age_mode, override, cutoff, sharetypes, stat_result, ages):
    c = expirer.LeaseCheckingCrawler(NS(sharedir="shares"), "statefile", "historyfile", enabled,
                                     "age" if age_mode else "cutoff-date", override, cutoff, sharetypes)
    c.stat = lambda fn: stat_result
    c.add_lease_age_to_histogram = lambda age: ages.append(age)
    return c


# ---- the documented predicate ------------------------------------------------------

def _must_may_expire(age_mode, override, cutoff, expiry, t_first, t_last):
    """(must, may): the lease is expired at every / at some instant of [t_first, t_last]."""
    renewal = expiry - D31
    if age_mode:
        duration = D31 if override is None else override
        return (renewal + duration < t_first, renewal + duration < t_last)
    return (renewal < cutoff, renewal < cutoff)


def _counter_check(sr, a, sharetype, hit, sz, blk):
    other = "mutable" if sharetype == "immutable" else "immutable"
    want = 1 if hit else 0
    if sr[a + "-shares"] != want or sr[a + "-shares-" + sharetype] != want or sr[a + "-shares-" + other] != 0:
        return False
    if sr[a + "-sharebytes"] != want * sz or sr[a + "-sharebytes-" + sharetype] != want * sz:
        return False
    if sr[a + "-diskbytes"] != want * blk * 512 or sr[a + "-diskbytes-" + sharetype] != want * blk * 512:
        return False
    return True


def h_process_share(n: int, now: int, d1: int, d2: int, d3: int, e1: int, e2: int, e3: int,
                    age_mode: bool, has_override: bool, override: int, cutoff: int,
                    enabled: bool, mutable: bool, exp_imm: bool, exp_mut: bool, sz: int, blk: int) -> bool:
    """
    pre: 0 <= n <= B.get("n_max", 3)
    pre: e1 >= D31 and e2 >= D31 and e3 >= D31
    pre: now >= 0 and d1 >= 0 and d2 >= 0 and d3 >= 0
    pre: B.get("policy") is None or (age_mode, has_override) == [(True, False), (True, True), (False, False)][B["policy"]]
    pre: B.get("enabled") is None or enabled == B["enabled"]
    pre: B.get("other_type_symbolic", True) or (exp_imm if mutable else exp_mut)
    pre: sz >= 0 and blk >= 0
    post: _ == True
    """
    expiries = [e1, e2, e3][:n]
    steps = [d1, d2, d3]
    seq = [now]
    for i in range(3):
        seq.append(seq[-1] + steps[i])
    CLOCK.set(seq)
    ovr = override if has_override else None
    sharetypes = tuple((["immutable"] if exp_imm else []) + (["mutable"] if exp_mut else []))
    sharetype = "mutable" if mutable else "immutable"
    selected = exp_mut if mutable else exp_imm
    ages = []
    c = _mk_crawler(enabled, age_mode, ovr, cutoff, sharetypes, NS(st_size=sz, st_blocks=blk), ages)
    # what the constructor is documented to keep
    if age_mode:
        if c.override_lease_duration != ovr or c.cutoff_date is not None:
            return "constructor: age mode must keep the override and no cutoff"
    else:
        if c.cutoff_date != cutoff or c.override_lease_duration is not None:
            return "constructor: cutoff mode must keep the cutoff and ignore the override"
    sf = _mk_share(mutable, expiries, sz)
    before = list(sf.leases)
    saved = expirer.get_share_file
    expirer.get_share_file = lambda fn: sf
    try:
        wks = c.process_share("share-file")
    finally:
        expirer.get_share_file = saved
    t_first = seq[0]
    t_last = seq[min(CLOCK.reads, len(seq)) - 1] if CLOCK.reads > 0 else seq[0]
    if CLOCK.reads != 1 + n:
        # one read for `now`, one per lease age: anything else changes the meaning of the window below
        return "unexpected number of clock reads"
    # lease ages handed to the statistics are measured from the renewal time
    if len(ages) != n:
        return "lease age not recorded once per lease"
    for i in range(n):
        if ages[i] != seq[1 + i] - (expiries[i] - D31):
            return "LeaseInfo.get_age() is not (clock - renewal time)"
        if before[i].get_grant_renew_time_time() != expiries[i] - D31 or before[i].get_expiration_time() != expiries[i]:
            return "renewal/expiration time accessors"
    cancelled = [False] * n
    for s in sf.cancel_calls:
        hit = False
        for i in range(n):
            if s == before[i].cancel_secret:
                if cancelled[i]:
                    return "a lease was cancelled twice"
                cancelled[i] = True
                hit = True
        if not hit:
            return "cancel_lease called with an unknown secret"
    all_cancelled = True
    all_must = True
    all_may = True
    for i in range(n):
        must, may = _must_may_expire(age_mode, ovr, cutoff, expiries[i], t_first, t_last)
        if not (enabled and selected):
            if cancelled[i]:
                return "lease cancelled although expiration is disabled or the share type is not selected"
        else:
            if cancelled[i] and not may:
                return "a lease that is not expired under the configured policy was cancelled"
            if must and not cancelled[i]:
                return "a lease that is expired under the configured policy was kept"
        all_cancelled = all_cancelled and cancelled[i]
        all_must = all_must and must
        all_may = all_may and may
    # the share container afterwards
    remaining = [before[i] for i in range(n) if not cancelled[i]]
    left = sf.leases
    if len(left) != len(remaining):
        return "leases left on the share are not exactly the non-expired ones"
    for i in range(len(left)):
        if left[i] is not remaining[i]:
            return "leases left on the share are not exactly the non-expired ones (order/identity)"
    if sf.deleted != (n >= 1 and all_cancelled):
        return "share unlinked iff all its leases were cancelled"
    if sf.deleted and not (enabled and selected and all_may):
        return "share deleted although a lease is not expired / expiry disabled / type not selected"
    if enabled and selected and n >= 1 and all_must and not sf.deleted:
        return "share with only expired leases was not deleted"
    # would-keep report: [original, configured, actual, sharetype]
    if len(wks) != 4 or wks[3] != sharetype:
        return "share type not reported"
    removable_cfg = (wks[1] == 0)
    if wks[1] not in (0, 1) or wks[2] not in (0, 1) or wks[0] not in (0, 1):
        return "would-keep flags are not 0/1"
    if n >= 1:
        if removable_cfg and not (selected and all_may):
            return "share reported removable although a lease is not expired or the type is not selected"
        if selected and all_must and not removable_cfg:
            return "share with only expired leases not reported removable"
        if enabled and selected and removable_cfg != all_cancelled:
            return "removable report and the cancelled leases disagree"
    else:
        if not removable_cfg:
            return "a share without leases must be reported removable"
    if (wks[2] == 0) != (enabled and removable_cfg):
        return "actual-removal flag must be (enabled and removable)"
    orig_all_expired = True
    for i in range(n):
        if expiries[i] > t_first:
            orig_all_expired = False
    if (wks[0] == 0) != orig_all_expired:
        return "original-expiry report wrong"
    # space-recovered counters
    sr = c.state["cycle-to-date"]["space-recovered"]
    if not _counter_check(sr, "examined", sharetype, True, sz, blk):
        return "examined-* counters"
    if not _counter_check(sr, "actual", sharetype, wks[2] == 0, sz, blk):
        return "actual-* counters"
    if not _counter_check(sr, "configured", sharetype, wks[1] == 0, sz, blk):
        return "configured-* counters"
    if not _counter_check(sr, "original", sharetype, wks[0] == 0, sz, blk):
        return "original-* counters"
    if c.state["cycle-to-date"]["leases-per-share-histogram"] != {str(n): 1}:
        return "leases-per-share histogram"
    return True
