"""
C15 — capability strings round-trip and parse canonically.  Direct z3 (cvc5 cross-check in the
thorough tier) over the language model that `_capmodel` generates from the live `allmydata.uri`
objects.  Called from props/C15.py (pyob obligations).
"""
import sys
import time

import z3

from vlib import hlib
hlib.ensure_shims()
import _rx
import _capmodel as cm
from _rx import py2z, z2py

from allmydata import uri
from allmydata.util import base32

NOTES = [
    "regexes: live compiled STRING_RE/BASE_STRING_RE objects translated by harness/_rx.py (validated against re on a corpus each run)",
    "field flow group->ctor->attribute->format slot read from the ASTs of init_from_string/__init__/to_string",
    "_DirectoryBaseURI.init_from_string/to_string splice: hand model (validated on the corpus each run)",
    "base32 a2b->b2a and int()->%d are ideal models (identity exactly on canonical strings)",
]


def _setup(ctx, level="full"):
    t0 = time.time()
    files, dirs, models, chain = cm.build()
    n = cm.validate_all(models, chain, level)
    return files, dirs, models, chain, {"validation_comparisons": n, "validation_s": round(time.time() - t0, 2)}


def _select(ctx, files, dirs):
    which = ctx["bounds"].get("family", "all")
    ms = []
    if which in ("files", "all"):
        ms += list(files.values())
    if which in ("dirs", "all"):
        ms += list(dirs.values())
    only = ctx["bounds"].get("classes")
    if only:
        ms = [m for m in ms if m.name in only]
    return ms


class Q(object):
    """query bookkeeping for one obligation"""

    def __init__(self, ctx):
        self.ctx = ctx
        self.n = 0
        self.t = 0.0
        self.unknown = []
        self.cross = []
        self.timeout_ms = int(ctx["bounds"].get("query_timeout_ms", 60000))
        self.cvc5 = bool(ctx["bounds"].get("cvc5", False))

    def check(self, assertions, label):
        sol = _rx.new_solver(self.ctx.get("seed", 0), self.timeout_ms)
        for a in assertions:
            sol.add(a)
        t = time.perf_counter()
        r = sol.check()
        self.t += time.perf_counter() - t
        self.n += 1
        if r == z3.unknown:
            self.unknown.append(label)
            return "unknown", None
        if self.cvc5:
            c = _rx.cvc5_check(assertions, int(self.ctx["bounds"].get("cvc5_timeout_ms", 10000)))
            self.cross.append((label, str(r), c))
            if c in ("sat", "unsat") and c != str(r):
                self.unknown.append(label + " (z3 %s / cvc5 %s)" % (r, c))
                return "unknown", None
        return str(r), (sol.model() if r == z3.sat else None)

    def finish(self, res):
        res.setdefault("queries", self.n)
        res["solver_s"] = round(self.t, 3)
        if self.cross:
            res.setdefault("info", {})["cvc5_cross_check"] = {
                "queries": len(self.cross), "agree": sum(1 for (_, a, b) in self.cross if a == b),
                "cvc5_unknown_or_unavailable": sorted(set(b for (_, a, b) in self.cross if b not in ("sat", "unsat")))[:4]}
        if self.unknown and res.get("status") == "discharged":
            res["status"] = "inconclusive"
            res["detail"] = "solver returned unknown / solvers disagree on: %s" % (self.unknown[:6],)
        res["functions_encoded"] = dict(hlib.ENCODED)
        res["notes"] = list(dict.fromkeys(hlib.NOTES + NOTES))
        return res


def _is_mdmf(m):
    return py2z(m.base) in cm.MDMF_KINDS


REPLAY_HEAD = '''#!/verif/.venv/bin/python
# Replay of a solver model against the real allmydata.uri (no solver involved).
# exit 1 = violation reproduces, 0 = property holds on this input, 3 = replay could not be set up
import os, sys, base64, traceback
def _hook(*a):
    traceback.print_exception(*a); sys.stdout.flush(); sys.stderr.flush(); os._exit(3)
sys.excepthook = _hook
sys.path[:0] = ["/verif"]
from vlib import hlib
hlib.ensure_shims()
from allmydata import uri
from allmydata.util import base32
MDMF = %r
W = %r
print("witness:", W if len(W) < 300 else W[:150] + b"..." + W[-40:], "(%%d bytes)" %% len(W))
'''

REPLAY_CANON = REPLAY_HEAD + '''
try:
    r = uri.from_string(W)
except Exception as e:
    print("from_string raised", repr(e)); sys.exit(1)
if isinstance(r, uri.UnknownURI):
    print("reported as unknown: no violation"); sys.exit(0)
t = r.to_string()
print("parsed as", type(r).__name__, "re-serialised as", t)
if t == W:
    sys.exit(0)
if any(W.startswith(k.encode()) for k in MDMF) and W.startswith(t + b":"):
    print("differs only by an MDMF extension field (allowed)"); sys.exit(0)
print("VIOLATION: accepted as a known kind but does not re-serialise to itself"); sys.exit(1)
'''


def classify_canon(w):
    """narrow class of a canonicality witness (bytes)"""
    if w.endswith(b"\n"):
        return "trailing-newline"
    import re as _re
    for f in w.split(b":")[2:]:
        if _re.fullmatch(rb"0[0-9]+", f):
            return "leading-zero-number"
    return "other"


def _file_of(m):
    return m.inner if isinstance(m, cm.DirModel) else m


def _whole(m, inner_string):
    """string of class m corresponding to the inner file-cap string"""
    if isinstance(m, cm.DirModel):
        ib = py2z(m.inner.base)
        if not inner_string.startswith(ib):
            raise hlib.HarnessError("inner string %r does not start with %r" % (inner_string, ib))
        return py2z(m.base) + inner_string[len(ib):]
    return inner_string


def _sample(q, L, label, prefer=None):
    """a concrete member of regex L (solver model); prefer: a sub-language to try first"""
    x = z3.String("x_sample")
    if prefer is not None:
        r, mod = q.check([z3.InRe(x, L), z3.InRe(x, prefer)], label + ":sample")
        if r == "sat":
            return z2py(mod[x], False)
    r, mod = q.check([z3.InRe(x, L)], label + ":sample")
    if r != "sat":
        return None
    return z2py(mod[x], False)


def _compose(q, f, v, override, label):
    """whole inner string of variant v: literals + a canonical sample of every other piece, with overrides
    {piece index or 'tail' or 'pre': text}"""
    P = f.parse_pieces(v)
    out = [override.get("pre", "")]
    for i, p in enumerate(P):
        if i in override:
            out.append(override[i])
        elif p[0] == "lit":
            out.append(p[1])
        else:
            L = p[2] if p[0] == "grp" else p[1]
            pref = None
            if p[0] == "grp":
                js = [j for j, (k, g, a) in enumerate(f.slots) if g == p[1]]
                if js:
                    pref = f.slot_canon_lang(js[0])
            smp = "" if _rx.member("", L) and p[0] != "grp" else _sample(q, L, "%s:piece%d" % (label, i), pref)
            if smp is None:
                raise hlib.HarnessError("%s: piece %d of the regex has an empty language" % (label, i))
            out.append(smp)
    suf = f.rx._suf(f.method, v.end)
    out.append("" if suf is None or _rx.member("", suf) else (_sample(q, suf, label + ":suf") or ""))
    return "".join(out)


def _dir_structure(q, m, per):
    """directory wrapper: the two live patterns behave as '^' + literal (solver-decided language equalities);
    returns None if fine, else a reason"""
    x = z3.String("x_dir")
    S = _rx.sigma_star(True)
    for (rx, mode, base, what) in ((m.base_rx, m.base_method, m.base, "BASE_STRING_RE.%s" % m.base_method),
                                   (m.inner_base_rx, "match", m.inner.base, "re.match(INNER.BASE_STRING, ...)")):
        v = rx.variants
        lit = py2z(base)
        if not (len(v) == 1 and v[0].end is None and len(v[0].segs) == 1 and v[0].segs[0].lit == lit):
            return "%s is not the literal %r" % (what, lit)
        want = _rx.cat(_rx.lit_re(lit), S)
        L = rx.lang(mode)
        r1, _ = q.check([z3.InRe(x, L), z3.Not(z3.InRe(x, want))], "%s:%s<=" % (m.name, what))
        r2, _ = q.check([z3.InRe(x, want), z3.Not(z3.InRe(x, L))], "%s:%s>=" % (m.name, what))
        if r1 != "unsat" or r2 != "unsat":
            return "%s does not accept exactly %r + anything (%s/%s)" % (what, lit, r1, r2)
    f = m.inner
    ib = py2z(f.base)
    if not f.rx.anchored_start or f.method not in ("search", "match", "fullmatch"):
        return "inner regex is not anchored at the start"
    for v in f.rx.variants:
        P = f.parse_pieces(v)
        if not (P and P[0][0] == "lit" and P[0][1].startswith(ib)):
            return "inner regex does not start with INNER.BASE_STRING"
    if not f.fmt_lits[0].startswith(ib):
        return "inner to_string does not start with INNER.BASE_STRING"
    return None


def _wordeq_witness(q, m, label):
    """fallback when the regex and the print template do not align piece by piece: look for a
    counterexample of s == to_string(parse(s)) with the word-equation encoding"""
    s = z3.String("s")
    alts = m.parse_sym(s, "p")
    bad = []
    for i, (c, groups, suf, v) in enumerate(alts):
        rc, out = m.reprint_sym(groups, "r%d" % i)
        allowed = (s == out)
        if _is_mdmf(m):
            allowed = z3.Or(allowed, z3.PrefixOf(z3.Concat(out, z3.StringVal(":")), s))
        bad.append(z3.And(c, *(rc + [z3.Not(allowed)])))
    r, mod = q.check([_rx.in_alphabet(s, True), z3.Or(*bad)], label + ":word-equation")
    return r, (z2py(mod[s], True) if r == "sat" else None)


def _misaligned_witness(q, m):
    """regex and print template do not align: take solver samples of every regex piece (pairwise different values
    for the groups), evaluate the extracted print template on them, and return the string if it does not print back
    to itself (the replay on the real code is what confirms it)."""
    f = _file_of(m)
    x = z3.String("x")
    for v in f.rx.variants:
        P = f.parse_pieces(v)
        vals = {}
        out = []
        used = []
        for i, p in enumerate(P):
            if p[0] == "lit":
                out.append(p[1])
                continue
            L = p[2] if p[0] == "grp" else p[1]
            cons = [z3.InRe(x, L)] + [x != z3.StringVal(u) for u in used]
            js = [j for j, (k, g, a) in enumerate(f.slots) if p[0] == "grp" and g == p[1]]
            r, mod = q.check(cons + ([z3.InRe(x, f.slot_canon_lang(js[0])), z3.Length(x) > 0] if js else []), "%s:distinct-sample%d" % (m.name, i))
            if r != "sat":
                r, mod = q.check(cons, "%s:distinct-sample%d'" % (m.name, i))
            if r != "sat":
                r, mod = q.check([z3.InRe(x, L)], "%s:sample%d" % (m.name, i))
            if r != "sat":
                return None
            val = z2py(mod[x], False)
            used.append(val)
            if p[0] == "grp":
                vals[p[1]] = val
            out.append(val)
        inner_s = "".join(out)
        try:
            printed = f.fmt_lits[0] + "".join(vals[g] + f.fmt_lits[j + 1] for j, (k, g, a) in enumerate(f.slots))
        except KeyError:
            continue
        if printed != inner_s and not (_is_mdmf(m) and inner_s.startswith(printed + ":")):
            try:
                return _whole(m, inner_s)
            except hlib.HarnessError:
                continue
    return None


def guarded(f):
    """a canonicality violation met on the validation corpus (the real parser accepts a string the extracted model does not, and it
    does not print back to itself) is reported as a violation with a replay, not as a modelling error"""
    def run(ctx):
        try:
            return f(ctx)
        except cm.RealCodeViolation as e:
            q = Q(ctx)
            return q.finish({"status": "violated", "nonvacuous": True, "witness_class": classify_canon(e.w), "model": repr(e.w),
                             "call": "uri.from_string(%r).to_string()" % (e.w,), "replay_src": REPLAY_CANON % (cm.MDMF_KINDS, e.w),
                             "info": {"found": "while comparing the extracted model with the real from_string on the corpus", "what": e.what}})
    run.__name__ = f.__name__
    run.__doc__ = f.__doc__
    return run


@guarded
def ob_canonical(ctx):
    files, dirs, models, chain, info = _setup(ctx, "rx")
    q = Q(ctx)
    known = list(ctx.get("known") or [])
    res = {"status": "discharged", "nonvacuous": True, "known_hits": [], "info": info}
    per = {}
    res["info"]["per_class"] = per

    def violated(m, w, extra=""):
        wb = w.encode("latin-1")
        res.update(status="violated", witness_class=classify_canon(wb), model=repr(wb),
                   call="uri.from_string(%r).to_string()" % (wb,), replay_src=REPLAY_CANON % (cm.MDMF_KINDS, wb))
        per[m.name] = "VIOLATED " + extra
        return q.finish(res)

    for m in _select(ctx, files, dirs):
        f = _file_of(m)
        notes = []
        why = _dir_structure(q, m, per) if isinstance(m, cm.DirModel) else None
        aligned = []
        if why is None:
            for v in f.rx.variants:
                (ok, slots, tail, reason) = f.align(v)
                if not ok:
                    why = reason
                    break
                aligned.append((v, slots, tail))
        if why is not None:
            w = _misaligned_witness(q, m)
            if w is not None:
                return violated(m, w, "(not aligned: %s)" % why)
            r, w = _wordeq_witness(q, m, m.name)
            if r == "sat":
                return violated(m, py2z(w), "(not aligned: %s)" % why)
            per[m.name] = "regex and to_string do not align (%s); word-equation search: %s" % (why, r)
            if r != "unsat":
                q.unknown.append(m.name + ":not-aligned")
            continue
        # non-vacuity: a composed sample is accepted by the real parser as this class and is canonical there
        w0 = _whole(m, _compose(q, f, aligned[0][0], {}, m.name))
        real0 = uri.from_string(w0.encode("latin-1"))
        if type(real0).__name__ != m.name:
            # the class itself accepts the string (replay checks that) but from_string reports another kind / unknown
            res.update(status="violated", witness_class="dispatch", model=repr(w0.encode("latin-1")),
                       call="uri.from_string(%r)" % (w0.encode("latin-1"),),
                       replay_src=REPLAY_DISPATCH % (cm.MDMF_KINDS, w0.encode("latin-1"), m.name))
            per[m.name] = "VIOLATED: in-grammar string is reported as %s" % type(real0).__name__
            return q.finish(res)
        x = z3.String("x")
        pre = f.pre_lang()
        if pre is not None:
            r, mod = q.check([z3.InRe(x, pre), x != z3.StringVal("")], m.name + ":leading-junk")
            if r == "sat":
                r2, mod2 = q.check([z3.InRe(x, pre), z3.PrefixOf(z3.StringVal(py2z(m.base)), x)], m.name + ":leading-junk-routed")
                junk = z2py((mod2 if r2 == "sat" else mod)[x], False)
                return violated(m, junk + (w0 if not isinstance(m, cm.DirModel) else w0), "(unanchored start)")
            notes.append("pre=%s" % r)
        allowed_tail = _rx.eps()
        if _is_mdmf(m):
            allowed_tail = _rx.alt(_rx.eps(), _rx.cat(_rx.lit_re(":"), _rx.sigma_star(True)))
        for vi, (v, slots, tail) in enumerate(aligned):
            P = f.parse_pieces(v)
            T = f.template()
            for j, G in sorted(slots.items()):
                excl = []
                while True:
                    r, mod = q.check([z3.InRe(x, G), z3.Not(z3.InRe(x, f.slot_canon_lang(j)))] + excl,
                                     "%s:v%d:slot%d-canonical" % (m.name, vi, j))
                    if r != "sat":
                        break
                    gval = z2py(mod[x], False)
                    pi = [i for i, p in enumerate(P) if p[0] == "grp" and p[1] == f.slots[j][1]][0]
                    w = _whole(m, _compose(q, f, v, {pi: gval}, m.name))
                    cls = classify_canon(w.encode("latin-1"))
                    if cls == "leading-zero-number" and cls in known and not excl:
                        res["known_hits"].append({"class": cls, "witness": repr(w.encode("latin-1")), "kind": m.name})
                        excl = [z3.Not(z3.InRe(x, _rx.cat(_rx.lit_re("0"), z3.Plus(cm._digits("0", "9")))))]
                        continue
                    return violated(m, w, "(group %d of the regex admits a non-canonical %s field)" % (f.slots[j][1], f.slots[j][0]))
                if r == "unknown":
                    notes.append("slot%d unknown" % j)
            excl = []
            while True:
                r, mod = q.check([z3.InRe(x, tail), z3.Not(z3.InRe(x, allowed_tail))] + excl, "%s:v%d:tail" % (m.name, vi))
                if r != "sat":
                    break
                tval = z2py(mod[x], False)
                w_inner = _compose_head(q, f, v, len(T), m.name) + tval
                w = _whole(m, w_inner)
                if not _rx.member(w, m.parse_lang()):
                    raise hlib.HarnessError("composed witness %r is not in the parse language of %s" % (w, m.name))
                cls = classify_canon(w.encode("latin-1"))
                if cls == "trailing-newline" and cls in known and not excl:
                    res["known_hits"].append({"class": cls, "witness": repr(w.encode("latin-1")), "kind": m.name})
                    excl = [z3.Not(z3.SuffixOf(z3.StringVal("\n"), x))]
                    continue
                return violated(m, w, "(accepts trailing text %r)" % (tval,))
            if r == "unknown":
                notes.append("tail unknown")
        per[m.name] = "aligned with to_string; every group canonical; nothing accepted after the last field%s%s" % (
            " except ':'+extension" if _is_mdmf(m) else "", ("; " + ", ".join(notes)) if notes else "")
    return q.finish(res)


def _compose_head(q, f, v, npieces, label):
    """literals + canonical samples for the first `npieces` regex pieces of variant v (template-aligned part).
    If the last aligned literal of the regex is longer than the template's, only the template's part is kept."""
    P = f.parse_pieces(v)
    T = f.template()
    out = []
    for i in range(npieces):
        p = P[i]
        if p[0] == "lit":
            out.append(T[i][1] if T[i][0] == "lit" else p[1])
        else:
            js = [j for j, (k, g, a) in enumerate(f.slots) if g == p[1]]
            smp = _sample(q, p[2], "%s:piece%d" % (label, i), f.slot_canon_lang(js[0]) if js else None)
            if smp is None:
                raise hlib.HarnessError("%s: empty group language" % label)
            out.append(smp)
    return "".join(out)


REPLAY_PRINT = REPLAY_HEAD + '''
CLS = %r
INNER = %r
SLOTS = %r      # (kind, attr) in print order
LITS = %r
PARAMS = %r
def b32dec(x):
    x = x.upper()
    while len(x) %% 8: x += b"="
    return base64.b32decode(x)
# cut the witness into its fields along the literal pieces of the print template
rest = W
vals = {}
try:
    assert rest.startswith(LITS[0]); rest = rest[len(LITS[0]):]
    for (kind, attr), lit in zip(SLOTS, LITS[1:]):
        if lit:
            i = rest.index(lit); f, rest = rest[:i], rest[i + len(lit):]
        else:
            f, rest = rest, b""
        vals[attr] = b32dec(f) if kind == "b32" else int(f)
    icls = getattr(uri, INNER or CLS)
    obj = icls(*[vals[p] for p in PARAMS])
    if INNER:
        obj = getattr(uri, CLS)(obj)
    printed = obj.to_string()
except Exception as e:
    print("cannot rebuild the object from the witness:", repr(e)); sys.exit(3)
print("object prints as", printed)
try:
    r = uri.from_string(printed)
except Exception as e:
    print("VIOLATION: from_string raised", repr(e)); sys.exit(1)
print("parsed as", type(r).__name__)
if type(r).__name__ != CLS:
    print("VIOLATION: printed capability parses as a different kind"); sys.exit(1)
if r.to_string() != printed or r != obj:
    print("VIOLATION: parsed capability differs:", r.to_string()); sys.exit(1)
inner = r._filenode_uri if INNER else r
for attr, v in vals.items():
    if getattr(inner, attr) != v:
        print("VIOLATION: field", attr, "differs after the round trip"); sys.exit(1)
if printed != W:
    print("print model and real to_string disagree (round trip of the really printed string is fine)"); sys.exit(3)
sys.exit(0)
'''


def _print_replay(m, w):
    inner = m.inner if isinstance(m, cm.DirModel) else m
    lits = list(inner.fmt_lits)
    if isinstance(m, cm.DirModel):
        lits[0] = py2z(m.base) + lits[0][len(py2z(inner.base)):]
    params = [None] * len(inner.params)
    for attr, pi in inner.attr_param.items():
        if any(a == attr for (_k, _g, a) in inner.slots):
            params[pi] = attr
    params = [p for p in params if p is not None]
    return REPLAY_PRINT % (cm.MDMF_KINDS, w, m.name, inner.name if isinstance(m, cm.DirModel) else None,
                           [(k, a) for (k, g, a) in inner.slots], [x.encode("latin-1") for x in lits], params)


def _prefix_lang(p):
    return _rx.cat(_rx.lit_re(py2z(p)), _rx.sigma_star(True))


def _dispatch_queries(q, s, L, chain, idx, label):
    """all strings of L are handled by chain entry idx: each earlier (enabled) entry's prefix is excluded and
    entry idx's prefix is present.  One small query per entry.  -> (status, model or None, which)"""
    flags = cm.context_flags(None, False)
    r, mod = q.check([z3.InRe(s, L), z3.Not(z3.InRe(s, _prefix_lang(chain[idx].prefix)))], label + ":own-prefix")
    if r != "unsat":
        return r, mod, "does not start with %r" % (chain[idx].prefix,)
    for j in range(idx):
        e = chain[j]
        if e.unless is not None and flags[e.unless]:
            continue
        r, mod = q.check([z3.InRe(s, L), z3.InRe(s, _prefix_lang(e.prefix))], label + ":shadow%d" % j)
        if r != "unsat":
            return r, mod, "taken by the earlier entry %r" % (e.prefix,)
    return "unsat", None, ""


def _print_probes(ctx, models, q, info):
    """real constructor -> to_string -> from_string on the sample objects; -> violated result or None"""
    files = dict((k, v) for k, v in models.items() if isinstance(v, cm.FileModel))
    dirs = dict((k, v) for k, v in models.items() if isinstance(v, cm.DirModel))
    sel = set(m.name for m in _select(ctx, files, dirs))
    objs = cm.sample_objects()
    for (i, clsname, exc) in cm.SAMPLE_FAILURES:
        src = ("import sys\nsys.path[:0] = ['/verif', '/verif/harness']\nimport _capmodel as cm\no = cm.sample_objects()[%d]\n"
               "print('object of class', type(o).__name__, vars(o))\n"
               "try:\n    print(o.to_string()); sys.exit(0)\nexcept Exception as e:\n"
               "    print('VIOLATION: to_string() of a well-formed capability object raised', repr(e)); sys.exit(1)\n" % i)
        return q.finish({"status": "violated", "nonvacuous": True, "witness_class": "to_string-raises", "model": "%s: %s" % (clsname, exc),
                         "call": "%s(...).to_string()" % clsname, "replay_src": src, "info": info})
    for o in objs:
        wb = o.to_string()
        m = models.get(type(o).__name__)
        if m is None or m.name not in sel:
            continue
        rc, rout = _run_script(_print_replay(m, wb), ctx)
        if rc == 1:
            return q.finish({"status": "violated", "nonvacuous": True, "witness_class": "printed-cap-roundtrip", "model": repr(wb),
                             "call": "uri.from_string(%r)" % (wb,), "replay_src": _print_replay(m, wb), "info": info})
    return None


@guarded
def ob_print_roundtrip(ctx):
    files, dirs, models, chain = cm.build()
    info = {}
    q = Q(ctx)
    t0 = time.time()
    try:
        info["validation_comparisons"] = cm.validate_all(models, chain, "rx")
    except hlib.HarnessError:
        # the extracted model and the real code disagree: if a really printed capability does not survive the real
        # round trip this is a violation, not a modelling problem
        bad = _print_probes(ctx, models, q, info)
        if bad is not None:
            return bad
        raise
    info["validation_s"] = round(time.time() - t0, 2)
    res = {"status": "discharged", "nonvacuous": True, "info": info}
    per = {}
    res["info"]["per_class"] = per
    names = [e.cls for e in chain]

    def violated(m, w, label):
        wb = w.encode("latin-1")
        res.update(status="violated", witness_class="printed-cap-" + label, model=repr(wb),
                   call="uri.from_string(%r)" % (wb,), replay_src=_print_replay(m, wb))
        per[m.name] = "VIOLATED " + label
        return q.finish(res)

    for m in _select(ctx, files, dirs):
        f = _file_of(m)
        s = z3.String("s")
        x = z3.String("x")
        LP = m.print_lang()
        T = f.template()
        # a printed sample (solver model, piece by piece) and the print model checked on the real constructor/to_string
        parts = []
        for t in T:
            if t[0] == "lit":
                parts.append(t[1])
            else:
                smp = _sample(q, f.slot_print_lang(t[1]), "%s:print-slot%d" % (m.name, t[1]))
                if smp is None:
                    res["nonvacuous"] = False
                    smp = ""
                parts.append(smp)
        w0 = _whole(m, "".join(parts))
        rc, rout = _run_script(_print_replay(m, w0.encode("latin-1")), ctx)
        if rc == 3:
            raise hlib.HarnessError("print model of %s disagrees with the real to_string on %r:\n%s" % (m.name, w0, rout[-400:]))
        if rc == 1:
            return violated(m, w0, "roundtrip")
        if m.name not in names:
            raise hlib.HarnessError("%s is not reachable from from_string" % m.name)
        # (1) accepted: some regex variant aligns with the template, admits an empty tail, and every printed field
        #     language is inside the corresponding group language
        why = _dir_structure(q, m, per) if isinstance(m, cm.DirModel) else None
        ok_variant = False
        failing = None
        if why is None:
            for vi, v in enumerate(f.rx.variants):
                (ok, slots, tail, reason) = f.align(v)
                if not ok:
                    why = why or reason
                    continue
                if not _rx.member("", tail):
                    continue
                good = True
                for j, G in sorted(slots.items()):
                    r, mod = q.check([z3.InRe(x, f.slot_print_lang(j)), z3.Not(z3.InRe(x, G))], "%s:v%d:slot%d-accepted" % (m.name, vi, j))
                    if r != "unsat":
                        good = False
                        if r == "sat" and failing is None:
                            failing = (j, z2py(mod[x], False))
                        break
                if good:
                    ok_variant = True
                    break
        if not ok_variant:
            if failing is not None:
                (j, val) = failing
                parts2 = list(parts)
                k = [i for i, t in enumerate(T) if t == ("slot", j)][0]
                parts2[k] = val
                return violated(m, _whole(m, "".join(parts2)), "accepted")
            r, mod = q.check([z3.InRe(s, LP), z3.Not(z3.InRe(s, m.parse_lang()))], m.name + ":accepted-whole")
            if r == "sat":
                return violated(m, z2py(mod[s], False), "accepted")
            if r != "unsat":
                q.unknown.append(m.name + ":accepted")
            per[m.name] = "not aligned (%s); whole-language inclusion: %s" % (why, r)
        # (2) same class through the from_string chain
        r, mod, which = _dispatch_queries(q, s, LP, chain, names.index(m.name), m.name)
        if r == "sat":
            return violated(m, z2py(mod[s], False), "dispatch")
        if r != "unsat":
            q.unknown.append(m.name + ":dispatch")
        if ok_variant:
            per[m.name] = "printed strings accepted (field languages inside the regex groups), routed to %s; " \
                          "same string back by the canonical obligation" % m.name
    bad = _print_probes(ctx, models, q, info)
    if bad is not None:
        return bad
    return q.finish(res)


def _run_script(src, ctx):
    """run a replay script in this process (same real code, no solver involved); -> (exit code, output)"""
    import contextlib
    import io
    buf = io.StringIO()
    code = 0
    saved_path = list(sys.path)
    try:
        with contextlib.redirect_stdout(buf):
            try:
                exec(compile(src, "<replay>", "exec"), {"__name__": "__replay__"})
            except SystemExit as e:
                code = e.code if isinstance(e.code, int) else (0 if e.code is None else 1)
    finally:
        sys.path[:] = saved_path
    return code, buf.getvalue()


REPLAY_DISPATCH = REPLAY_HEAD + '''
CLS = %r
try:
    direct = getattr(uri, CLS).init_from_string(W)
except Exception as e:
    print("the class itself rejects the string:", repr(e)); sys.exit(0)
r = uri.from_string(W)
print(CLS, "accepts the string; from_string gives", type(r).__name__)
if type(r).__name__ != CLS:
    print("VIOLATION: a string in the grammar of", CLS, "is reported as", type(r).__name__); sys.exit(1)
sys.exit(0)
'''


@guarded
def ob_dispatch(ctx):
    files, dirs, models, chain, info = _setup(ctx, "full")
    q = Q(ctx)
    res = {"status": "discharged", "nonvacuous": True, "info": info}
    per = {}
    res["info"]["per_class"] = per
    names = [e.cls for e in chain]
    s = z3.String("s")
    ms = _select(ctx, files, dirs)
    for m in ms:
        L = m.parse_lang()
        if m.name not in names:
            r, mod = q.check([z3.InRe(s, L)], m.name + ":unreachable-class")
            if r == "sat":
                w = z2py(mod[s], True)
                res.update(status="violated", witness_class="dispatch", model=repr(w), call="uri.from_string(%r)" % (w,),
                           replay_src=REPLAY_DISPATCH % (cm.MDMF_KINDS, w, m.name))
                per[m.name] = "VIOLATED: no from_string entry returns this class"
                return q.finish(res)
            raise hlib.HarnessError("%s is not reachable from from_string" % m.name)
        idx = names.index(m.name)
        r0, _ = q.check([z3.InRe(s, L)], m.name + ":nonvacuity")
        if r0 != "sat":
            res["nonvacuous"] = False
        r, mod, which = _dispatch_queries(q, s, L, chain, idx, m.name)
        per[m.name] = "in-grammar strings reach their own class: %s %s" % (r, which)
        if r == "sat":
            w = z2py(mod[s], True)
            res.update(status="violated", witness_class="dispatch", model=repr(w), call="uri.from_string(%r)" % (w,),
                       replay_src=REPLAY_DISPATCH % (cm.MDMF_KINDS, w, m.name))
            return q.finish(res)
        if r != "unsat":
            q.unknown.append(m.name + ":dispatch")
    # pairwise disjointness of the grammars (a string is never readable as two kinds)
    n_pairs = 0
    for i in range(len(ms)):
        for j in range(i + 1, len(ms)):
            r, mod = q.check([z3.InRe(s, ms[i].parse_lang()), z3.InRe(s, ms[j].parse_lang())],
                             "%s/%s:disjoint" % (ms[i].name, ms[j].name))
            n_pairs += 1
            if r == "sat":
                w = z2py(mod[s], True)
                res.update(status="violated", witness_class="ambiguous-grammar", model=repr(w),
                           call="uri.from_string(%r)" % (w,),
                           replay_src=REPLAY_HEAD % (cm.MDMF_KINDS, w) + (
                               "A, B = %r, %r\n"
                               "try:\n    getattr(uri, A).init_from_string(W); getattr(uri, B).init_from_string(W)\n"
                               "except Exception as e:\n    print('not accepted by both:', repr(e)); sys.exit(0)\n"
                               "print('VIOLATION: accepted by both', A, 'and', B); sys.exit(1)\n" % (ms[i].name, ms[j].name)))
                return q.finish(res)
    per["pairwise"] = "%d pairs of grammars disjoint" % n_pairs
    conds, none = cm.dispatch_index(s, chain)
    r, mod = q.check([none, _rx.in_alphabet(s, True)], "no-entry:nonvacuity")
    per["no-entry"] = "strings matching no prefix exist (%s); from_string returns UnknownURI(u) there (AST shape checked)" % r
    res["info"]["chain"] = [(py2z(e.prefix), e.cls, e.guard, e.unless) for e in chain]
    return q.finish(res)


REPLAY_TOTAL = REPLAY_HEAD + '''
try:
    r = uri.from_string(W)
except uri.BadURIError:
    sys.exit(0)
except Exception as e:
    print("VIOLATION: from_string raised", type(e).__name__, str(e)[:100], "instead of returning UnknownURI or a capability"); sys.exit(1)
print("returned", type(r).__name__); sys.exit(0)
'''


@guarded
def ob_parse_total(ctx):
    """strings accepted by a class regex never make init_from_string raise (int() digit limit)."""
    files, dirs, models, chain, info = _setup(ctx, "rx")
    q = Q(ctx)
    known = list(ctx.get("known") or [])
    res = {"status": "discharged", "nonvacuous": True, "known_hits": [], "info": info}
    limit = sys.get_int_max_str_digits()
    info["int_max_str_digits"] = limit
    caught = cm.caught_exceptions()
    info["from_string_catches"] = caught
    handled = "ValueError" in caught or "Exception" in caught
    per = {}
    res["info"]["per_class"] = per
    x = z3.String("x")
    for m in _select(ctx, files, dirs):
        f = _file_of(m)
        if limit == 0 or not any(k == "int" for (k, g, a) in f.slots):
            per[m.name] = "no integer fields / no digit limit"
            continue
        for vi, v in enumerate(f.rx.variants):
            P = f.parse_pieces(v)
            for pi, p in enumerate(P):
                if p[0] != "grp" or not any(k == "int" and g == p[1] for (k, g, a) in f.slots):
                    continue
                G = p[2]
                r0, _ = q.check([z3.InRe(x, G)], "%s:g%d:nonvacuity" % (m.name, p[1]))
                if r0 != "sat":
                    res["nonvacuous"] = False
                # candidate first (the solver decides membership of a concrete over-long digit string), then the
                # general length query
                cand = "1" + "0" * limit
                if _rx.member(cand, G):
                    r, val = "sat", cand
                    q.n += 1
                else:
                    r, mod = q.check([z3.InRe(x, G), z3.Length(x) > limit], "%s:g%d:longer-than-limit" % (m.name, p[1]))
                    val = z2py(mod[x], False) if r == "sat" else None
                per["%s.group%d" % (m.name, p[1])] = "a field of more than %d digits is accepted: %s" % (limit, r)
                if r == "unknown":
                    continue
                if r == "sat":
                    w = _whole(m, _compose(q, f, v, {pi: val}, m.name)).encode("latin-1")
                    if not _rx.member(py2z(w), m.parse_lang()):
                        raise hlib.HarnessError("composed witness is not in the parse language of %s" % m.name)
                    if handled:
                        # int()'s ValueError is turned into UnknownURI(u, error) by from_string (handler read from its AST);
                        # the witness is replayed to confirm that nothing escapes
                        rc, rout = _run_script(REPLAY_TOTAL % (cm.MDMF_KINDS, w), ctx)
                        if rc != 0:
                            res.update(status="violated", witness_class="int-digits-limit", model=repr(w[:90]) + "...(%d bytes)" % len(w),
                                       call="uri.from_string(<%s string whose group %d has %d digits>)" % (m.name, p[1], len(val)),
                                       replay_src=REPLAY_TOTAL % (cm.MDMF_KINDS, w))
                            return q.finish(res)
                        per["%s.group%d" % (m.name, p[1])] += "; int() ValueError is caught by from_string -> UnknownURI (witness replayed)"
                        continue
                    if "int-digits-limit" in known:
                        res["known_hits"].append({"class": "int-digits-limit", "kind": m.name,
                                                  "witness": repr(w[:70]) + "...(%d bytes)" % len(w)})
                        continue
                    res.update(status="violated", witness_class="int-digits-limit", model=repr(w[:90]) + "...(%d bytes)" % len(w),
                               call="uri.from_string(<%s string whose group %d has %d digits>)" % (m.name, p[1], len(val)),
                               replay_src=REPLAY_TOTAL % (cm.MDMF_KINDS, w))
                    return q.finish(res)
    return q.finish(res)


REPLAY_B32 = '''#!/verif/.venv/bin/python
import sys
sys.path[:0] = ["/verif"]
from vlib import hlib
hlib.ensure_shims()
from allmydata.util import base32
G = %r
print("group value:", G)
try:
    back = base32.b2a(base32.a2b(G))
except Exception as e:
    print("VIOLATION: a2b rejects/raises on a string the cap regex accepts:", repr(e)); sys.exit(1)
print("b2a(a2b(G)) =", back)
sys.exit(1 if back != G else 0)
'''


@guarded
def ob_base32_tables(ctx):
    """E2/E3: the base32 sub-languages of the live cap regexes are exactly the canonical encodings; the live
    s8 table (a2b's precondition) accepts them; bit-level definition of 'canonical' decided on bit-vectors."""
    files, dirs, models, chain, info = _setup(ctx)
    q = Q(ctx)
    res = {"status": "discharged", "nonvacuous": True, "info": info}
    per = {}
    alpha = base32.chars.decode("latin-1")
    # (e) alphabet: 32 distinct characters (bit-vector index -> char function lifted from the live table)
    i, j = z3.BitVec("i", 5), z3.BitVec("j", 5)

    def tab(ix):
        e = z3.IntVal(ord(alpha[31]))
        for k in range(30, -1, -1):
            e = z3.If(ix == k, z3.IntVal(ord(alpha[k])), e)
        return e
    if len(alpha) != 32:
        raise hlib.HarnessError("base32.chars has %d characters" % len(alpha))
    r, mod = q.check([i != j, tab(i) == tab(j)], "alphabet-injective")
    per["alphabet"] = "index->char injective: %s" % r
    if r == "sat":
        res.update(status="violated", witness_class="alphabet", model=str(mod),
                   replay_src="import sys\nsys.path[:0]=['/verif']\nfrom vlib import hlib\nhlib.ensure_shims()\nfrom allmydata.util import base32\n"
                              "sys.exit(1 if len(set(base32.chars)) != 32 else 0)\n")
        return q.finish(res)
    # s8 language (could_be_base32_encoded): lifted from the live table
    A = cm._set_re(alpha)
    s8 = base32.s8
    parts = [_rx.eps()]
    for rmd in range(8):
        allowed = "".join(chr(c) for c in range(256) if s8[rmd][c])
        if not allowed:
            continue
        k = (rmd - 1) % 8
        parts.append(_rx.cat(z3.Star(z3.Loop(A, 8, 8)), z3.Loop(A, k, k) if k else None, cm._set_re(allowed)))
    L_s8 = _rx.alt(*parts)
    hlib.encoded(base32.could_be_base32_encoded, base32.a2b, base32.b2a, base32.init_s8,
                 base32._get_trailing_chars_without_lsbs)
    # validation of the ideal codec and of L_s8 against the real functions (concrete vectors)
    vec = [b"", b"aa", b"ac", b"ae", b"ab", b"aaaa", b"aaai", b"aaaq", b"aaaaa", b"aaaab", b"aaaaaaa", b"aaaaaay", b"aaaaaae",
           b"aaaaaaaa", b"aaaaaaab", b"a", b"aaa", b"aaaaaa", b"a1", b"A2", b"aa=", b"77777777", b"7777777y", b"mfrgg", b"mfrgh"]
    for ps in cm.sample_strings():
        vec.extend(ps.split(b":")[2:4])
    for v in vec:
        real_ok = bool(base32.could_be_base32_encoded(v))
        if real_ok != _rx.member(py2z(v), L_s8):
            raise hlib.HarnessError("s8 language model disagrees with could_be_base32_encoded on %r" % (v,))
        if real_ok:
            try:
                same = base32.b2a(base32.a2b(v)) == v
            except Exception:
                same = False
            if same != _rx.member(py2z(v), cm.CANON32_ANY()):
                raise hlib.HarnessError("ideal base32 model disagrees with b2a(a2b(%r))" % (v,))
    g = z3.String("g")
    seen = set()
    for m in files.values():
        for vi, v in enumerate(m.rx.variants):
            for sg in v.segs:
                slot = [(k, a) for (k, gr, a) in m.slots if gr == sg.group and k == "b32"]
                if sg.group is None or not slot:
                    continue
                attr = slot[0][1]
                nbytes = cm.FIELD_BYTES.get(attr)
                key = (m.name, sg.group)
                if key in seen:
                    continue
                seen.add(key)
                C = cm.canon32(nbytes)
                out = []
                for (label, asserts, what) in (
                        ("noncanonical-accepted", [z3.InRe(g, sg.re), z3.Not(z3.InRe(g, C))], "regex ⊆ canonical(%s bytes)" % nbytes),
                        ("canonical-rejected", [z3.InRe(g, C), z3.Not(z3.InRe(g, sg.re))], "canonical ⊆ regex"),
                        ("a2b-precondition", [z3.InRe(g, sg.re), z3.Not(z3.InRe(g, L_s8))], "regex ⊆ could_be_base32_encoded")):
                    r, mod = q.check(asserts, "%s.g%d:%s" % (m.name, sg.group, label))
                    out.append("%s: %s" % (what, r))
                    if r == "sat":
                        w = z2py(mod[g], True)
                        if label == "canonical-rejected":
                            # a printed field the parser refuses: replay through print->parse of a full cap is done by print_roundtrip;
                            # here the group itself is the witness
                            src = REPLAY_B32.replace("sys.exit(1 if back != G else 0)",
                                                     "import re\nfrom allmydata import uri\nrx = %r\nprint('regex group accepts:', bool(re.fullmatch(rx, G)))\n"
                                                     "sys.exit(1 if back == G and not re.fullmatch(rx, G) else 0)" % (_group_src(m, sg.group),)) % (w,)
                        else:
                            src = REPLAY_B32 % (w,)
                        res.update(status="violated", witness_class="base32-" + label, model=repr(w),
                                   call="%s group %d = %r" % (m.name, sg.group, w), replay_src=src)
                        res["info"]["per_class"] = per
                        return q.finish(res)
                r0, _ = q.check([z3.InRe(g, sg.re)], "%s.g%d:nonvacuity" % (m.name, sg.group))
                if r0 != "sat":
                    res["nonvacuous"] = False
                per["%s.group%d(%s)" % (m.name, sg.group, attr)] = "; ".join(out)
    # bit-level: a final quintet v survives decode(8n bits)->encode iff its `spare` low bits are zero iff its
    # character is in the mathematical tail set used by canon32 (one query per spare-bit count)
    v = z3.BitVec("v", 5)
    for spare in (0, 1, 2, 3, 4):
        keep = z3.LShR(v, spare) << spare
        tail = cm._tail_set(spare)
        in_tail = z3.Or(*[v == alpha.index(ch) for ch in tail])
        r, mod = q.check([(keep == v) != in_tail], "bits:spare%d" % spare)
        per["spare%d" % spare] = "low-bits-zero <=> tail set %r: %s" % (tail, r)
        if r != "unsat":
            raise hlib.HarnessError("tail-set definition inconsistent for spare=%d" % spare)
    # information: how lax is the live s8 table compared with canonical encodings (not a C15 violation: every
    # a2b call in uri.py is guarded by a cap regex)
    r, mod = q.check([z3.InRe(g, L_s8), z3.Not(z3.InRe(g, cm.CANON32_ANY()))], "info:s8-lax")
    if r == "sat":
        w = z2py(mod[g], True)
        info["s8_table_accepts_noncanonical"] = "could_be_base32_encoded(%r) is true but b2a(a2b(x)) = %r" % (w, base32.b2a(base32.a2b(w)))
    res["info"]["per_class"] = per
    return q.finish(res)


def _group_src(m, group):
    """pattern text of a top-level group of m's regex (for replays)"""
    import re as _re
    pat = m.cls.STRING_RE.pattern
    depth = 0
    n = 0
    start = None
    i = 0
    while i < len(pat):
        ch = pat[i:i + 1]
        if ch == b"\\":
            i += 2
            continue
        if ch == b"(":
            if depth == 0 and pat[i + 1:i + 2] != b"?":
                n += 1
                if n == group:
                    start = i
            depth += 1
        elif ch == b")":
            depth -= 1
            if depth == 0 and start is not None:
                return pat[start:i + 1]
        i += 1
    raise hlib.HarnessError("group %d not found in %r" % (group, pat))


REPLAY_PREFIX = REPLAY_HEAD + '''
DEEP = %r
RO, IMM = uri.ALLEGED_READONLY_PREFIX, uri.ALLEGED_IMMUTABLE_PREFIX
r = uri.from_string(W, deep_immutable=DEEP)
print("from_string ->", type(r).__name__)
if isinstance(r, uri.UnknownURI):
    sys.exit(0)
t = r.to_string()
ok_forms = [t, RO + t, IMM + t]
if any(W.startswith(k.encode()) or W.startswith(RO + k.encode()) or W.startswith(IMM + k.encode()) for k in MDMF):
    ok = any(W == f or W.startswith(f + b":") for f in ok_forms)
else:
    ok = W in ok_forms
if not ok:
    print("VIOLATION: accepted as", t, "although the input is not that capability with at most one alleged prefix"); sys.exit(1)
if (W.startswith(RO) or W.startswith(IMM) or DEEP) and not r.is_readonly():
    print("VIOLATION: alleged read-only input gives a writeable capability"); sys.exit(1)
if (W.startswith(IMM) or DEEP) and r.is_mutable():
    print("VIOLATION: alleged immutable input gives a mutable capability"); sys.exit(1)
back = uri.from_string(t)
if type(back) is not type(r) or back.to_string() != t:
    print("VIOLATION: to_string() of the result does not re-parse to the same capability"); sys.exit(1)
sys.exit(0)
'''


@guarded
def ob_prefix_single(ctx):
    """every string from_string accepts as a known kind is that capability's own string with AT MOST ONE alleged prefix, and the
    restriction the prefix alleges is in force"""
    files, dirs, models, chain, info = _setup(ctx, "full")
    q = Q(ctx)
    res = {"status": "discharged", "nonvacuous": True, "info": info}
    table = cm.prefix_table()
    RO, IMM = uri.ALLEGED_READONLY_PREFIX, uri.ALLEGED_IMMUTABLE_PREFIX
    info["prefix_table"] = dict(("%s deep=%s" % (b"".join(T).decode() or "-", deep), v) for (T, deep), v in sorted(table.items()))
    u = z3.String("u")
    per = {}
    res["info"]["per_class"] = per

    def violated(w, deep, what):
        res.update(status="violated", witness_class="alleged-prefix", model=repr(w), call="uri.from_string(%r, deep_immutable=%s)" % (w, deep),
                   replay_src=REPLAY_PREFIX % (cm.MDMF_KINDS, w, deep))
        per["violation"] = what
        return q.finish(res)
    allowed_pre = _rx.alt(_rx.eps(), _rx.lit_re(py2z(RO)), _rx.lit_re(py2z(IMM)))
    for deep in (False, True):
        for e in chain:
            if e.cls is None:
                continue
            m = models[e.cls]
            L = m.parse_lang()
            # language of inputs the (learned prefix table + extracted chain) model turns into class e.cls
            outs = []
            for (T, dp), (k, cw, cmu) in table.items():
                if dp != deep or k is None or k != len(T):
                    continue        # leftover tokens in front of the body: no chain entry matches, UnknownURI
                fl = {"can_be_writeable": cw, "can_be_mutable": cmu}
                if e.guard is not None and not fl[e.guard]:
                    continue
                outs.append((T, _rx.cat(_rx.lit_re(py2z(b"".join(T))) if T else None, L)))
                # the restriction alleged by the stripped tokens must be in force
                lost = ((T or deep) and cw) or ((IMM in T or deep) and cmu)
                if lost:
                    r, mod = q.check([z3.InRe(u, outs[-1][1])], "%s:%s:lost-restriction" % (e.cls, b"".join(T)))
                    if r == "sat":
                        # a witness matters only if the class actually needs the lost flag
                        need_w = py2z(m.base) in ("URI:SSK:", "URI:MDMF:", "URI:DIR2:", "URI:DIR2-MDMF:")
                        need_m = need_w or py2z(m.base) in ("URI:SSK-RO:", "URI:MDMF-RO:", "URI:DIR2-RO:", "URI:DIR2-MDMF-RO:")
                        if (need_w and (T or deep) and cw) or (need_m and (IMM in T or deep) and cmu):
                            return violated(z2py(mod[u], True), deep, "restriction alleged by %r%s is not in force" % (b"".join(T), " / deep_immutable" if deep else ""))
            if not outs:
                continue
            A = _rx.alt(*[o[1] for o in outs])
            r0, _ = q.check([z3.InRe(u, A)], "%s:nonvacuity" % e.cls)
            if r0 != "sat":
                res["nonvacuous"] = False
            r, mod = q.check([z3.InRe(u, A), z3.Not(z3.InRe(u, _rx.cat(allowed_pre, L)))], "%s:deep=%s:single-prefix" % (e.cls, deep))
            if r == "sat":
                return violated(z2py(mod[u], True), deep, "more than one alleged prefix is stripped")
            if r != "unsat":
                q.unknown.append("%s:single-prefix" % e.cls)
            per["%s deep=%s" % (e.cls, deep)] = "accepted inputs = (none | ro. | imm.) + grammar: %s" % r
    return q.finish(res)
