"""
C33 — grid-manager certificates grant upload permission only when valid.

Real code executed: grid_manager.create_grid_manager_verifier (incl. the returned `validate` closure) and
grid_manager.validate_grid_manager_certificate, on real SignedCertificate objects.

Ideal signatures: ed25519.verify_signature(key, sig, data) is a symbolic Boolean per (certificate, key) pair
(raises BadSignature when False).  The signed JSON body is not parsed: json.loads returns, for certificate i, a dict
whose "expires" entry is a carrier of a symbolic integer time stamp and whose "public_key" entry encodes to the
server's key or to another key according to a symbolic Boolean; datetime.fromisoformat unwraps the carrier and the
clock (`now_fn`) returns a symbolic integer.
"""
from vlib import hlib
from vlib.hlib import NS, assume
hlib.ensure_shims()
from allmydata import grid_manager as gm
from allmydata.crypto.error import BadSignature

B = hlib.bounds()
NOTES = [
    "grid_manager.ed25519 replaced by an ideal signature scheme: verify_signature(key, sig, data) answers a symbolic Boolean per (certificate, key); "
    "a (sig, data) pair that is not one of the presented certificates never verifies",
    "grid_manager.json.loads returns a dict carrier per certificate (expiry = symbolic integer, public_key = this server / another server by a symbolic Boolean); "
    "grid_manager.datetime.fromisoformat unwraps the expiry carrier; now_fn returns a symbolic integer (time stamps are integers, order is all that matters)",
    "print in grid_manager (default bad_cert reporter) silenced",
]
hlib.encoded(gm.create_grid_manager_verifier, gm.validate_grid_manager_certificate)

SERVER_KEY = b"pub-v0-thisserver"


class _Expiry(object):
    def __init__(self, ts):
        self.ts = ts


class _PubKeyStr(object):
    """the 'public_key' string of a certificate body: .encode('ascii') gives the subject's key"""

    def __init__(self, matches, log):
        self.matches = matches
        self.log = log

    def encode(self, enc):
        if enc != "ascii":
            raise hlib.HarnessError("public_key encoded as %r" % (enc,))
        self.log.append("subject-read")
        return SERVER_KEY if self.matches else b"pub-v0-someoneelse"


class _World(object):
    def __init__(self, ncerts, keys, valid, subject, expires):
        self.keys = keys
        self.valid = valid          # valid[i][j]
        self.subject = subject
        self.expires = expires
        self.certs = [gm.SignedCertificate(certificate=b"cert-body-%d" % i, signature=b"sig-%d" % i) for i in range(ncerts)]
        self.verified = []          # (i, j, outcome)
        self.loaded = []            # certificate indices whose body was parsed
        self.log = []

    def index_of(self, sig, data):
        for i, c in enumerate(self.certs):
            if c.signature == sig and c.certificate == data:
                return i
        return None

    # -- stands in for allmydata.crypto.ed25519 inside grid_manager --
    BadSignature = BadSignature

    def verify_signature(self, key, sig, data):
        i = self.index_of(sig, data)
        j = None
        for n, k in enumerate(self.keys):
            if k is key:
                j = n
        if i is None or j is None:
            self.verified.append((i, j, False))
            raise BadSignature()
        ok = self.valid[i][j]
        self.verified.append((i, j, ok))
        if not ok:
            raise BadSignature()

    def string_from_verifying_key(self, key):
        return b"pub-v0-gridmanager"

    # -- stands in for jsonbytes inside grid_manager --
    def loads(self, data):
        for i, c in enumerate(self.certs):
            if c.certificate == data:
                self.loaded.append(i)
                return {"expires": _Expiry(self.expires[i]), "public_key": _PubKeyStr(self.subject[i], self.log), "version": 1}
        raise hlib.HarnessError("json.loads on unknown data")


class _FakeDatetime(object):
    @staticmethod
    def fromisoformat(x):
        if not isinstance(x, _Expiry):
            raise hlib.HarnessError("fromisoformat(%r)" % (x,))
        return x.ts


def _install(world):
    saved = (gm.ed25519, gm.json, gm.datetime, gm.__dict__.get("print"))
    gm.ed25519 = world
    gm.json = world
    gm.datetime = _FakeDatetime
    gm.print = lambda *a, **kw: None
    return saved


def _restore(saved):
    gm.ed25519, gm.json, gm.datetime = saved[:3]
    if saved[3] is None:
        del gm.print
    else:
        gm.print = saved[3]


def _oracle(nk, nc, valid, subject, expires, now):
    if nk == 0:
        return True
    for i in range(nc):
        for j in range(nk):
            if valid[i][j] and subject[i] and expires[i] > now:
                return True
    return False


def h_verifier(nk: int, nc: int,
               s00: bool, s01: bool, s10: bool, s11: bool, s20: bool, s21: bool,
               m0: bool, m1: bool, m2: bool, e0: int, e1: int, e2: int,
               now1: int, now2: int, default_reporter: bool) -> bool:
    """
    pre: 0 <= nk <= B.get("nk_max", 2) and 0 <= nc <= B.get("nc_max", 3)
    pre: B.get("nk") is None or nk == B["nk"]
    post: _ == True
    """
    valid = [[s00, s01], [s10, s11], [s20, s21]]
    subject = [m0, m1, m2]
    expires = [e0, e1, e2]
    keys = [NS(name="gm-key-%d" % j) for j in range(nk)]
    w = _World(nc, keys, valid, subject, expires)
    clock = []
    reported = []

    def now_fn():
        return clock[-1] if clock else now1

    def bad_cert(key, cert):
        reported.append((key, cert))
    saved = _install(w)
    try:
        verifier = gm.create_grid_manager_verifier(list(keys), list(w.certs), SERVER_KEY, now_fn=now_fn,
                                                   bad_cert=None if default_reporter else bad_cert)
        # construction must not decide anything that depends on time
        answers = []
        for now in (now1, now2):
            clock.append(now)
            answers.append(verifier())
    finally:
        _restore(saved)
    # every body that was parsed had its signature verified (successfully) under a configured key first
    for i in w.loaded:
        if not any(v == (i, j, True) for v in w.verified for j in range(nk)):
            return "certificate body parsed without a successful signature check"
    if nk > 0:
        for i in range(nc):
            for j in range(nk):
                if w.verified.count((i, j, valid[i][j])) < 1:
                    return "a (certificate, key) pair was never checked"
        if not default_reporter:
            n_bad = sum(1 for i in range(nc) for j in range(nk) if not valid[i][j])
            if len(reported) != n_bad:
                return "bad_cert callback not invoked once per failed (key, certificate) check"
    for k, now in enumerate((now1, now2)):
        want = _oracle(nk, nc, valid, subject, expires, now)
        got = answers[k]
        if got is not True and got is not False:
            return "verifier did not return a bool"
        if got != want:
            if got:
                return "permission granted without a valid, unexpired certificate for this server (call %d)" % (k + 1)
            return "permission refused although a valid, unexpired certificate for this server exists (call %d)" % (k + 1)
    return True


def h_validate_cert(valid: bool, known: bool) -> bool:
    """
    post: _ == True
    """
    key = NS(name="gm-key")
    w = _World(1, [key], [[valid]], [True], [5])
    cert = w.certs[0] if known else gm.SignedCertificate(certificate=b"cert-body-0", signature=b"forged")
    saved = _install(w)
    try:
        out = gm.validate_grid_manager_certificate(key, cert)
    finally:
        _restore(saved)
    ok = valid and known
    if ok:
        if not isinstance(out, dict) or w.loaded != [0]:
            return "valid certificate: body not returned"
        if w.verified != [(0, 0, True)]:
            return "signature not checked exactly once against the given key"
    else:
        if out is not None:
            return "data returned from a certificate whose signature did not verify"
        if w.loaded:
            return "body of an unverified certificate was parsed"
    return True


# ---- the expiry boundary with the real JSON body and the real ISO-8601 parsing ---------------------------------

def _expiry_texts():
    from datetime import datetime, timedelta, timezone
    expiry = datetime(2026, 3, 1, 12, 30, 15, 250000, tzinfo=timezone.utc)
    return [expiry.isoformat(),                                                          # what _GridManager.sign writes: ...+00:00
            expiry.astimezone(timezone(timedelta(hours=5, minutes=30))).isoformat(),     # same instant, other offsets
            expiry.astimezone(timezone(timedelta(hours=-8))).isoformat()]


_EXPIRY_TEXTS = _expiry_texts()       # concrete, built at import time


class _Instant(object):
    """what now_fn returns in h_expiry_boundary: an instant given as integer microseconds since the epoch, ordered against real
    aware datetimes (datetime.__gt__(instant) returns NotImplemented, so Python asks instant.__lt__(datetime))"""

    def __init__(self, us):
        self.us = us

    @staticmethod
    def _us_of(dt):
        # dt is the concrete datetime that the real fromisoformat produced; plain datetime arithmetic with tracing off
        # (CrossHair substitutes its own datetime class while tracing, which does not mix with real instances)
        from crosshair import NoTracing
        with NoTracing():
            import datetime as _dt
            if not isinstance(dt, _dt.datetime) or dt.tzinfo is None:
                raise hlib.HarnessError("expiry is not an aware datetime: %r" % (dt,))
            delta = dt - _dt.datetime(1970, 1, 1, tzinfo=_dt.timezone.utc)
            return (delta.days * 86400 + delta.seconds) * 10 ** 6 + delta.microseconds

    def __lt__(self, dt):
        return self.us < self._us_of(dt)

    def __gt__(self, dt):
        return self.us > self._us_of(dt)

    def __le__(self, dt):
        return self.us <= self._us_of(dt)

    def __ge__(self, dt):
        return self.us >= self._us_of(dt)


_EXPIRY_US = 1772368215250000        # 2026-03-01T12:30:15.250000+00:00


def h_expiry_boundary(d: int, valid: bool, tz_form: int) -> bool:
    """
    pre: 0 <= tz_form <= 2
    post: _ == True
    """
    import json
    text = _EXPIRY_TEXTS[tz_form]
    body = json.dumps({"expires": text, "public_key": SERVER_KEY.decode("ascii"), "version": 1},
                      separators=(",", ":"), sort_keys=True).encode("utf-8")
    cert = gm.SignedCertificate(certificate=body, signature=b"sig")
    key = NS(name="gm-key")

    class Ed(object):
        BadSignature = BadSignature

        @staticmethod
        def verify_signature(k, sig, data):
            if not (k is key and sig == b"sig" and data == body and valid):
                raise BadSignature()

        @staticmethod
        def string_from_verifying_key(k):
            return b"pub-v0-gridmanager"
    now = _Instant(_EXPIRY_US + d)
    saved = (gm.ed25519, gm.__dict__.get("print"))
    gm.ed25519 = Ed
    gm.print = lambda *a, **kw: None
    try:
        verifier = gm.create_grid_manager_verifier([key], [cert], SERVER_KEY, now_fn=lambda: now)
        got = verifier()
    finally:
        gm.ed25519 = saved[0]
        if saved[1] is None:
            del gm.print
        else:
            gm.print = saved[1]
    want = valid and d < 0
    if got != want:
        return "permission %s at expiry%+d microseconds" % ("granted" if got else "refused", d)
    return True


# ---- announced certificates through the real StorageFarmBroker._make_storage_server ------------------------------

def _load_sc():
    from allmydata import storage_client as sc
    return sc


_KINDS = 6      # 0 well-formed, 1 no "signature", 2 signature not base32, 3 no "certificate", 4 entry is not a dict, 5 signature not a string


def _entry(i, kind):
    from allmydata.util import base32
    good = {"certificate": "cert-body-%d" % i, "signature": base32.b2a(b"sig-%d" % i).decode("ascii")}
    if kind == 0:
        return good
    if kind == 1:
        return {"certificate": good["certificate"]}
    if kind == 2:
        return {"certificate": good["certificate"], "signature": "s1g!"}
    if kind == 3:
        return {"signature": good["signature"]}
    if kind == 4:
        return "not-a-certificate"
    return {"certificate": good["certificate"], "signature": 12345}


_ENTRIES = [[_entry(i, k) for k in range(_KINDS)] for i in range(2)]       # concrete, built at import time


def _cheap_precondition(cond, *args, **kwargs):
    # pyutil's precondition() formats its arguments into the AssertionError message (realising a bytes proxy byte by byte:
    # ~20000 solver calls per failure); same control flow, no message
    if not cond:
        raise AssertionError("precondition")


from allmydata.util import base32 as _base32_mod      # noqa: E402
_base32_mod.precondition = _cheap_precondition
NOTES.append("announced_certs: allmydata.util.base32.precondition raises AssertionError without formatting its arguments; twisted getPlugins returns "
             "no plugins; eliot @log_call decorator of _make_storage_server dropped; grid_manager.current_datetime_with_zone returns a symbolic integer")
# eliot's @log_call reads the wall clock (forks CrossHair's symbolic time.time): decorator dropped
_mss = hlib.strip_logs(_load_sc().StorageFarmBroker._make_storage_server, drop_decorators=("log_call",))
hlib.encoded(gm.SignedCertificate.load, _load_sc().NativeStorageServer.upload_permitted)


def h_announced_certs(k0: int, k1: int, s0: bool, s1: bool, m0: bool, m1: bool, e0: int, e1: int, now: int) -> bool:
    """
    pre: 0 <= k0 < _KINDS and 0 <= k1 < _KINDS
    pre: B.get("kinds") is None or (k0 in B["kinds"] and k1 in B["kinds"])
    post: _ == True
    """
    sc = _load_sc()
    kinds = [k0, k1]
    key = NS(name="gm-key-0")
    w = _World(2, [key], [[s0, False], [s1, False]], [m0, m1], [e0, e1])

    def load(file_like):
        # SignedCertificate.load's json.load: the real jsonbytes on the (concrete) text, tracing off
        from crosshair import deep_realize, NoTracing
        from allmydata.util import jsonbytes
        text = deep_realize(file_like.read())
        with NoTracing():
            return jsonbytes.loads(text)
    w.load = load
    b = sc.StorageFarmBroker.__new__(sc.StorageFarmBroker)
    b.storage_client_config = sc.StorageClientConfig(preferred_peers=(), storage_plugins={}, grid_manager_keys=[key])
    b.node_config = NS(get_config=lambda section, option, default=None, boolean=False: default)
    b._tub_maker = None
    b._default_connection_handlers = {"tcp": "tcp"}
    b._tor_provider = None
    b._got_connection = lambda: None
    ann = {"anonymous-storage-FURL": "pb://%s@nowhere/fake" % ("a" * 32), "permutation-seed-base32": "aaaaaaaaaaaaaaaa", "nickname": "n",
           "grid-manager-certificates": [_ENTRIES[0][k0], _ENTRIES[1][k1]]}
    saved = _install(w)
    saved2 = (sc.getPlugins, gm.current_datetime_with_zone)
    sc.getPlugins = lambda *a, **kw: iter(())       # twisted plugin discovery (file system scan); no storage plugins configured
    gm.current_datetime_with_zone = lambda: now
    server = None
    permitted = None
    try:
        try:
            server = _mss(b, b"v0-thisserver", {"ann": ann})
            permitted = server.upload_permitted()
        except Exception:
            server = None
    finally:
        _restore(saved)
        sc.getPlugins, gm.current_datetime_with_zone = saved2
    wellformed = [kinds[i] == 0 for i in range(2)]
    valid = [s0, s1]
    subject = [m0, m1]
    expires = [e0, e1]
    want = False
    for i in range(2):
        if wellformed[i] and valid[i] and subject[i] and expires[i] > now:
            want = True
    if server is None:
        # refusing the whole announcement is acceptable only if something in it is malformed
        if wellformed[0] and wellformed[1]:
            return "a server announcing only well-formed certificates was rejected"
        return True
    if permitted is not True and permitted is not False:
        return "upload_permitted() did not return a bool"
    if permitted and not want:
        return "grid-manager keys are configured and the server has no valid, unexpired certificate for its key, yet uploads to it are permitted"
    if want and not permitted:
        return "server with a valid certificate refused"
    return True
