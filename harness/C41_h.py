"""
C41 — the web API never exceeds the authority of the capability used.

Real code executed (nothing of the web layer is stubbed or stripped): web.root.Root (static children /uri, /cap, /file, /named, /private), URIHandler.getChild,
FileHandler.getChild, web.private (TokenChecker behind twisted's HTTPAuthSessionWrapper), web.directory.make_handler_for /
DirectoryNodeHandler (getChild, _got_child, render_GET/PUT/POST/DELETE, every _POST_* it dispatches to) / DirectoryAsHTML /
_directory_json_metadata / ManifestResults / ManifestStreamer / DeepStatsResults / UnknownNodeHandler / UnknownJSONMetadata,
web.filenode.FileNodeHandler / PlaceHolderNodeHandler / ReplaceMeMixin / _file_json_metadata / _file_uri / _file_read_only_uri,
web.info.MoreInfo(Element), web.common (render_exception, exception_to_child, _finish, humanize_exception, get_arg, parse_replace_arg,
get_format, get_mutable_type, should_create_intermediate_directories, convert_children_json, handle_when_done), twisted.web's
getChildForRequest / DeferredResource / Request.render, and below them the real DirectoryNode, NodeMaker.create_from_cap,
MutableFileNode / MutableFileVersion, LiteralFileNode, UnknownNode, uri classes, directory (un)packing with real AES/SHA-256.
The network below the nodes is the in-memory grid of harness/_webfix.py.

Inputs are requests chosen by symbolic selectors (which capability is used, which path, which method / t= / arguments, which child
kind, replace= / format= values, whether the gateway's node cache is warm): path-per-input, CrossHair explores every selector
combination within the bounds and the solver decides the selector arithmetic.  The selectors are pinned to plain integers by
comparison forks; the request itself then runs with opcode tracing switched off (W.untraced): one request through the whole
web stack costs 5-10 s under tracing and a few ms without, and on concrete inputs both compute the same thing.
"""
import base64
import json as _json
import urllib.parse
from vlib import hlib
from vlib.hlib import assume
hlib.ensure_shims()
import _dirfix as F
import _webfix as W
from _dirfix import pick
from allmydata import uri, dirnode as D
from allmydata.web import root as wroot, directory as wdir, filenode as wfile, info as winfo, common as wcommon

B = hlib.bounds()
W.unproxy_http()
NOTES = list(W.NOTES)
def _record_encoded():
    """record (with a source hash) what is executed; looked up by name so that a renamed helper does not kill the harness"""
    import types
    from allmydata.web import private as wprivate
    from allmydata.mutable import filenode as mfn
    from allmydata import nodemaker as nmk
    wanted = (
        (wroot, ("URIHandler", "FileHandler", "Root.__init__", "Root.getChild")),
        (wdir, ("make_handler_for", "DirectoryNodeHandler", "DirectoryAsHTML", "_directory_json_metadata", "_directory_uri", "_directory_readonly_uri",
                "ManifestResults", "ManifestElement", "ManifestStreamer", "DeepStatsResults", "DeepSizeResults", "UnknownNodeHandler", "UnknownJSONMetadata",
                "RenameForm", "_cap_to_link")),
        (wfile, ("FileNodeHandler", "FileNodeDownloadHandler", "PlaceHolderNodeHandler", "ReplaceMeMixin", "_file_json_metadata", "_file_uri", "_file_read_only_uri")),
        (winfo, ("MoreInfo", "MoreInfoElement")),
        (wcommon, ("render_exception", "exception_to_child", "_finish", "_getChild_failed", "_renderHTTP_exception", "humanize_exception", "get_arg",
                   "parse_replace_arg", "boolean_of_arg", "get_format", "get_mutable_type", "parse_offset_arg", "should_create_intermediate_directories",
                   "convert_children_json", "handle_when_done", "get_filenode_metadata", "text_plain")),
        (wprivate, ("Token", "TokenChecker", "TokenCredentialFactory", "PrivateRealm", "create_private_tree")),
        (D, ("DirectoryNode", "Adder", "Deleter")),
        (mfn, ("MutableFileNode", "MutableFileVersion")),
        (nmk, ("NodeMaker.create_from_cap", "NodeMaker._create_from_single_cap")),
    )
    for (mod, names) in wanted:
        for name in names:
            obj = mod
            for part in name.split("."):
                obj = getattr(obj, part, None)
                if obj is None:
                    break
            if obj is None:
                continue
            while hasattr(obj, "__wrapped__"):
                obj = obj.__wrapped__
            try:
                hlib.encoded(obj)
            except hlib.HarnessError:
                pass


_record_encoded()


# ---------------------------------------------------------------------------------------------------------
# the world: built once at import (concrete), copied into a fresh grid on every path
# ---------------------------------------------------------------------------------------------------------

def _b32(key):
    """base32 as it appears in cap strings (oracle side: python's own codec, not allmydata.util.base32)"""
    return base64.b32encode(key).decode("ascii").lower().rstrip("=").encode("ascii")


def _key(i):
    return bytes([i]) * 16


GRANDCHILD_W = F._ssk(0x31)            # writeable file linked (with its write cap) into every mutable child directory
LEAF_W = F._ssk(0x32)
LEAFDIR_W = uri.DirectoryURI(F._ssk(0x33))
FW_W = F._ssk(0x34)
# write secrets: the base32 writekey of every mutable object of the world + write caps of unknown format
_KEY_BYTES = [0x11, 0x12, 0x13, 0x14, 0x15, 0x16, 0x17, 0x18, 0x21, 0x22, 0x31, 0x32, 0x33, 0x34]
SECRETS = [_b32(_key(i)) for i in _KEY_BYTES] + [b"lafs://from_the_future_rw"]
for (_lb, (_rw, _ro, _k, _m)) in F.CAPS.items():
    if _rw is not None and not any(s in _rw for s in SECRETS):
        raise hlib.HarnessError("harness: write cap %r of the fixture is not covered by the secret list" % (_rw,))
    if any(s in _ro for s in SECRETS):
        raise hlib.HarnessError("harness: read cap %r of the fixture contains a write secret" % (_ro,))

METADATA = (
    {},
    {"tahoe": {"linkcrtime": 1202777696.5, "linkmotime": 1202777697.25}},
    {"ctime": 1202777000.0, "mtime": 1202777001.0, "user<key>": "a&b\"c", "tahoe": {}},
    {"no-write": True, "tahoe": {"linkcrtime": 1.0}},
)


def _ctr(key, data):
    """AES-CTR with a zero initial counter block (oracle side: the cryptography package directly)"""
    from cryptography.hazmat.primitives.ciphers import Cipher, algorithms, modes
    enc = Cipher(algorithms.AES(key), modes.CTR(b"\x00" * 16)).encryptor()
    return enc.update(data) + enc.finalize()


def _entry(label):
    """(rw cap or None, ro cap) of a fixture capability"""
    return (F.CAPS[label][0], F.CAPS[label][1])


def _ipack(kids, writekey, imm=False):
    """Directory contents written by the harness itself (NOT by dirnode.pack_children: a defect seeded into the packing /
    node code must not break the pre-state).  kids: {name: (rw cap or None, ro cap, metadata)}.  Format as documented in
    dirnode._unpack_contents: netstring per child of netstring(name) netstring(ro_uri) netstring(rwcapdata) netstring(metadata json),
    rwcapdata = salt(16) + AES-CTR(H(salt, writekey), rw_uri) + mac(32); read-cap slot without its ro./imm. marker."""
    from allmydata.util import hashutil
    out = []
    for name in sorted(kids.keys()):
        (rw, ro, md) = kids[name]
        if imm and rw is not None:
            raise hlib.HarnessError("harness: write cap in an immutable directory of the fixture")
        if writekey is None:
            rwcapdata = b""
        else:
            plain = rw or b""
            salt = hashutil.mutable_rwcap_salt_hash(plain)
            key = hashutil.mutable_rwcap_key_hash(salt, writekey)
            ct = _ctr(key, plain)
            rwcapdata = salt + ct + hashutil.hmac(key, salt + ct)
        out.append(F.ns(F.ns(name.encode("utf-8")) + F.ns(F.slot_model(ro, imm)) + F.ns(rwcapdata) + F.ns(_json.dumps(md).encode("utf-8"))))
    return b"".join(out)


_IMM_LABELS = ("chk", "lit", "dir2-chk", "dir2-lit", "unk-imm")
_DIR_LABELS = ("dir2", "dir2-ro", "dir2-mdmf", "dir2-mdmf-ro", "dir2-chk", "dir2-lit")
_FILE_KEYS = {"ssk": 0x11, "ssk-ro": 0x12, "mdmf": 0x13, "mdmf-ro": 0x14}
_DIRKEYS = {"dir2": (0x15, False), "dir2-ro": (0x16, False), "dir2-mdmf": (0x17, True), "dir2-mdmf-ro": (0x18, True)}
LIT_CAP = F.CAPS["lit"][1]


def _build_leak_world():
    """{md: (mutable objects, immutable objects)} for the listing obligations"""
    mut, imm = [], []
    for (lb, k) in _FILE_KEYS.items():
        fcap = F._mdmf(k) if lb.startswith("mdmf") else F._ssk(k)
        mut.append((fcap, b"contents of " + lb.encode("ascii")))
    mut.append((GRANDCHILD_W, b"grandchild"))
    gkids = {"g": (GRANDCHILD_W.to_string(), GRANDCHILD_W.get_readonly().to_string(), {}), "gl": (None, LIT_CAP, {})}
    for (lb, (k, mdmf)) in _DIRKEYS.items():
        fcap = F._mdmf(k) if mdmf else F._ssk(k)
        mut.append((fcap, _ipack(gkids, fcap.writekey)))
    # "chk" and "dir2-chk" share the CHK file cap of the fixture: its bytes are a packed immutable directory
    imm.append((F._CHK.to_string(), _ipack({"gl": (None, LIT_CAP, {})}, None, imm=True)))
    worlds = {}
    for md in range(len(METADATA)):
        kids = dict((lb, _entry(lb) + (dict(METADATA[md]),)) for lb in F.LABELS)
        ikids = dict((lb, (None, F.CAPS[lb][1], dict(METADATA[md]))) for lb in _IMM_LABELS)
        roots_mut = [(F.PARENT_W._filenode_uri, _ipack(kids, F.PARENT_W._filenode_uri.writekey)),
                     (F.PARENT_MDMF_W._filenode_uri, _ipack(kids, F.PARENT_MDMF_W._filenode_uri.writekey))]
        imm_root = uri.from_string(F.PARENT_IMM_CAP)._filenode_uri.to_string()
        roots_imm = [(imm_root, _ipack(ikids, None, imm=True))]
        worlds[md] = (mut + roots_mut, imm + roots_imm)
    return worlds


LEAK_WORLDS = _build_leak_world()
ROOT_CAPS = (
    # (cap used in the URL, has write authority, labels of the children)
    (F.PARENT_RO_CAP, False, F.LABELS),
    (F.PARENT_MDMF_W.get_readonly().to_string(), False, F.LABELS),
    (F.PARENT_IMM_CAP, False, _IMM_LABELS),
    (F.PARENT_RW_CAP, True, F.LABELS),
    (F.PARENT_MDMF_W.to_string(), True, F.LABELS),
)
ROOT_RW_OF = (F.PARENT_RW_CAP, F.PARENT_MDMF_W.to_string())


def _fresh(world):
    """a fresh grid holding copies of the prebuilt objects, a fresh gateway (client + node cache) and its /uri resource"""
    (mut, imm) = world
    g = W.Grid()
    for (fcap, contents) in mut:
        g.put_mutable(fcap, contents)
    for (cap, contents) in imm:
        g.put_immutable(cap, contents)
    W.GRID[0] = g
    del W.QUEUE[:]
    client = W.Client()
    return g, client, W.make_site(wroot.Root(client))


def _hold(client, capstr, depth):
    """the node objects an in-flight request of the WRITE-cap holder keeps alive in the same gateway (the NodeMaker's cache
    holds weak references only): the node for capstr and, `depth` levels down, its children"""
    from allmydata.interfaces import IDirectoryNode
    keep = []

    def visit(node, d):
        keep.append(node)
        if d > 0 and IDirectoryNode.providedBy(node):
            res = []
            node.list().addCallbacks(res.append, lambda f: None)
            W.flush()
            if res:
                keep.append(res[0])
                for (name, (child, md)) in list(res[0].items()):
                    visit(child, d - 1)
    visit(client.create_node_from_uri(capstr), depth)
    return keep


# ---------------------------------------------------------------------------------------------------------
# oracles
# ---------------------------------------------------------------------------------------------------------

import re as _re
# a base32 key field is delimited by non-base32 characters in every cap format (the fixture's periodic keys also occur, bit-shifted,
# inside longer base32 fields such as hashes: a bare substring test would be a false alarm of the harness)
_SECRET_RX = [(s, _re.compile(b"(?<![a-z2-7])" + _re.escape(s) + b"(?![a-z2-7])")) for s in SECRETS]


def _find_secret(raw):
    """the first write secret contained in the response bytes (as sent, URL-unquoted once and twice), or None"""
    forms = [raw]
    once = urllib.parse.unquote_to_bytes(raw)
    forms.append(once)
    forms.append(urllib.parse.unquote_to_bytes(once))
    for text in forms:
        for (s, rx) in _SECRET_RX:
            if rx.search(text):
                return s
    return None


def _json_keys(x, out):
    if isinstance(x, dict):
        for (k, v) in x.items():
            out.append(k)
            _json_keys(v, out)
    elif isinstance(x, list):
        for v in x:
            _json_keys(v, out)


GET_OPS = (b"json", b"info", b"uri", b"readonly-uri", b"", b"rename-form")


def _leak_request(capstr, path, opi):
    """GET ?t=<op> (ops 0..5) or one of the manifest / deep-stats POSTs (6..9) on cap/path"""
    segs = [b"uri", capstr] + [p.encode("utf-8") for p in path]
    is_dir = (len(path) == 0) or (len(path) == 1 and path[0] in _DIR_LABELS)
    if opi < len(GET_OPS):
        t = GET_OPS[opi]
        if is_dir and t in (b"", b"info", b"rename-form"):
            segs = segs + [b""]          # directory pages are served with a trailing slash
        return W.make_request(b"GET", segs, {b"t": [t]} if t else {})
    t = (b"stream-manifest", b"start-manifest", b"start-deep-stats", b"start-deep-size")[opi - len(GET_OPS)]
    return W.make_request(b"POST", segs, {b"t": [t], b"ophandle": [b"op1"]})


N_LEAK_OPS = len(GET_OPS) + 4


def _render_followup(renderer, r):
    body = renderer.render(r)
    if isinstance(body, bytes):
        r.write(body)
        r.finish()
    W.flush()
    return r.response_bytes()


def _followups(client):
    """responses of the operation renderers registered by start-manifest / start-deep-*: every output format"""
    out = []
    for (monitor, renderer) in client.web.ops.monitors:
        if not monitor.is_finished():
            raise hlib.HarnessError("harness: traversal did not finish synchronously")
        for fmt in (b"json", b"text", b"html"):
            out.append(_render_followup(renderer, W.make_request(b"GET", [b"operations", b"op1"], {b"output": [fmt]})))
    return out


def _target_path(labels, target):
    """target 0: the directory itself; 1..15: child by label index; 16..21: grandchild of a directory child; None if the
    directory has no such child"""
    n = len(F.LABELS)
    if target == 0:
        return []
    if target <= n:
        lb = F.LABELS[target - 1]
        return [lb] if lb in labels else None
    lb = _DIR_LABELS[target - n - 1]
    if lb not in labels:
        return None
    return [lb, "g" if lb not in ("dir2-chk", "dir2-lit") else "gl"]


N_TARGETS = 1 + len(F.LABELS) + len(_DIR_LABELS)
_TARGET_OK = tuple(tuple(_target_path(rc[2], t) is not None for t in range(N_TARGETS)) for rc in ROOT_CAPS)


def _target_ok(access, target):
    for a in range(len(ROOT_CAPS)):
        if access == a:
            for t in range(N_TARGETS):
                if target == t:
                    return _TARGET_OK[a][t]
    return False


def _in(bname, v):
    return B.get(bname) is None or v in B[bname]


def _pin(x, lo, hi):
    for v in range(lo, hi + 1):
        if x == v:
            return v
    raise hlib.HarnessError("harness: selector outside its declared range")


def _run_ro_listing(access, md, target, opi, warm):
    held = []
    try:
        return _run_ro_listing2(access, md, target, opi, warm, held)
    finally:
        del held[:]


def _run_ro_listing2(access, md, target, opi, warm, held):
    (capstr, writeable, labels) = ROOT_CAPS[access]
    path = _target_path(labels, target)
    g, client, site = _fresh(LEAK_WORLDS[md])
    if warm:
        # the gateway first served the holder of the write cap (same process, same node cache)
        rwcap = ROOT_RW_OF[access]
        r0 = W.serve(site, W.make_request(b"GET", [b"uri", rwcap], {b"t": [b"json"]}))
        if r0.code != 200 or _find_secret(r0.response_bytes()) is None:
            return "harness: the write-cap holder's listing does not show write caps"
        W.serve(site, _leak_request(rwcap, path, opi))
        del client.web.ops.monitors[:]
        del g.log[:]
        held.extend(_hold(client, rwcap, 2))
    before = g.snapshot()
    req = W.serve(site, _leak_request(capstr, path, opi))
    if req.finish_count != 1:
        return "response not finished exactly once (finish_count=%d)" % req.finish_count
    outputs = [req.response_bytes()] + _followups(client)
    for raw in outputs:
        s = _find_secret(raw)
        if s is not None:
            return "response made through a capability without write authority contains the write secret %r" % (s,)
        if b'"rw_uri"' in raw:
            return "response made through a capability without write authority has an rw_uri field"
    if g.snapshot() != before or g.log:
        return "a read request changed the grid / reached the storage layer with a write: %r" % (g.log,)
    if opi < 4 and target == 0 and req.code != 200:
        return "harness: listing of the directory itself failed with %r" % (req.code,)
    if opi == 0 and target == 0:
        doc = _json.loads(req.body_bytes().decode("utf-8"))
        if sorted(doc[1]["children"].keys()) != sorted(labels):
            return "harness: the listing does not show the fixture's children"
    return True


def h_ro_listing(access: int, md: int, target: int, opi: int, warm: bool) -> bool:
    """
    pre: 0 <= access <= 2 and 0 <= md < len(METADATA) and 0 <= target < N_TARGETS and 0 <= opi < N_LEAK_OPS
    pre: _in("access", access) and _in("md", md) and _in("opi", opi) and _in("warm", int(warm))
    pre: _target_ok(access, target)
    pre: not warm or access < 2
    post: _ == True
    """
    return W.untraced(_run_ro_listing, _pin(access, 0, 2), _pin(md, 0, len(METADATA) - 1), _pin(target, 0, N_TARGETS - 1),
                      _pin(opi, 0, N_LEAK_OPS - 1), bool(warm))


def _run_rw_listing(access, md, target):
    # control: through the write cap the same requests DO show write caps (exactly those the fixture stored), and the
    # read-only slots of the answer (ro_uri, verify_uri, t=readonly-uri) never carry one
    (capstr, writeable, labels) = ROOT_CAPS[access]
    path = _target_path(labels, target)
    g, client, site = _fresh(LEAK_WORLDS[md])
    req = W.serve(site, W.make_request(b"GET", [b"uri", capstr] + [p.encode("utf-8") for p in path], {b"t": [b"json"]}))
    if req.code != 200:
        return "t=json through the write cap failed: %r" % (req.code,)
    doc = _json.loads(req.body_bytes().decode("utf-8"))
    if target == 0:
        if doc[1].get("rw_uri") != capstr.decode("ascii"):
            return "directory's own rw_uri is not the cap used"
        entries = [(lb, doc[1]["children"].get(lb)) for lb in labels]
    else:
        entries = [(path[0], doc)]
    for (lb, e) in entries:
        if e is None:
            return "child %s missing from the listing" % lb
        (rw, ro, kind, mutable) = F.CAPS[lb]
        got_rw = e[1].get("rw_uri")
        if (got_rw.encode("ascii") if got_rw is not None else None) != rw:
            return "child %s: rw_uri %r, stored write cap %r" % (lb, got_rw, rw)
        if e[1].get("ro_uri", "").encode("ascii") != ro:
            return "child %s: ro_uri %r is not its read cap %r" % (lb, e[1].get("ro_uri"), ro)
    slots = []

    def walk(x):
        if isinstance(x, dict):
            for (k, v) in x.items():
                if k in ("ro_uri", "verify_uri") and isinstance(v, str):
                    slots.append(v.encode("ascii"))
                walk(v)
        elif isinstance(x, list):
            for v in x:
                walk(v)
    walk(doc)
    r2 = W.serve(site, W.make_request(b"GET", [b"uri", capstr] + [p.encode("utf-8") for p in path], {b"t": [b"readonly-uri"]}))
    if r2.code == 200:
        slots.append(r2.body_bytes())
    elif not (target > 0 and F.CAPS[path[0]][2] == "unknown"):
        return "t=readonly-uri failed: %r" % (r2.code,)
    for v in slots:
        if _find_secret(v) is not None:
            return "a read-only slot of the answer carries a write secret: %r" % (v,)
    if g.log:
        return "a read request reached the storage layer with a write"
    return True


def h_rw_listing(access: int, md: int, target: int) -> bool:
    """
    pre: 3 <= access <= 4 and 0 <= md < len(METADATA) and 0 <= target <= len(F.LABELS)
    pre: _in("md", md) and _in("target", target)
    post: _ == True
    """
    return W.untraced(_run_rw_listing, _pin(access, 3, 4), _pin(md, 0, len(METADATA) - 1), _pin(target, 0, len(F.LABELS)))


# ---------------------------------------------------------------------------------------------------------
# modifying requests
# ---------------------------------------------------------------------------------------------------------

IMM2 = uri.CHKFileURI(b"\x26" * 16, b"\x27" * 32, 3, 10, 18)
IMMSUB = uri.ImmutableDirectoryURI(uri.CHKFileURI(b"\x25" * 16, b"\x28" * 32, 3, 10, 77))
FRO_W = F._ssk(0x12)
FRO_MDMF_W = F._mdmf(0x14)
KIDS_JSON = _json.dumps({"c": ["filenode", {"ro_uri": LIT_CAP.decode("ascii"), "metadata": {}}]}).encode("ascii")


def _rw(u):
    return (u.to_string(), u.get_readonly().to_string(), {})


def _ro(u):
    return (None, u.get_readonly().to_string(), {})


def _build_mod_world(mdmf):
    """(mutable objects, immutable objects, caps) of the tree used by the modifying-request obligations"""
    root_w = F.PARENT_MDMF_W if mdmf else F.PARENT_W
    d1_w = uri.MDMFDirectoryURI(F._mdmf(0x17)) if mdmf else uri.DirectoryURI(F._ssk(0x15))
    d2_w = uri.DirectoryURI(F._ssk(0x16))
    fro_w = FRO_MDMF_W if mdmf else FRO_W
    mut, imm = [], []
    mut.append((LEAF_W, b"old contents of leaf"))
    mut.append((FW_W, b"old contents of fw"))
    mut.append((fro_w, b"old contents of fro"))
    mut.append((LEAFDIR_W._filenode_uri, _ipack({"x": (None, LIT_CAP, {})}, LEAFDIR_W._filenode_uri.writekey)))
    imm.append((IMM2.to_string(), b"immutable contents"))
    d1_kids = {"leaf": _rw(LEAF_W), "leafdir": _rw(LEAFDIR_W), "imm": (None, IMM2.to_string(), {}),
               "unk": _entry("unk-rw") + ({},)}
    mut.append((d1_w._filenode_uri, _ipack(d1_kids, d1_w._filenode_uri.writekey)))
    mut.append((d2_w._filenode_uri, b""))
    immsub_kids = {"leaf": (None, LIT_CAP, {}), "leafdir": (None, F.CAPS["dir2-lit"][1], {}), "imm": (None, IMM2.to_string(), {})}
    imm.append((IMMSUB._filenode_uri.to_string(), _ipack(immsub_kids, None, imm=True)))
    root_kids = {"sub": _rw(d1_w), "sub-ro": _ro(d1_w), "immsub": (None, IMMSUB.to_string(), {}), "fw": _rw(FW_W),
                 "fro": _ro(fro_w), "target": _rw(d2_w)}
    mut.append((root_w._filenode_uri, _ipack(root_kids, root_w._filenode_uri.writekey)))
    caps = {"root_rw": root_w.to_string(), "root_ro": root_w.get_readonly().to_string(), "root_v": root_w.get_verify_cap().to_string(),
            "d1_rw": d1_w.to_string(), "d1_ro": d1_w.get_readonly().to_string(), "d1_v": d1_w.get_verify_cap().to_string(),
            "d2_rw": d2_w.to_string(), "fro_ro": fro_w.get_readonly().to_string(), "fro_v": fro_w.get_verify_cap().to_string(),
            "fw_rw": FW_W.to_string(), "immsub": IMMSUB.to_string(), "imm2_v": IMM2.get_verify_cap().to_string(),
            "leafdir_rw": LEAFDIR_W.to_string()}
    return (mut, imm, caps)


MOD_WORLDS = (_build_mod_world(False), _build_mod_world(True))


def _prefix(caps, shape):
    """URL segments that reach the directory D"""
    table = (
        [caps["root_ro"], b"sub"],          # 0: the root through its read-only cap, D below it
        [caps["root_rw"], b"sub-ro"],        # 1: a writeable root holding only a read-only link to D
        [caps["d1_ro"]],                    # 2: D's read-only cap itself
        [caps["root_rw"], b"immsub"],       # 3: an immutable directory below a writeable root
        [caps["d1_v"]],                     # 4: D's verify cap
        [caps["root_ro"], b"immsub"],       # 5: immutable directory below a read-only root
        [caps["root_rw"], b"sub"],          # 6: CONTROL - every directory on the path is writeable
    )
    return list(table[shape])


N_RO_SHAPES = 6
CONTROL_SHAPE = 6

# (label, method, path below D, query args, body, upload field, "needs the name to exist")
_U = b"new file contents"
OPS = (
    ("POST mkdir name=new", b"POST", [], {b"t": b"mkdir", b"name": b"new"}, b"", None),
    ("POST mkdir name=leafdir", b"POST", [], {b"t": b"mkdir", b"name": b"leafdir"}, b"", None),
    ("POST mkdir-with-children name=new", b"POST", [], {b"t": b"mkdir-with-children", b"name": b"new"}, KIDS_JSON, None),
    ("POST mkdir-immutable name=new", b"POST", [], {b"t": b"mkdir-immutable", b"name": b"new"}, KIDS_JSON, None),
    ("POST upload name=new", b"POST", [], {b"t": b"upload", b"name": b"new"}, b"", _U),
    ("POST upload name=new format=sdmf", b"POST", [], {b"t": b"upload", b"name": b"new", b"format": b"sdmf"}, b"", _U),
    ("POST upload name=new format=mdmf", b"POST", [], {b"t": b"upload", b"name": b"new", b"format": b"MDMF"}, b"", _U),
    ("POST upload name=leaf", b"POST", [], {b"t": b"upload", b"name": b"leaf"}, b"", _U),
    ("POST upload name=imm", b"POST", [], {b"t": b"upload", b"name": b"imm"}, b"", _U),
    ("POST uri name=new", b"POST", [], {b"t": b"uri", b"name": b"new", b"uri": LIT_CAP}, b"", None),
    ("POST uri name=leaf", b"POST", [], {b"t": b"uri", b"name": b"leaf", b"uri": LIT_CAP}, b"", None),
    ("POST delete name=leaf", b"POST", [], {b"t": b"delete", b"name": b"leaf"}, b"", None),
    ("POST unlink name=leafdir", b"POST", [], {b"t": b"unlink", b"name": b"leafdir"}, b"", None),
    ("POST rename leaf->new", b"POST", [], {b"t": b"rename", b"from_name": b"leaf", b"to_name": b"new"}, b"", None),
    ("POST relink leaf->D2/moved", b"POST", [], {b"t": b"relink", b"from_name": b"leaf", b"to_name": b"moved", b"to_dir": b"@d2_rw"}, b"", None),
    ("POST set_children", b"POST", [], {b"t": b"set_children"}, KIDS_JSON, None),
    ("POST set-children", b"POST", [], {b"t": b"set-children"}, KIDS_JSON, None),
    ("PUT new", b"PUT", [b"new"], {}, _U, None),
    ("PUT new format=sdmf", b"PUT", [b"new"], {b"format": b"SDMF"}, _U, None),
    ("PUT new format=mdmf", b"PUT", [b"new"], {b"format": b"mdmf"}, _U, None),
    ("PUT new mutable=true", b"PUT", [b"new"], {b"mutable": b"true"}, _U, None),
    ("PUT leaf", b"PUT", [b"leaf"], {}, _U, None),
    ("PUT leaf offset=0", b"PUT", [b"leaf"], {b"offset": b"0"}, _U, None),
    ("PUT imm", b"PUT", [b"imm"], {}, _U, None),
    ("PUT new t=uri", b"PUT", [b"new"], {b"t": b"uri"}, LIT_CAP, None),
    ("PUT leaf t=uri", b"PUT", [b"leaf"], {b"t": b"uri"}, LIT_CAP, None),
    ("PUT new t=mkdir", b"PUT", [b"new"], {b"t": b"mkdir"}, b"", None),
    ("POST new t=mkdir", b"POST", [b"new"], {b"t": b"mkdir"}, b"", None),
    ("POST new t=mkdir-with-children", b"POST", [b"new"], {b"t": b"mkdir-with-children"}, KIDS_JSON, None),
    ("POST new t=mkdir-immutable", b"POST", [b"new"], {b"t": b"mkdir-immutable"}, KIDS_JSON, None),
    ("PUT newdir/newfile", b"PUT", [b"newdir", b"newfile"], {}, _U, None),
    ("DELETE leaf", b"DELETE", [b"leaf"], {}, b"", None),
    ("DELETE leafdir", b"DELETE", [b"leafdir"], {}, b"", None),
    ("POST leaf t=upload", b"POST", [b"leaf"], {b"t": b"upload"}, b"", _U),
    ("POST imm t=upload", b"POST", [b"imm"], {b"t": b"upload"}, b"", _U),
    ("POST leafdir t=mkdir name=deep", b"POST", [b"leafdir"], {b"t": b"mkdir", b"name": b"deep"}, b"", None),
    ("PUT leafdir/new", b"PUT", [b"leafdir", b"new"], {}, _U, None),
    ("POST leafdir t=delete name=x", b"POST", [b"leafdir"], {b"t": b"delete", b"name": b"x"}, b"", None),
    ("PUT leafdir t=uri", b"PUT", [b"leafdir"], {b"t": b"uri"}, LIT_CAP, None),
    ("POST t=' unlink ' name=leaf", b"POST", [], {b"t": b" unlink ", b"name": b"leaf"}, b"", None),
    ("POST uri name=new uri=<write cap>", b"POST", [], {b"t": b"uri", b"name": b"new", b"uri": b"@fw_rw"}, b"", None),
    ("POST mkdir name=new format=mdmf", b"POST", [], {b"t": b"mkdir", b"name": b"new", b"format": b"mdmf"}, b"", None),
)
REPLACE = (None, b"true", b"false", b"only-files", b"TRUE", b"bogus")


def _mod_request(caps, shape, opi, ri, when_done, route=b"uri"):
    (label, method, below, args, body, upload) = OPS[opi]
    segs = [route] + _prefix(caps, shape) + list(below)
    q = {}
    for (k, v) in args.items():
        if v[:1] == b"@":
            v = caps[v[1:].decode("ascii")]
        q[k] = [v]
    r = REPLACE[ri]
    if r is not None:
        q[b"replace"] = [r]
    if when_done:
        q[b"when_done"] = [b"/done"]
    fields = None
    if upload is not None:
        fields = W.Fields({"file": W.Field(upload, filename="upload.bin")})
    return W.make_request(method, segs, q, body=body, fields=fields)


def _run_ro_modify(mdmf, shape, opi, ri, when_done, warm, want_objects):
    held = []
    try:
        return _run_ro_modify2(mdmf, shape, opi, ri, when_done, warm, want_objects, held)
    finally:
        del held[:]


def _run_ro_modify2(mdmf, shape, opi, ri, when_done, warm, want_objects, held):
    (mut, imm, caps) = MOD_WORLDS[1 if mdmf else 0]
    g, client, site = _fresh((mut, imm))
    if warm:
        # the gateway has just served the write-cap holder on the same tree (node cache holds writeable nodes)
        for p in ([caps["root_rw"]], [caps["root_rw"], b"sub"], [caps["root_rw"], b"sub", b"leafdir"]):
            r0 = W.serve(site, W.make_request(b"GET", [b"uri"] + p, {b"t": [b"json"]}))
            if r0.code != 200:
                return "harness: warm-up listing failed"
        held.extend(_hold(client, caps["root_rw"], 3))
        held.extend(_hold(client, caps["d1_rw"], 2))
        if g.log:
            return "harness: warm-up wrote to the grid"
    before = g.snapshot()
    # both names of the same resource are used: /uri/... on the SDMF tree, its alias /cap/... on the MDMF tree
    req = W.serve(site, _mod_request(caps, shape, opi, ri, when_done, route=(b"cap" if mdmf else b"uri")))
    label = OPS[opi][0]
    if req.finish_count != 1:
        return "%s: response not finished exactly once (finish_count=%d, code=%r)" % (label, req.finish_count, req.code)
    after = g.snapshot()
    if want_objects:
        created = [e for e in g.log if e[0] in ("create", "upload")]
        if created:
            return "%s: refused with %r, but new objects were put on the grid first: %r" % (label, req.code, [e[0] for e in created])
        return True
    if not (400 <= req.code <= 599):
        return "%s through a path without write authority was answered with %r" % (label, req.code)
    for (si, v) in before[0].items():
        if after[0].get(si) != v:
            return "%s: a mutable object of the grid changed although the request was refused (%r)" % (label, req.code)
    for (cap, v) in before[1].items():
        if after[1].get(cap) != v:
            return "%s: an immutable object changed" % label
    attempts = [e for e in g.log if e[0] in ("publish", "refused")]
    if attempts:
        return "%s: a write reached the storage layer (%r)" % (label, [e[0] for e in attempts])
    return True


def h_ro_modify(mdmf: bool, shape: int, opi: int, ri: int, when_done: bool, warm: bool) -> bool:
    """
    pre: 0 <= shape < N_RO_SHAPES and 0 <= opi < len(OPS) and 0 <= ri < len(REPLACE)
    pre: _in("shape", shape) and _in("opi", opi) and _in("ri", ri) and _in("mdmf", int(mdmf)) and _in("warm", int(warm)) and _in("when_done", int(when_done))
    post: _ == True
    """
    return W.untraced(_run_ro_modify, bool(mdmf), _pin(shape, 0, N_RO_SHAPES - 1), _pin(opi, 0, len(OPS) - 1), _pin(ri, 0, len(REPLACE) - 1),
                      bool(when_done), bool(warm), False)


def _run_rw_modify(mdmf, opi, when_done):
    # CONTROL: the same request on a path whose every directory is writeable is carried out (so each entry of OPS really is
    # a modifying request and the refusals above are due to missing authority, not to a malformed request)
    (mut, imm, caps) = MOD_WORLDS[1 if mdmf else 0]
    g, client, site = _fresh((mut, imm))
    before = g.snapshot()
    req = W.serve(site, _mod_request(caps, CONTROL_SHAPE, opi, 0, when_done, route=(b"cap" if mdmf else b"uri")))
    label = OPS[opi][0]
    if req.finish_count != 1:
        return "%s: response not finished exactly once" % label
    if not (200 <= req.code < 400):
        return "%s with full write authority was answered with %r" % (label, req.code)
    if when_done and OPS[opi][1] == b"POST" and req.code != 302:
        return "%s: when_done did not redirect (%r)" % (label, req.code)
    after = g.snapshot()
    if after == before:
        return "%s with full write authority changed nothing" % label
    if not any(e[0] == "publish" for e in g.log):
        return "%s with full write authority published nothing" % label
    return True


def h_rw_modify(mdmf: bool, opi: int, when_done: bool) -> bool:
    """
    pre: 0 <= opi < len(OPS)
    pre: _in("opi", opi)
    post: _ == True
    """
    return W.untraced(_run_rw_modify, bool(mdmf), _pin(opi, 0, len(OPS) - 1), bool(when_done))


def _orphan_class(mdmf, shape, opi, ri, when_done, warm):
    return "new-object-before-refusal:%s" % OPS[opi][0]


EXCLUDED = []
CLASSIFY = {"h_ro_new_objects": _orphan_class}


def h_ro_new_objects(mdmf: bool, shape: int, opi: int, ri: int, when_done: bool, warm: bool) -> bool:
    """
    pre: 0 <= shape < N_RO_SHAPES and 0 <= opi < len(OPS) and 0 <= ri < len(REPLACE)
    pre: _in("shape", shape) and _in("opi", opi) and _in("ri", ri) and _in("mdmf", int(mdmf)) and _in("warm", int(warm)) and _in("when_done", int(when_done))
    post: _ == True
    """
    # "changes nothing on the grid", second half: a refused request has not put NEW objects (uploads, fresh mutable slots) on the grid either
    shape, opi = _pin(shape, 0, N_RO_SHAPES - 1), _pin(opi, 0, len(OPS) - 1)
    assume(_orphan_class(mdmf, shape, opi, ri, when_done, warm) not in EXCLUDED)
    return W.untraced(_run_ro_modify, bool(mdmf), shape, opi, _pin(ri, 0, len(REPLACE) - 1), bool(when_done), bool(warm), True)


# ---- a mutable / immutable FILE addressed without write authority -------------------------------------------------

def _file_prefix(caps, shape):
    table = (
        [b"uri", caps["fro_ro"]],                   # 0: read-only cap of the file
        [b"uri", caps["root_rw"], b"fro"],          # 1: read-only link to it in a writeable directory
        [b"uri", caps["root_ro"], b"fw"],           # 2: a writeable file reached through a read-only directory
        [b"cap", caps["root_ro"], b"fro"],          # 3
        [b"uri", caps["fro_v"]],                    # 4: verify cap
        [b"uri", IMM2.to_string()],                 # 5: an immutable file by its cap
        [b"cap", caps["root_rw"], b"immsub", b"imm"],   # 6: an immutable file inside an immutable directory
        [b"uri", LIT_CAP],                          # 7: a literal file
        [b"file", caps["fro_ro"], b"name.txt"],     # 8: the download-only routes /file/<cap>/<name> ...
        [b"named", caps["fro_ro"], b"name.txt"],    # 9: ... and /named/<cap>/<name>
        [b"uri", caps["root_rw"], b"fw"],           # 10: CONTROL - writeable file in a writeable directory
    )
    return list(table[shape])


N_FILE_SHAPES = 10
FILE_CONTROL = 10
FILE_OPS = (
    # (label, method, args, body, upload, touches the parent link only)
    ("PUT", b"PUT", {}, _U, None, False),
    ("PUT offset=0", b"PUT", {b"offset": b"0"}, _U, None, False),
    ("PUT offset=4", b"PUT", {b"offset": b"4"}, _U, None, False),
    ("PUT format=mdmf", b"PUT", {b"format": b"mdmf"}, _U, None, False),
    ("POST t=upload", b"POST", {b"t": b"upload"}, b"", _U, False),
    ("POST t=upload when_done", b"POST", {b"t": b"upload", b"when_done": b"/done"}, b"", _U, False),
    ("PUT t=uri", b"PUT", {b"t": b"uri"}, LIT_CAP, None, True),
    ("DELETE", b"DELETE", {}, b"", None, True),
)


def _run_ro_file(mdmf, shape, opi, ri, warm):
    held = []
    try:
        return _run_ro_file2(mdmf, shape, opi, ri, warm, held)
    finally:
        del held[:]


def _run_ro_file2(mdmf, shape, opi, ri, warm, held):
    (mut, imm, caps) = MOD_WORLDS[1 if mdmf else 0]
    g, client, site = _fresh((mut, imm))
    (label, method, args, body, upload, link_op) = FILE_OPS[opi]
    q = dict((k, [v]) for (k, v) in args.items())
    if REPLACE[ri] is not None:
        q[b"replace"] = [REPLACE[ri]]
    fields = W.Fields({"file": W.Field(upload, filename="upload.bin")}) if upload is not None else None
    if warm:
        for p in ([caps["root_rw"]], [caps["root_rw"], b"fw"], [caps["fw_rw"]]):
            W.serve(site, W.make_request(b"GET", [b"uri"] + p, {b"t": [b"json"]}))
        held.extend(_hold(client, caps["root_rw"], 2))
        held.extend(_hold(client, caps["fw_rw"], 0))
        if g.log:
            return "harness: warm-up wrote to the grid"
    before = g.snapshot()
    req = W.serve(site, W.make_request(method, _file_prefix(caps, shape), q, body=body, fields=fields))
    if req.finish_count != 1:
        return "%s: response not finished exactly once (code=%r)" % (label, req.code)
    if not (400 <= req.code <= 599):
        return "%s on a file without write authority was answered with %r" % (label, req.code)
    after = g.snapshot()
    for part in (0, 1):
        for (k, v) in before[part].items():
            if after[part].get(k) != v:
                return "%s: an object of the grid changed although the request was refused (%r)" % (label, req.code)
    attempts = [e[0] for e in g.log if e[0] in ("publish", "refused")]
    if attempts:
        return "%s: the request reached the storage layer: %r" % (label, attempts)
    # (objects newly created before the refusal - format=mdmf on an immutable child - are the subject of ro_new_objects)
    return True


def _file_case_ok(shape, opi):
    # shape 1 (read-only link in a WRITEABLE directory): replacing / removing the link is within the authority used
    for o in range(len(FILE_OPS)):
        if opi == o:
            return not (FILE_OPS[o][5] and shape == 1)
    return False


def h_ro_file(mdmf: bool, shape: int, opi: int, ri: int, warm: bool) -> bool:
    """
    pre: 0 <= shape < N_FILE_SHAPES and 0 <= opi < len(FILE_OPS) and 0 <= ri < len(REPLACE)
    pre: _in("shape", shape) and _in("ri", ri) and _in("warm", int(warm)) and _in("mdmf", int(mdmf))
    pre: _file_case_ok(shape, opi)
    post: _ == True
    """
    return W.untraced(_run_ro_file, bool(mdmf), _pin(shape, 0, N_FILE_SHAPES - 1), _pin(opi, 0, len(FILE_OPS) - 1),
                      _pin(ri, 0, len(REPLACE) - 1), bool(warm))


def _run_rw_file(opi):
    # CONTROL: the content operations succeed on a writeable file and change exactly that file
    (mut, imm, caps) = MOD_WORLDS[0]
    g, client, site = _fresh((mut, imm))
    (label, method, args, body, upload, link_op) = FILE_OPS[opi]
    q = dict((k, [v]) for (k, v) in args.items())
    fields = W.Fields({"file": W.Field(upload, filename="upload.bin")}) if upload is not None else None
    before = g.snapshot()
    req = W.serve(site, W.make_request(method, _file_prefix(caps, FILE_CONTROL), q, body=body, fields=fields))
    if not (200 <= req.code < 400):
        return "%s on a writeable file was answered with %r" % (label, req.code)
    after = g.snapshot()
    changed = [si for si in before[0] if after[0].get(si) != before[0][si]]
    want = MOD_WORLDS[0][2]["root_rw"] if link_op else None
    si_fw = FW_W.get_storage_index()
    si_root = uri.from_string(MOD_WORLDS[0][2]["root_rw"]).get_storage_index()
    if changed != [si_root if link_op else si_fw]:
        return "%s changed %d objects, expected exactly the %s" % (label, len(changed), "parent directory" if link_op else "file")
    if not link_op:
        old = before[0][si_fw][0]
        new = after[0][si_fw][0]
        off = int(args.get(b"offset", b"-1"))
        data = upload if upload is not None else body
        expect = data if off < 0 else old[:off] + data + old[off + len(data):]
        if new != expect:
            return "%s: new contents %r, expected %r" % (label, new, expect)
    return True


def h_rw_file(opi: int) -> bool:
    """
    pre: 0 <= opi < len(FILE_OPS) and opi != 3
    post: _ == True
    """
    return W.untraced(_run_rw_file, _pin(opi, 0, len(FILE_OPS) - 1))


# ---- relink INTO a directory for which the request carries no write authority ---------------------------------------

def _dests(caps):
    return (
        caps["d1_ro"],                                   # 0: read-only cap
        caps["root_ro"] + b"/sub",                       # 1: path through a read-only root
        caps["root_rw"] + b"/sub-ro",                     # 2: read-only link below a writeable root
        caps["immsub"],                                  # 3: immutable directory
        caps["root_rw"] + b"/immsub",                    # 4
        caps["d1_v"],                                    # 5: verify cap
        caps["root_rw"] + b"/fw",                        # 6: not a directory
        caps["d2_rw"],                                   # 7: CONTROL - writeable destination
    )


N_DESTS = 7


def _run_relink_into(mdmf, src, dest, ri):
    (mut, imm, caps) = MOD_WORLDS[1 if mdmf else 0]
    g, client, site = _fresh((mut, imm))
    # source directory is writeable in every case: the root (child "fw") or D through its write cap (child "leaf")
    (segs, name) = (([b"uri", caps["root_rw"]], b"fw"), ([b"uri", caps["root_rw"], b"sub"], b"leaf"), ([b"cap", caps["d1_rw"]], b"leafdir"))[src]
    q = {b"t": [b"relink"], b"from_name": [name], b"to_name": [b"moved-in"], b"to_dir": [_dests(caps)[dest]]}
    if REPLACE[ri] is not None:
        q[b"replace"] = [REPLACE[ri]]
    before = g.snapshot()
    req = W.serve(site, W.make_request(b"POST", segs, q))
    if req.finish_count != 1:
        return "relink: response not finished exactly once"
    if dest == N_DESTS:
        if REPLACE[ri] == b"bogus":
            return True if (req.code == 400 and g.snapshot() == before) else "control: bad replace= not refused cleanly"
        if not (200 <= req.code < 400) or g.snapshot() == before:
            return "control: relink into a writeable directory failed (%r)" % (req.code,)
        return True
    if not (400 <= req.code <= 599):
        return "relink into a directory without write authority was answered with %r" % (req.code,)
    if g.snapshot() != before:
        return "relink into a directory without write authority changed the grid (the source lost its child?) although refused (%r)" % (req.code,)
    if g.log:
        return "relink: a write reached the storage layer: %r" % ([e[0] for e in g.log],)
    return True


def h_relink_into(mdmf: bool, src: int, dest: int, ri: int) -> bool:
    """
    pre: 0 <= src <= 2 and 0 <= dest <= N_DESTS and 0 <= ri < len(REPLACE)
    pre: _in("ri", ri)
    post: _ == True
    """
    return W.untraced(_run_relink_into, bool(mdmf), _pin(src, 0, 2), _pin(dest, 0, N_DESTS), _pin(ri, 0, len(REPLACE) - 1))


# ---- the private area (/private/...): reachable only with the node's API auth token -----------------------------------

_SCHEMES = (b"tahoe-lafs", b"Tahoe-LAFS", b"TAHOE-LAFS", b"Basic", b"tahoe-lafs2", b"")


def _run_private(kind, p, scheme, method):
    g, client, site = _fresh(MOD_WORLDS[0][:2])
    token = client.AUTH_TOKEN
    if kind == 0:
        sent = token                                        # the token itself
    elif kind == 1:
        sent = token[:p] + bytes([token[p] ^ 1]) + token[p + 1:]     # one byte differs at position p
    elif kind == 2:
        sent = token[:p]                                    # proper prefix (p < len)
    elif kind == 3:
        sent = token + token[p:p + 1]                       # one byte longer
    elif kind == 4:
        sent = token + b" "
    elif kind == 5:
        sent = b" " + token                                 # two blanks after the scheme
    elif kind == 6:
        sent = token.swapcase()
    elif kind == 7:
        sent = token + b" " + token                       # (a line break cannot arrive inside a header value)
    else:
        sent = None                                         # no Authorization header at all
    headers = {}
    if sent is not None:
        headers[b"authorization"] = _SCHEMES[scheme] + b" " + sent
    req = W.make_request((b"GET", b"POST", b"PUT", b"DELETE")[method], [b"private", b"logs"], {}, headers=headers)
    W.serve(site, req)
    if req.finish_count != 1:
        return "harness: /private request not finished exactly once"
    denied = (req.code == 401)
    # independent statement: the private tree is served iff the header is '<scheme, any case> <exactly the token>'
    should = (sent is not None and sent == token and _SCHEMES[scheme].lower() == b"tahoe-lafs")
    if should and denied:
        return "the correct token was refused"
    if not should and not denied:
        return "the private area was served (status %r) for Authorization: %r" % (req.code, headers.get(b"authorization"))
    if should and req.code not in (200, 404, 405, 501):
        return "harness: unexpected status %r from the private tree" % (req.code,)
    return True


def h_private_token(kind: int, p: int, scheme: int, method: int) -> bool:
    """
    pre: 0 <= kind <= 8 and 0 <= p < len(W.Client.AUTH_TOKEN) and 0 <= scheme < len(_SCHEMES) and 0 <= method <= 3
    pre: kind in (1, 2, 3) or p == 0
    pre: _in("p", p)
    post: _ == True
    """
    return W.untraced(_run_private, _pin(kind, 0, 8), _pin(p, 0, len(W.Client.AUTH_TOKEN) - 1), _pin(scheme, 0, len(_SCHEMES) - 1), _pin(method, 0, 3))
