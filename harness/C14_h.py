"""
C14 -- mutable check and repair: health classification (MutableChecker) and repair refusal rules
(Repairer) over a REAL ServerMap populated from symbolic version descriptors (see _mutmap.py).
"""
from vlib import hlib
from vlib.hlib import NS, assume
hlib.ensure_shims()
from twisted.internet import defer
from twisted.python import failure
import _mutmap as mm
from allmydata.mutable import checker as ck_mod, repairer as rp_mod, servermap as sm_mod
from allmydata.mutable.common import MODE_CHECK
from allmydata.check_results import CheckResults

B = hlib.bounds()
NOTES = [
    "ServerMap.summarize_version (base32 of the root hash, report text only) replaced on the map instance by a formatter without base32",
    "allmydata.mutable.checker.from_string (cap parsing for CheckResults.uri) replaced by a constant URI object parsed at import",
    "monitor = object whose raise_if_cancelled does nothing; node = object with get_uri/get_storage_index/get_writekey/"
    "download_version/upload recorders (download returns the version's content token, upload returns a fired Deferred)",
]
from allmydata import uri as uri_mod
_CAP = uri_mod.WriteableSSKFileURI(b"w" * 16, b"f" * 32)
_CAPSTR = _CAP.to_string()
ck_mod.from_string = lambda u: _CAP          # parsed once at import by the real code (base32 under tracing is slow)
hlib.strip_method(ck_mod.MutableChecker, "_make_checker_results")
hlib.encoded(ck_mod.MutableChecker._got_mapupdate_results, ck_mod.MutableChecker._count_shares,
             rp_mod.Repairer._got_full_servermap, rp_mod.Repairer.get_results,
             sm_mod.ServerMap.recoverable_versions, sm_mod.ServerMap.unrecoverable_versions, sm_mod.ServerMap.shares_available,
             sm_mod.ServerMap.best_recoverable_version, sm_mod.ServerMap.unrecoverable_newer_versions, sm_mod.ServerMap.needs_merge,
             sm_mod.ServerMap.make_versionmap, sm_mod.ServerMap.all_servers_for_version, sm_mod.ServerMap.copy)

SI = b"S" * 16


def _descs(a):
    return [tuple(a[0:5]), tuple(a[5:10]), tuple(a[10:15])]


def _summ(v):
    return "seq%d-%s" % (v[0], chr(v[1][0]) * 4)


def _setup(nv, a):
    nv = mm.pin(nv, 0, B["nv"])
    descs = mm.concrete(_descs(a), nv, B)
    sm, model = mm.populate(nv, descs, n=B["N"])
    sm.summarize_version = _summ
    return nv, sm, model


def _best(model):
    best = None
    for v in mm.recoverable(model):
        if best is None or (v[0], v[1]) > (best[0], best[1]):
            best = v
    return best


def h_health(nv: int, s0: int, r0: int, k0: int, c0: int, d0: int, s1: int, r1: int, k1: int, c1: int, d1: int,
             s2: int, r2: int, k2: int, c2: int, d2: int) -> bool:
    """
    pre: mm.descriptors_ok(nv, _descs([s0, r0, k0, c0, d0, s1, r1, k1, c1, d1, s2, r2, k2, c2, d2]), B)
    pre: B.get("s0") is None or nv == 0 or s0 == B["s0"]
    post: _ == True
    """
    nv, sm, model = _setup(nv, [s0, r0, k0, c0, d0, s1, r1, k1, c1, d1, s2, r2, k2, c2, d2])
    N = B["N"]
    node = NS(get_storage_index=lambda: SI, get_uri=lambda: _CAPSTR)
    chk = ck_mod.MutableChecker(node, None, None, NS(raise_if_cancelled=lambda: None))
    if chk._got_mapupdate_results(sm) is not sm:
        return "_got_mapupdate_results does not pass the servermap on"
    cr = chk._make_checker_results(sm)
    # the statement: healthy exactly when there is a single version, it is recoverable and has N distinct shares
    want_healthy = False
    if len(model) == 1:
        (v, (k, shnums, places)) = list(model.items())[0]
        want_healthy = (len(shnums) >= k and len(shnums) >= N)
    if cr.is_healthy() != want_healthy:
        return "healthy is not 'exactly one version, recoverable, N distinct shares, no other versions'"
    if chk.need_repair != (not want_healthy):
        return "need_repair (what check-and-repair acts on) is not the negation of healthy"
    rec, unrec = mm.recoverable(model), mm.unrecoverable(model)
    if cr.is_recoverable() != bool(rec):
        return "recoverable flag wrong"
    if cr.get_version_counter_recoverable() != len(rec) or cr.get_version_counter_unrecoverable() != len(unrec):
        return "version counters wrong"
    best = _best(model)
    if chk.best_version != best:
        return "checker's best version is not the newest recoverable one"
    if best is not None:
        (k, shnums, places) = model[best]
        if (cr.get_share_counter_good(), cr.get_encoding_needed(), cr.get_encoding_expected()) != (len(shnums), k, N):
            return "share counters are not those of the best version (distinct shares)"
        wrong = 0
        for v in model:
            if v != best:
                wrong += len(model[v][2])
        if cr.get_share_counter_wrong() != wrong:
            return "count of shares of other versions wrong"
        if cr.get_host_counter_good_shares() != len(set(srv for (srv, sh) in places)):
            return "count of hosts holding good shares wrong"
    if (cr.get_summary() == "Healthy") != want_healthy:
        return "summary text disagrees with the health flag"
    copy = cr.get_servermap()
    if copy is sm or copy.get_known_shares() != sm.get_known_shares():
        return "results do not carry a copy of the servermap"
    return True


class _Node(object):
    def __init__(self, writable):
        self.writable = writable
        self.calls = []

    def get_storage_index(self):
        return SI

    def get_writekey(self):
        return b"w" * 16 if self.writable else None

    def download_version(self, smap, version, fetch_privkey=False):
        self.calls.append(("download", smap, version, fetch_privkey))
        return defer.succeed(b"contents of " + _summ(version).encode("ascii"))

    def upload(self, uploadable, smap):
        self.calls.append(("upload", b"".join(uploadable.read(uploadable.get_size())), smap))
        return defer.succeed("upload-results")


def h_repair(nv: int, s0: int, r0: int, k0: int, c0: int, d0: int, s1: int, r1: int, k1: int, c1: int, d1: int,
             s2: int, r2: int, k2: int, c2: int, d2: int, force: bool) -> bool:
    """
    pre: mm.descriptors_ok(nv, _descs([s0, r0, k0, c0, d0, s1, r1, k1, c1, d1, s2, r2, k2, c2, d2]), B)
    pre: B.get("s0") is None or nv == 0 or s0 == B["s0"]
    post: _ == True
    """
    nv, sm, model = _setup(nv, [s0, r0, k0, c0, d0, s1, r1, k1, c1, d1, s2, r2, k2, c2, d2])
    force, writable = mm.pinb(force), B.get("writable", True)
    node = _Node(writable)
    rp = rp_mod.Repairer.__new__(rp_mod.Repairer)
    rp.node = node
    rec, unrec = mm.recoverable(model), mm.unrecoverable(model)
    best = _best(model)
    # the two situations in which an unforced repair would lose information
    newer_lost = False
    for v in unrec:
        above_all = True
        for w in rec:
            if w[0] >= v[0]:
                above_all = False
        if above_all and rec:
            newer_lost = True
    competing_top = False
    competing_any = False
    for v in rec:
        for w in rec:
            if v != w and v[0] == w[0]:
                competing_any = True
                if v[0] == best[0]:
                    competing_top = True
    outcome = None
    try:
        d = rp._got_full_servermap(sm, force)
        got = []
        d.addCallbacks(lambda r: got.append(("ok", r)), lambda f: got.append(("err", f)))
        if not got:
            raise hlib.HarnessError("repair Deferred did not fire")
        outcome = got[0]
    except rp_mod.MustForceRepairError:
        outcome = ("must-force", None)
    except rp_mod.RepairRequiresWritecapError:
        outcome = ("need-writecap", None)
    uploads = [c for c in node.calls if c[0] == "upload"]
    downloads = [c for c in node.calls if c[0] == "download"]
    if not rec:
        if outcome[0] != "ok" or outcome[1].get_successful() is not False or node.calls:
            return "nothing recoverable: repair must report failure without touching the grid"
        return True
    if (newer_lost or competing_top) and not force:
        if outcome[0] != "must-force":
            return "unforced repair went ahead although a newer unrecoverable version / a competing version with the same seqnum exists"
    if outcome[0] == "must-force":
        if force:
            return "forced repair refused"
        if not (newer_lost or competing_any):
            return "repair refused although no newer unrecoverable version and no competing versions exist"
        if node.calls:
            return "refused repair touched the grid"
        return True
    if not writable:
        if outcome[0] != "need-writecap" or node.calls:
            return "repair without a writecap must be refused before touching the grid"
        return True
    if outcome[0] != "ok" or outcome[1].get_successful() is not True or outcome[1].servermap is not sm:
        return "repair did not report success"
    if len(downloads) != 1 or downloads[0][1] is not sm or downloads[0][2] != best or downloads[0][3] is not True:
        return "repair did not download the best (newest recoverable, highest root hash) version with the privkey"
    if len(uploads) != 1 or uploads[0][1] != b"contents of " + _summ(best).encode("ascii") or uploads[0][2] is not sm:
        return "repair did not upload exactly the downloaded contents against the same servermap"
    return True


# ---- the way into the repairer: check-and-repair -> node.repair -> Repairer.start ------------------------------

from allmydata.mutable import filenode as fn_mod
from allmydata.mutable.common import MODE_REPAIR
hlib.encoded(ck_mod.MutableCheckAndRepairer._maybe_repair, ck_mod.MutableCheckAndRepairer._stash_pre_repair_results,
             fn_mod.MutableFileNode.repair, rp_mod.Repairer.__init__, rp_mod.Repairer.start)
NOTES.append("repair_entry: allmydata.mutable.repairer.ServermapUpdater replaced by a recorder whose update() fires with the harness's "
             "populated ServerMap; the node is a real MutableFileNode (made with __new__) whose download_version/upload are recorders")


class _FakeUpdater(object):
    made = []
    smap = None

    def __init__(self, node, storage_broker, monitor, servermap, mode="<default>", **kw):
        _FakeUpdater.made.append((node, storage_broker, monitor, servermap, mode, kw))

    def get_status(self):
        return "status"

    def update(self):
        return defer.succeed(_FakeUpdater.smap)


rp_mod.ServermapUpdater = _FakeUpdater


def h_repair_entry(nv: int, s0: int, r0: int, k0: int, c0: int, d0: int, s1: int, r1: int, k1: int, c1: int, d1: int,
                   s2: int, r2: int, k2: int, c2: int, d2: int, entry: int) -> bool:
    """
    pre: mm.descriptors_ok(nv, _descs([s0, r0, k0, c0, d0, s1, r1, k1, c1, d1, s2, r2, k2, c2, d2]), B)
    pre: 0 <= entry <= 2 and (B.get("entry") is None or entry == B["entry"])
    pre: B.get("r0") is None or nv == 0 or r0 == B["r0"]
    pre: B.get("s0") is None or nv == 0 or s0 == B["s0"]
    post: _ == True
    """
    nv, sm, model = _setup(nv, [s0, r0, k0, c0, d0, s1, r1, k1, c1, d1, s2, r2, k2, c2, d2])
    entry = mm.pin(entry, 0, 2)       # 0: MutableCheckAndRepairer._maybe_repair, 1: node.repair(cr, force=False), 2: node.repair(cr, force=True)
    _FakeUpdater.made = []
    _FakeUpdater.smap = sm
    node = fn_mod.MutableFileNode.__new__(fn_mod.MutableFileNode)
    node._uri = _CAP
    node._storage_index = SI
    node._storage_broker = "storage-broker"
    node._history = None
    node._writekey = b"w" * 16
    calls = []
    node.download_version = lambda smap, version, fetch_privkey=False: (calls.append(("download", smap, version, fetch_privkey)),
                                                                        defer.succeed(b"contents of " + _summ(version).encode("ascii")))[1]
    node.upload = lambda uploadable, smap: (calls.append(("upload", b"".join(uploadable.read(uploadable.get_size())), smap)),
                                            defer.succeed("upload-results"))[1]
    monitor = NS(raise_if_cancelled=lambda: None)
    chk = ck_mod.MutableCheckAndRepairer(node, "storage-broker", None, monitor)
    chk._got_mapupdate_results(sm)
    pre = chk._make_checker_results(sm)
    chk._stash_pre_repair_results(pre)
    rec, unrec = mm.recoverable(model), mm.unrecoverable(model)
    best = _best(model)
    must_refuse = False
    for v in unrec:
        if rec and all(w[0] < v[0] for w in rec):
            must_refuse = True                       # a newer version that cannot be recovered would be discarded
    for v in rec:
        for w in rec:
            if v != w and v[0] == w[0] and v[0] == best[0]:
                must_refuse = True                   # competing versions at the newest sequence number
    forced = (entry == 2)
    if entry == 0:
        d = chk._maybe_repair(pre)
    else:
        d = node.repair(pre, force=forced, monitor=monitor)
    out = []
    if d is not None:
        d.addBoth(out.append)
    healthy = pre.is_healthy()
    if entry == 0 and healthy:
        if _FakeUpdater.made or calls or chk.cr_results.post_repair_results is not pre or chk.cr_results.repair_attempted:
            return "a healthy file was repaired"
        return True
    if len(_FakeUpdater.made) != 1:
        return "repair did not start exactly one servermap update"
    (unode, usb, umon, umap, umode, ukw) = _FakeUpdater.made[0]
    if umode != MODE_REPAIR:
        return "the repairer's servermap update is not MODE_REPAIR (it must locate every existing share)"
    if unode is not node or usb != "storage-broker" or umon is not monitor or umap is sm or ukw:
        return "servermap update started with the wrong node/broker/monitor/map"
    if len(out) != 1:
        return "repair Deferred did not fire"
    failed = isinstance(out[0], failure.Failure)
    if not rec:
        if calls:
            return "nothing recoverable but the grid was touched"
        return True
    if must_refuse and not forced:
        if not (failed and out[0].check(rp_mod.MustForceRepairError)):
            return "repair without force went ahead over a newer unrecoverable / competing version"
        if calls:
            return "refused repair touched the grid"
        if entry == 0 and (chk.cr_results.repair_attempted is not True or chk.cr_results.repair_successful is not False):
            return "check-and-repair does not report the refused repair as attempted and unsuccessful"
        return True
    if failed:
        if forced or not out[0].check(rp_mod.MustForceRepairError):
            return "repair failed unexpectedly"
        return True        # refusing more often than required (competing versions below the newest seqnum) is allowed
    ups = [c for c in calls if c[0] == "upload"]
    downs = [c for c in calls if c[0] == "download"]
    if len(downs) != 1 or downs[0][2] != best or len(ups) != 1 or ups[0][1] != b"contents of " + _summ(best).encode("ascii"):
        return "repair did not republish exactly the best version's contents"
    if entry == 0:
        crr = chk.cr_results
        if crr.repair_attempted is not True or crr.repair_successful is not True or crr.pre_repair_results is not pre:
            return "check-and-repair results do not record the successful repair"
        if not isinstance(crr.post_repair_results, CheckResults):
            return "no post-repair check results"
    return True


# ---- verify=True: shares the verifier finds bad must count against the file ------------------------------------------

hlib.encoded(ck_mod.MutableChecker._verify_all_shares, ck_mod.MutableChecker._process_bad_shares)
NOTES.append("verify_marks: allmydata.mutable.checker.Retrieve replaced by a stand-in verifier that marks a symbolic subset of the best "
             "version's shares bad ON THE MAP OBJECT IT WAS GIVEN (as Retrieve(verify=True) does) and returns the bad-share list")


class _FakeVerifier(object):
    made = []
    to_mark = []

    def __init__(self, node, storage_broker, servermap, verinfo, fetch_privkey=False, verify=False):
        self.servermap, self.verinfo, self.verify = servermap, verinfo, verify
        _FakeVerifier.made.append(self)

    def download(self, consumer=None, offset=0, size=None):
        bad = []
        for (srv, sh) in _FakeVerifier.to_mark:
            self.servermap.mark_bad_share(srv, sh, self.verinfo[-2])
            bad.append((srv, sh, failure.Failure(ValueError("block hash mismatch"))))
        return defer.succeed(bad)


ck_mod.Retrieve = _FakeVerifier


def h_verify_marks(nv: int, s0: int, r0: int, k0: int, c0: int, d0: int, s1: int, r1: int, k1: int, c1: int, d1: int,
                   s2: int, r2: int, k2: int, c2: int, d2: int, m0: bool, m1: bool, m2: bool) -> bool:
    """
    pre: mm.descriptors_ok(nv, _descs([s0, r0, k0, c0, d0, s1, r1, k1, c1, d1, s2, r2, k2, c2, d2]), B)
    pre: B.get("s0") is None or nv == 0 or s0 == B["s0"]
    post: _ == True
    """
    nv, sm, model = _setup(nv, [s0, r0, k0, c0, d0, s1, r1, k1, c1, d1, s2, r2, k2, c2, d2])
    N = B["N"]
    best = _best(model)
    marks = [mm.pinb(m) for m in (m0, m1, m2)]
    places = list(model[best][2]) if best is not None else []
    _FakeVerifier.made = []
    # candidates: share 0 on the version's own server, share 1, and the LAST placement (a further copy of share 0 if there is one)
    cand = []
    for idx in (0, 1, len(places) - 1):
        if 0 <= idx < len(places) and places[idx] not in cand:
            cand.append(places[idx])
    _FakeVerifier.to_mark = [cand[i] for i in range(len(cand)) if marks[i]]
    node = NS(get_storage_index=lambda: SI, get_uri=lambda: _CAPSTR)
    chk = ck_mod.MutableChecker(node, "storage-broker", None, NS(raise_if_cancelled=lambda: None))
    chk._got_mapupdate_results(sm)
    d = chk._verify_all_shares(sm)
    if d is not None:
        out = []
        d.addBoth(out.append)
        if len(out) != 1 or isinstance(out[0], failure.Failure):
            return "verification did not complete"
    cr = chk._make_checker_results(sm)          # check(): d.addCallback(lambda res: servermap); d.addCallback(self._make_checker_results)
    if best is None:
        if _FakeVerifier.made:
            return "verifier started although nothing is recoverable"
        return True
    if len(_FakeVerifier.made) != 1 or _FakeVerifier.made[0].verinfo != best or _FakeVerifier.made[0].verify is not True:
        return "verify did not read the best version in verify mode"
    # independent model: a share found bad does not count; everything else is as the map update saw it
    bad = set(_FakeVerifier.to_mark)
    after = {}
    for v in model:
        keep = [(srv, sh) for (srv, sh) in model[v][2] if not (v == best and (srv, sh) in bad)]
        if keep:
            after[v] = (model[v][0], set(sh for (srv, sh) in keep), keep)
    rec_after = mm.recoverable(after)
    if cr.is_recoverable() != bool(rec_after):
        return "recoverable flag ignores shares the verifier found bad"
    want_healthy = False
    if len(after) == 1:
        (v, (k, shnums, keep)) = list(after.items())[0]
        want_healthy = len(shnums) >= k and len(shnums) >= N
    if cr.is_healthy() != want_healthy:
        return "health verdict ignores shares the verifier found bad"
    if bad and not chk.need_repair:
        return "corrupt shares found but no repair requested"
    new_best = _best(after)
    if new_best is not None:
        if cr.get_share_counter_good() != len(after[new_best][1]):
            return "good-share count still includes shares the verifier found bad"
    if set((srv, sh) for (srv, si, sh) in cr.get_corrupt_shares()) != bad or len(cr.get_corrupt_shares()) != len(bad):
        return "list of corrupt shares is not what the verifier reported"
    return True
