"""
Shared helper: the real allmydata.node._Config on a concrete tahoe.cfg text, with every method executed while CrossHair's
tracing is switched off.  Arguments and results are concrete strings; tracing configparser (pure Python, regex heavy)
costs ~0.3 s per path and buys nothing.  Listed in NOTES by the harnesses that use it.
"""
NOTE = ("tahoe.cfg is a concrete text parsed by the real allmydata.node._Config/configparser; its methods run with CrossHair "
        "tracing switched off (concrete strings in and out)")


class UntracedConfig(object):
    _cache = {}

    def __init__(self, text, factory=None):
        from crosshair.tracers import NoTracing
        self._nt = NoTracing
        with NoTracing():
            text = str(text)
            if text not in UntracedConfig._cache:
                if factory is None:
                    from allmydata import client
                    factory = client.config_from_string
                UntracedConfig._cache[text] = factory("/nonexistent/basedir", "client.port", text)
            self._cfg = UntracedConfig._cache[text]

    def __getattr__(self, name):
        target = getattr(self._cfg, name)
        if not callable(target):
            return target
        nt = self._nt

        def call(*a, **kw):
            with nt():
                return target(*a, **kw)
        return call
