"""
Loopback fixture for C31 ("HTTP and direct storage access agree").

Two IStorageServer front ends onto the real StorageServer (on the in-memory filesystem of _fakefile.py):

  HTTP   : storage_client._HTTPStorageServer -> http_client.StorageClient{,Immutables,Mutables,General} (real) ->
           [loopback transport instead of treq/TLS/TCP/twisted.web/Klein rendering] ->
           http_server.HTTPServer routes incl. the real authorization decorator, read_range, the producers,
           UploadsInProgress, the real Klein url map and the real registered error handlers (real) -> StorageServer
  direct : storage_client._StorageServer -> [local call instead of the Foolscap wire] -> server.FoolscapStorageServer
           / immutable.FoolscapBucketWriter / FoolscapBucketReader (real) -> StorageServer

What is replaced (all of it C-level, I/O, or text that would force every integer to be concrete):
  * header TEXT with numbers in it (Range, Content-Range): werkzeug's Range/ContentRange/parse_range_header/
    parse_content_range_header are replaced, in the namespaces of http_client and http_server, by stand-ins whose
    `to_header()` is a concrete placeholder string (it travels through the real twisted Headers objects) and whose
    parse looks the integers up again; validity rules of the werkzeug classes are re-stated in the stand-ins and tied to
    real werkzeug by the `*_strings` obligations (real text, small pinned integers) and the import-time differential test;
  * CBOR: cbor2 `dumps`/`dump` produce, and pycddl `Schema.validate_cbor` consumes, an `Enc` token holding a normalised
    deep copy of the message (tuples become lists, sets stay sets, byte strings / ints / None / bool / text unchanged);
    the CDDL schemas are re-stated as hand-written validators; tied to the real cbor2+pycddl by an import-time
    differential test on concrete sample messages;
  * treq / TLS / TCP / twisted.web request parsing and response rendering: `Loopback.request` builds a fake server
    request from (method, URL path, the client's real Headers object, body), matches the path with the REAL Klein/werkzeug
    url map of HTTPServer (concrete text, tracing off), runs the endpoint, the registered error handlers and the pull
    producers the way KleinResource.render / twisted.web do, and hands back a fake response;
  * eliot actions (start_action, DeferredContext) are no-ops; defer_to_thread runs inline; twisted.web.http (a deprecation
    proxy module) is a plain namespace of the same status constants.
"""
import re

from vlib import hlib
from vlib.hlib import NS, ProvBuf, HarnessError
import _sharefix as X
from _sharefix import FS
import _fakefile

from twisted.internet import defer
from twisted.python.failure import Failure
from twisted.web import http as _tw_http
from twisted.web.http_headers import Headers
from hyperlink import DecodedURL

from allmydata.storage import http_server as hs, http_client as hc, server as server_mod, immutable as imm
from allmydata import storage_client as sc
from allmydata.util import cputhreadpool

try:
    from crosshair.tracers import NoTracing
except ImportError:                                   # pragma: no cover
    import contextlib
    NoTracing = contextlib.nullcontext

NOTES = X.NOTES + [
    "werkzeug Range / ContentRange / parse_range_header / parse_content_range_header in http_client and http_server: stand-ins that keep "
    "the integers symbolic behind a concrete placeholder header text (validity rules re-stated; tied to real werkzeug by *_strings obligations)",
    "cbor2 dumps/dump and pycddl Schema.validate_cbor: Enc token with a normalised deep copy, hand-written validators for the CDDL schemas "
    "(tied to real cbor2 + pycddl by an import-time differential test on concrete samples)",
    "treq/TLS/TCP/twisted.web parsing+rendering: loopback transport; route matching by the real Klein url map, real error handlers; pull producers driven "
    "until they unregister",
    "eliot start_action/DeferredContext no-ops; defer_to_thread inline; twisted.web.http replaced by a plain namespace of its constants; "
    "os.urandom (upload secret) constant; logging sinks of storage/server.py and storage/immutable.py dropped (arguments still evaluated)",
    "CrossHair's optional short-circuiting of repr() calls (a fork per call) is switched off (the same repr stand-in registered without its contract docstring)",
    "direct path: storage_client._StorageServer with a local reference that calls remote_<name> on the real Foolscap adapter objects (no Foolscap wire)",
]

# ---- CrossHair: no "short-circuit" choice at repr() ------------------------------------------------------------------------
# CrossHair's stand-in for the builtin repr() carries a contract docstring ("post[]: True"); every function with a contract is a
# candidate for short-circuiting (skip the body, return a fresh symbolic str, reconcile at the end of the path), and the choice
# is a search-tree fork.  The storage code formats "%r" of concrete values in many places (log messages kept in assignments,
# error texts): each call doubles the number of paths.  Registered here instead: the same stand-in without a contract, so repr() is simply executed (the precise behaviour).
try:
    import crosshair.core_and_libs                    # noqa: F401  (performs CrossHair's own registrations first)
    from crosshair import core as _chcore
    from crosshair.libimpl.builtinslib import invoke_dunder as _invoke_dunder

    def _plain_repr(obj):
        # same body as CrossHair's stand-in, without the contract docstring
        return _invoke_dunder(obj, "__repr__")
    if repr in _chcore._PATCH_REGISTRATIONS:
        _chcore._PATCH_REGISTRATIONS[repr] = _plain_repr
except ImportError:                                   # pragma: no cover
    pass

# ---- constants / no-op environment ------------------------------------------------------------------------------------
_http = NS(**{k: getattr(_tw_http, k) for k in dir(_tw_http) if k.isupper() and isinstance(getattr(_tw_http, k), int)})
hs.http = _http
hc.http = _http
sc.http = _http
cputhreadpool._DISABLED = True


class _Action(object):
    def __enter__(self):
        return self

    def __exit__(self, *a):
        return False

    def add_success_fields(self, **kw):
        pass

    def finish(self, *a):
        pass

    def context(self):
        return self


def _start_action(**kw):
    return _Action()


hs.start_action = _start_action
hc.start_action = _start_action


class _DeferredContext(object):
    """eliot.twisted.DeferredContext without the action bookkeeping"""

    def __init__(self, d):
        self.result = d

    def addCallback(self, f, *a, **kw):
        self.result.addCallback(f, *a, **kw)
        return self

    def addCallbacks(self, cb, eb):
        self.result.addCallbacks(cb, eb)
        return self

    def addErrback(self, f, *a, **kw):
        self.result.addErrback(f, *a, **kw)
        return self

    def addActionFinish(self):
        return self.result


hc.DeferredContext = _DeferredContext
sc.urandom = lambda n: b"u" * n


class _NoLog(object):
    """sink of log.msg dropped; the argument expressions of the call are still evaluated by the caller"""
    OPERATIONAL = NOISY = UNUSUAL = SCARY = WEIRD = 0

    def msg(self, *a, **kw):
        return 0

    def err(self, *a, **kw):
        return 0


_real_server_log = server_mod.log
for _k in dir(_real_server_log):
    if _k.isupper():
        setattr(_NoLog, _k, getattr(_real_server_log, _k))
server_mod.log = _NoLog()
imm.log = _NoLog()
# ... and the log statements of the two methods that format the (symbolic) test / write vectors into the message are cut
# (`self.log("testv failed: [%d]: %r" % (sharenum, testv))`)
for _name in ("_evaluate_test_vectors", "_evaluate_write_vectors"):
    if _name in vars(X.SS):
        hlib.strip_method(X.SS, _name)
for _name in ("abort", "_abort_due_to_timeout"):
    if _name in vars(imm.BucketWriter):
        hlib.strip_method(imm.BucketWriter, _name)


class _T(object):
    @staticmethod
    def time():
        return 0.0


imm.time = _T

SWISSNUM = b"swissnum-0123456789abcdef"
BASE_URL = DecodedURL.from_text("https://storage.example:1/")

# ---- concrete text plumbing runs with tracing switched off (same functions, same results; see _fakefile.untraced) ----------
_untraced = _fakefile.untraced
hc._encode_si = _untraced(hc._encode_si)
hc.si_to_human_readable = _untraced(hc.si_to_human_readable)
hc.swissnum_auth_header = _untraced(hc.swissnum_auth_header)
hs.swissnum_auth_header = _untraced(hs.swissnum_auth_header)
hc.b64encode = _untraced(hc.b64encode)
hs.b64decode = _untraced(hs.b64decode, types=(str, bytes))
hs.timing_safe_compare = _untraced(hs.timing_safe_compare)
_URLS = {}
_real_relative_url = hc.StorageClient.relative_url


def _relative_url(self, path):
    with NoTracing():
        if type(path) is str and self._base_url is BASE_URL:
            r = _URLS.get(path)
            if r is None:
                r = _URLS[path] = _real_relative_url(self, path)
            return r
    return _real_relative_url(self, path)


hc.StorageClient.relative_url = _relative_url
_CT = {}
_real_get_content_type = hc.get_content_type


def _get_content_type(headers):
    """http_common.get_content_type; the werkzeug option parsing of the (concrete) header value runs untraced"""
    values = headers.getRawHeaders("content-type", [None]) or [None]
    v = values[0]
    with NoTracing():
        if v is None or type(v) in (str, bytes):
            if v not in _CT:
                probe = Headers()
                if v is not None:
                    probe.setRawHeaders("content-type", [v])
                _CT[v] = _real_get_content_type(probe)
            return _CT[v]
    return _real_get_content_type(headers)


hc.get_content_type = _get_content_type
hs.get_content_type = _get_content_type

# ---- exception messages that format (symbolic) integers with f-strings -------------------------------------------------------
import ast as _ast
import inspect as _inspect
import textwrap as _textwrap


class _FStringCut(_ast.NodeTransformer):
    """f"... {value} ..." -> "... {} ..." and raise E("... {} ...".format(v)) -> raise E("... {} ...") (the literal text without
    formatting the values): formatting a symbolic integer realises it value by value.  Only message text changes; exception
    types and control flow are untouched."""

    def __init__(self):
        self.cut = []

    def visit_JoinedStr(self, node):
        if all(isinstance(v, _ast.Constant) for v in node.values):
            return node
        text = "".join(v.value if isinstance(v, _ast.Constant) else "{}" for v in node.values)
        self.cut.append(text)
        return _ast.copy_location(_ast.Constant(text), node)

    def visit_Raise(self, node):
        # raise E("... {} ...".format(a, b)) -> raise E("... {} ...")
        self.generic_visit(node)
        outer = self

        class _Fmt(_ast.NodeTransformer):
            def visit_Call(self, call):
                self.generic_visit(call)
                f = call.func
                if (isinstance(f, _ast.Attribute) and f.attr == "format" and isinstance(f.value, _ast.Constant)
                        and isinstance(f.value.value, str)):
                    outer.cut.append(f.value.value)
                    return _ast.copy_location(f.value, call)
                return call
        if node.exc is not None:
            node.exc = _Fmt().visit(node.exc)
        return node


def cut_fstrings(fn):
    """fn recompiled from its current source with the f-strings un-formatted (decorators kept, module globals shared)"""
    raw = fn
    while hasattr(raw, "__wrapped__"):
        raw = raw.__wrapped__
    try:
        src = _textwrap.dedent(_inspect.getsource(raw))
        tree = _ast.parse(src)
    except (OSError, TypeError, SyntaxError):
        return fn
    if not isinstance(tree.body[0], (_ast.FunctionDef, _ast.AsyncFunctionDef)) or tree.body[0].name != raw.__name__:
        return fn                                    # already recompiled from a snippet (strip_logs): its file lines are not its source
    filename = _inspect.getsourcefile(raw) or "?"
    cutter = _FStringCut()
    tree = cutter.visit(tree)
    if not cutter.cut:
        return fn
    _ast.fix_missing_locations(tree)
    ns = {}
    exec(compile(tree, filename, "exec"), raw.__globals__, ns)
    new = ns[tree.body[0].name]
    hlib.encoded(raw)
    for text in cutter.cut:
        hlib.CUTS.append({"file": filename, "line": raw.__code__.co_firstlineno,
                          "src": "in %s: f-string message not formatted: %r" % (raw.__qualname__, text[:100])})
    return new


hc.read_share_chunk = cut_fstrings(hc.read_share_chunk)
for _cls in (hs._ReadRangeProducer, imm.BucketWriter):
    for _name, _attr in list(vars(_cls).items()):
        if _inspect.isfunction(_attr) and not _name.startswith("__"):
            _new = cut_fstrings(_attr)
            if _new is not _attr:
                setattr(_cls, _name, _new)

# ---- header text stand-ins ------------------------------------------------------------------------------------------
_TAB = []           # per-run table: placeholder number -> (kind, units, payload)
_MARK = re.compile(r"<verif-sym-(\d+)>")

_real_Range, _real_ContentRange = hc.Range, hc.ContentRange
_real_parse_range = hs.parse_range_header
_real_parse_content_range = hc.parse_content_range_header


def _byte_range_valid(start, stop, length):
    """werkzeug.http.is_byte_range_valid, re-stated"""
    if (start is None) != (stop is None):
        return False
    if start is None:
        return length is None or length >= 0
    if length is None:
        return 0 <= start and start < stop
    if start >= stop:
        return False
    return 0 <= start and start < length


class SymRange(object):
    """stand-in for werkzeug.datastructures.Range"""

    def __init__(self, units, ranges):
        self.units = units
        self.ranges = ranges
        for (start, end) in ranges:
            if start is None or (end is not None and (start < 0 or start >= end)):
                raise ValueError("not a valid range.")

    def to_header(self):
        _TAB.append(("range", self.units, [tuple(r) for r in self.ranges]))
        return "%s=<verif-sym-%d>" % (self.units, len(_TAB) - 1)


class SymContentRange(object):
    """stand-in for werkzeug.datastructures.ContentRange"""

    def __init__(self, units, start, stop, length=None, on_update=None):
        assert _byte_range_valid(start, stop, length), "Bad range provided"
        self.units, self.start, self.stop, self.length = units, start, stop, length

    def to_header(self):
        _TAB.append(("content-range", self.units, (self.start, self.stop, self.length)))
        return "%s <verif-sym-%d>" % (self.units, len(_TAB) - 1)


def _lookup(value, kind):
    with NoTracing():
        if isinstance(value, bytes):
            value = value.decode("latin-1")
        m = _MARK.search(value) if isinstance(value, str) else None
        if m is None:
            return None
        ent = _TAB[int(m.group(1))]
        if ent[0] != kind:
            raise HarnessError("harness: placeholder of kind %r parsed as %r" % (ent[0], kind))
        return ent


def sym_parse_range_header(value, make_inclusive=True):
    if not value:
        return None
    ent = _lookup(value, "range")
    if ent is None:
        return _real_parse_range(value, make_inclusive)
    (_k, units, ranges) = ent
    # what werkzeug's parser does with the text "units=b-(e-1)": begin >= end (and begin < previous end) is unparsable
    out = []
    last_end = 0
    for (begin, end) in ranges:
        if end is None:
            raise HarnessError("harness: open-ended symbolic ranges are not modelled")
        if begin < last_end or last_end < 0 or begin >= end:
            return None
        last_end = end
        out.append((begin, end))
    return SymRange(units.strip().lower(), out)


def sym_parse_content_range_header(value, on_update=None):
    if value is None:
        return None
    ent = _lookup(value, "content-range")
    if ent is None:
        return _real_parse_content_range(value, on_update)
    (_k, units, (start, stop, length)) = ent
    if _byte_range_valid(start, stop, length):
        return SymContentRange(units, start, stop, length)
    return None


def install_header_standins():
    hc.Range = SymRange
    hc.ContentRange = SymContentRange
    hc.parse_content_range_header = sym_parse_content_range_header
    hs.ContentRange = SymContentRange
    hs.parse_range_header = sym_parse_range_header
    hs.parse_content_range_header = sym_parse_content_range_header


def install_real_headers():
    hc.Range = _real_Range
    hc.ContentRange = _real_ContentRange
    hc.parse_content_range_header = _real_parse_content_range
    hs.ContentRange = _real_ContentRange
    hs.parse_range_header = _real_parse_range
    hs.parse_content_range_header = _real_parse_content_range


install_header_standins()


# ---- CBOR stand-in --------------------------------------------------------------------------------------------------
class Enc(object):
    """an encoded CBOR message: bytes-like of nominal length 1 holding the normalised message"""
    __slots__ = ("payload",)

    def __init__(self, payload):
        self.payload = payload

    def __len__(self):
        return 1

    def __bool__(self):
        return True


def _is_bytes_like(x):
    return isinstance(x, (bytes, bytearray, ProvBuf))


def normalise(x):
    """what survives a CBOR round trip of x (cbor2 encoder, pycddl decoder)"""
    if x is None or isinstance(x, (bool, str)) or _is_bytes_like(x):
        return x
    if isinstance(x, int):
        return x
    if isinstance(x, (list, tuple)):
        return [normalise(v) for v in x]
    if isinstance(x, (set, frozenset)):
        out = set()
        for v in x:
            out.add(normalise(v))
        return out
    if isinstance(x, dict):
        return dict((normalise(k), normalise(v)) for (k, v) in x.items())
    raise TypeError("cbor: cannot serialise %s" % (type(x).__name__,))


def fake_dumps(obj, **kw):
    return Enc(normalise(obj))


class _TmpFile(object):
    """TemporaryFile() of HTTPServer._send_encoded"""

    def __init__(self):
        self.enc = None
        self.pos = 0

    def seek(self, pos, whence=0):
        self.pos = pos

    def read(self, n=-1):
        if self.enc is not None and self.pos == 0 and (n is None or n != 0):
            self.pos = 1
            return self.enc
        return b""


def fake_dump(obj, f, **kw):
    f.enc = Enc(normalise(obj))


hc.dumps = fake_dumps
hs.cbor = NS(dump=fake_dump, dumps=fake_dumps)
hs.TemporaryFile = _TmpFile

CDDLError = hs.CDDLValidationError


def _uint(x):
    return isinstance(x, int) and not isinstance(x, bool) and x >= 0


def _need(cond, what):
    if not cond:
        raise CDDLError("Data did not match the schema: " + what)


def _map_with(x, keys):
    # (no eager %r formatting here: under CrossHair every repr() call is a fork point)
    _need(isinstance(x, dict) and len(x) == len(keys), "map with the wrong number of keys")
    for k in keys:
        _need(k in x, "missing key")


def _uint_set(x, what):
    _need(isinstance(x, (set, frozenset)) and len(x) <= 256, what)
    for v in x:
        _need(_uint(v), what)


def _v_allocate_buckets_req(x):
    _map_with(x, ("share-numbers", "allocated-size"))
    _uint_set(x["share-numbers"], "share-numbers")
    _need(_uint(x["allocated-size"]), "allocated-size")


def _v_rtw_req(x):
    _map_with(x, ("test-write-vectors", "read-vector"))
    twv = x["test-write-vectors"]
    _need(isinstance(twv, dict) and len(twv) <= 256, "test-write-vectors")
    for (k, v) in twv.items():
        # pycddl does not constrain the key (`share_number : {...}` in the schema text): anything is accepted
        _map_with(v, ("test", "write", "new-length"))
        _need(isinstance(v["test"], list) and len(v["test"]) <= 30, "test")
        for t in v["test"]:
            _map_with(t, ("offset", "size", "specimen"))
            _need(_uint(t["offset"]) and _uint(t["size"]) and _is_bytes_like(t["specimen"]), "test vector")
        _need(isinstance(v["write"], list), "write")
        for w in v["write"]:
            _map_with(w, ("offset", "data"))
            _need(_uint(w["offset"]) and _is_bytes_like(w["data"]), "write vector")
        _need(v["new-length"] is None or _uint(v["new-length"]), "new-length")
    rv = x["read-vector"]
    _need(isinstance(rv, list) and len(rv) <= 30, "read-vector")
    for r in rv:
        _map_with(r, ("offset", "size"))
        _need(_uint(r["offset"]) and _uint(r["size"]), "read vector")


def _v_corrupt_req(x):
    _map_with(x, ("reason",))
    _need(isinstance(x["reason"], str) and 1 <= len(x["reason"].encode("utf-8")) <= 32765, "reason")


def _v_allocate_buckets_resp(x):
    _map_with(x, ("already-have", "allocated"))
    _uint_set(x["already-have"], "already-have")
    _uint_set(x["allocated"], "allocated")


def _v_write_chunk_resp(x):
    _map_with(x, ("required",))
    _need(isinstance(x["required"], list), "required")
    for r in x["required"]:
        _map_with(r, ("begin", "end"))
        _need(_uint(r["begin"]) and _uint(r["end"]), "begin/end")


def _v_share_set_resp(x):
    _uint_set(x, "share set")


def _v_rtw_resp(x):
    _map_with(x, ("success", "data"))
    _need(isinstance(x["success"], bool), "success")
    _need(isinstance(x["data"], dict) and len(x["data"]) <= 256, "data")
    for (k, v) in x["data"].items():
        _need(isinstance(v, list), "data entry")       # the key is not constrained by pycddl (see above)
        for b in v:
            _need(_is_bytes_like(b), "data bytes")


class FakeSchema(object):
    def __init__(self, name, validator, real):
        self.name, self.validator, self.real = name, validator, real

    def validate_cbor(self, data, deserialize=False):
        if isinstance(data, (bytes, bytearray)):
            return self.real.validate_cbor(bytes(data), deserialize)
        if not isinstance(data, Enc):
            raise CDDLError("not CBOR")
        msg = normalise(data.payload)
        self.validator(msg)
        return msg if deserialize else None


_SERVER_VALIDATORS = {"allocate_buckets": _v_allocate_buckets_req, "advise_corrupt_share": _v_corrupt_req,
                      "mutable_read_test_write": _v_rtw_req}
_CLIENT_VALIDATORS = {"allocate_buckets": _v_allocate_buckets_resp, "immutable_write_share_chunk": _v_write_chunk_resp,
                      "list_shares": _v_share_set_resp, "mutable_read_test_write": _v_rtw_resp, "mutable_list_shares": _v_share_set_resp}
_REAL_SERVER_SCHEMAS = dict(hs._SCHEMAS)
_REAL_CLIENT_SCHEMAS = dict(hc._SCHEMAS)
for _n, _v in _SERVER_VALIDATORS.items():
    if _n not in _REAL_SERVER_SCHEMAS:
        raise HarnessError("http_server._SCHEMAS has no %r" % (_n,))
for _n, _v in _CLIENT_VALIDATORS.items():
    if _n not in _REAL_CLIENT_SCHEMAS:
        raise HarnessError("http_client._SCHEMAS has no %r" % (_n,))
hs._SCHEMAS = dict((n, FakeSchema(n, _SERVER_VALIDATORS.get(n), s) if n in _SERVER_VALIDATORS else s) for (n, s) in _REAL_SERVER_SCHEMAS.items())
hc._SCHEMAS = dict((n, FakeSchema(n, _CLIENT_VALIDATORS.get(n), s) if n in _CLIENT_VALIDATORS else s) for (n, s) in _REAL_CLIENT_SCHEMAS.items())


def codec_selftest():
    """differential test of the CBOR/CDDL stand-in against the real cbor2 + pycddl on concrete samples: same accept/reject,
    same decoded value.  Run once at import (concrete, outside any analysis)."""
    import cbor2
    samples = [
        ("S", "allocate_buckets", {"share-numbers": {0, 3}, "allocated-size": 10}, True),
        ("S", "allocate_buckets", {"share-numbers": [0, 3], "allocated-size": 10}, False),
        ("S", "allocate_buckets", {"share-numbers": {0}, "allocated-size": -1}, False),
        ("S", "allocate_buckets", {"share-numbers": {0}}, False),
        ("S", "mutable_read_test_write", {"test-write-vectors": {1: {"test": [{"offset": 0, "size": 2, "specimen": b"ab"}],
                                                                      "write": [{"offset": 3, "data": b"xyz"}], "new-length": None}},
                                          "read-vector": [{"offset": 1, "size": 5}]}, True),
        ("S", "mutable_read_test_write", {"test-write-vectors": {1: {"test": (), "write": ({"offset": 3, "data": b"xyz"},), "new-length": 7}},
                                          "read-vector": ()}, True),
        ("S", "mutable_read_test_write", {"test-write-vectors": {1: {"test": [], "write": [], "new-length": -1}}, "read-vector": []}, False),
        ("S", "mutable_read_test_write", {"test-write-vectors": {1: {"test": [], "write": []}}, "read-vector": []}, False),
        ("S", "mutable_read_test_write", {"test-write-vectors": {}, "read-vector": [{"offset": 0, "size": 1}] * 31}, False),
        ("S", "mutable_read_test_write", {"test-write-vectors": {"1": {"test": [], "write": [], "new-length": None}}, "read-vector": []}, True),
        ("C", "mutable_read_test_write", {"success": False, "data": {"x": [b"a"]}}, True),
        ("C", "mutable_read_test_write", {"success": False, "data": {1: [5]}}, False),
        ("C", "allocate_buckets", {"already-have": set(), "allocated": {1, 2}}, True),
        ("C", "immutable_write_share_chunk", {"required": [{"begin": 0, "end": 5}, {"begin": 7, "end": 9}]}, True),
        ("C", "immutable_write_share_chunk", {"required": [{"begin": 0}]}, False),
        ("C", "list_shares", {1, 5, 9}, True),
        ("C", "list_shares", [1, 5], False),
        ("C", "mutable_list_shares", set(), True),
        ("C", "mutable_read_test_write", {"success": True, "data": {0: [b"", b"abc"], 4: []}}, True),
        ("C", "mutable_read_test_write", {"success": 1, "data": {}}, False),
    ]
    n = 0
    for (side, name, msg, ok) in samples:
        real = (_REAL_SERVER_SCHEMAS if side == "S" else _REAL_CLIENT_SCHEMAS)[name]
        fake = (hs._SCHEMAS if side == "S" else hc._SCHEMAS)[name]
        try:
            r = real.validate_cbor(cbor2.dumps(msg), True)
            r_ok = True
        except Exception:
            r, r_ok = None, False
        try:
            f = fake.validate_cbor(fake_dumps(msg), True)
            f_ok = True
        except CDDLError:
            f, f_ok = None, False
        if r_ok != ok or f_ok != ok or (ok and r != f):
            raise HarnessError("CBOR/CDDL stand-in disagrees with cbor2+pycddl on %r/%r: real %r %r, stand-in %r %r"
                               % (name, msg, r_ok, r, f_ok, f))
        n += 1
    return n


codec_selftest()


def header_selftest(n=7):
    """differential test of the header stand-ins against real werkzeug for all small (a, b)"""
    cnt = 0
    for a in range(-1, n):
        for b in range(-1, n):
            # Range constructor + to_header + parse_range_header
            try:
                text = _real_Range("bytes", [(a, b)]).to_header()
                real = _real_parse_range(text)
                real = None if real is None else (real.units, list(real.ranges))
                r_exc = None
            except ValueError:
                real, r_exc = None, ValueError
            del _TAB[:]
            try:
                text = SymRange("bytes", [(a, b)]).to_header()
                fake = sym_parse_range_header(text)
                fake = None if fake is None else (fake.units, list(fake.ranges))
                f_exc = None
            except ValueError:
                fake, f_exc = None, ValueError
            if (real, r_exc) != (fake, f_exc):
                raise HarnessError("Range stand-in disagrees with werkzeug on (%d, %d): %r vs %r" % (a, b, (real, r_exc), (fake, f_exc)))
            for ln in (None, 0, 3, n):
                try:
                    text = _real_ContentRange("bytes", a, b, ln).to_header()
                    real = _real_parse_content_range(text)
                    real = None if real is None else (real.units, real.start, real.stop, real.length)
                    r_exc = None
                except AssertionError:
                    real, r_exc = None, AssertionError
                del _TAB[:]
                try:
                    text = SymContentRange("bytes", a, b, ln).to_header()
                    fake = sym_parse_content_range_header(text)
                    fake = None if fake is None else (fake.units, fake.start, fake.stop, fake.length)
                    f_exc = None
                except AssertionError:
                    fake, f_exc = None, AssertionError
                if (real, r_exc) != (fake, f_exc):
                    raise HarnessError("ContentRange stand-in disagrees with werkzeug on (%d, %d, %r)" % (a, b, ln))
                cnt += 1
    del _TAB[:]
    return cnt


header_selftest()


# ---- body buffers ---------------------------------------------------------------------------------------------------
class BodyFile(object):
    """BytesIO of the client's _LengthLimitedCollector, and request.content of the server: holds bytes / ProvBuf / Enc pieces"""

    def __init__(self, data=None):
        self.enc = None
        self.buf = ProvBuf()
        self.raw = b""
        self.pos = 0
        if data is not None:
            self.write(data)
            self.pos = 0

    def _len(self):
        if self.enc is not None:
            return 1
        return len(self.raw) + len(self.buf)

    def write(self, data):
        if isinstance(data, Enc):
            if self.enc is not None or self._len():
                raise HarnessError("harness: two encoded messages in one body")
            self.enc = data
        elif isinstance(data, ProvBuf):
            if self.enc is not None or self.raw:
                raise HarnessError("harness: mixed body")
            self.buf = self.buf + data
        elif isinstance(data, (bytes, bytearray)):
            if len(data) == 0:
                return 0
            if self.enc is not None or self.buf:
                raise HarnessError("harness: mixed body")
            self.raw = self.raw + bytes(data)
        else:
            raise HarnessError("harness: body piece of type %r" % (type(data).__name__,))
        return len(data)

    def seek(self, pos, whence=0):
        if whence == 0:
            self.pos = pos
        elif whence == 2:
            self.pos = self._len() + pos
        else:
            self.pos = self.pos + pos
        return self.pos

    def tell(self):
        return self.pos

    def fileno(self):
        raise OSError("not a real file")

    def read(self, n=-1):
        if self.enc is not None:
            if self.pos == 0 and (n is None or n != 0):
                self.pos = 1
                return self.enc
            return b""
        if self.raw:
            out = self.raw[self.pos:] if (n is None or n < 0) else self.raw[self.pos:self.pos + n]
            self.pos += len(out)
            return out
        if n is None or n < 0:
            out = self.buf[self.pos:]
        else:
            out = self.buf[self.pos:self.pos + n]
        self.pos = self.pos + len(out)
        if not out:
            return b""
        return out

    def pieces(self):
        if self.enc is not None:
            return [self.enc]
        if self.raw:
            return [self.raw]
        return [self.buf] if self.buf else []


_RealCollector = hc._LengthLimitedCollector
hc._LengthLimitedCollector = lambda remaining_length, timeout_on_silence: _RealCollector(remaining_length, timeout_on_silence, BodyFile())


def _collect(response, collector):
    for piece in response.body_pieces:
        collector(piece)
    return defer.succeed(None)


hc.treq = NS(collect=_collect)
hlib.encoded(hc.limited_content, _RealCollector.__call__)


# ---- the transport --------------------------------------------------------------------------------------------------
class ServerRequest(object):
    """what the route handlers use of twisted.web.server.Request"""

    def __init__(self, method, path, headers, body):
        self.method = method
        self.path = path
        self.uri = path
        self.requestHeaders = headers
        self.responseHeaders = Headers()
        self.content = BodyFile(body)
        self.code = 200
        self.defaultContentType = b"text/html"
        self.producer = None
        self.written = []
        self.finished = False

    def getHeader(self, key):
        v = self.requestHeaders.getRawHeaders(key)
        if v is not None:
            return v[-1]
        return None

    def setHeader(self, name, value):
        self.responseHeaders.setRawHeaders(name, [value])

    def setResponseCode(self, code, message=None):
        self.code = code

    def registerProducer(self, producer, streaming):
        if self.producer is not None:
            raise ValueError("registering producer before previous one was unregistered")
        if streaming:
            raise HarnessError("harness: push producers are not modelled")
        self.producer = producer

    def unregisterProducer(self):
        self.producer = None

    def write(self, data):
        if self.finished:
            raise RuntimeError("Request.write called on a request after Request.finish was called.")
        self.written.append(data)

    def finish(self):
        self.finished = True


class ClientResponse(object):
    def __init__(self, code, headers, body_pieces):
        self.code = code
        self.phrase = b"?"
        self.headers = headers
        self.body_pieces = body_pieces
        self.length = None

    def content(self):
        out = b""
        for p in self.body_pieces:
            if isinstance(p, (bytes, bytearray)):
                out += bytes(p)
        return defer.succeed(out)


def _raise_if_control(f):
    """twisted catches BaseException in callbacks: CrossHair's control-flow exceptions must travel on"""
    if isinstance(f, Failure) and not isinstance(f.value, Exception):
        raise f.value


def fired(d):
    """result of an already fired Deferred; a failure is re-raised"""
    box = []
    d.addBoth(box.append)
    if not box:
        raise HarnessError("harness: Deferred has not fired")
    r = box[0]
    if isinstance(r, Failure):
        _raise_if_control(r)
        raise r.value
    return r


_MATCH = {}


def _match(method, path):
    with NoTracing():
        key = (method, path)
        r = _MATCH.get(key)
        if r is None:
            from werkzeug.exceptions import HTTPException
            mapper = hs.HTTPServer._app.url_map.bind("localhost", "/", path_info=path, default_method=method, url_scheme="https")
            try:
                (rule, kwargs) = mapper.match(return_rule=True)
                r = (rule.endpoint, kwargs)
            except HTTPException as e:
                r = (None, e.code)
            _MATCH[key] = r
        return r


class Loopback(object):
    """stands for treq.client.HTTPClient + the network + twisted.web + KleinResource.render"""
    MAX_PULLS = 64

    def __init__(self, http_server):
        self.server = http_server
        self.app = http_server._app          # Klein app bound to the server instance (Klein.__get__), once
        self.log = []                # (method, path, response code)
        self.requests = []

    def request(self, method, url, headers=None, timeout=None, data=None, unbuffered=False, **kw):
        if kw:
            raise HarnessError("harness: unexpected treq arguments %r" % (sorted(kw),))
        with NoTracing():
            path = "/" + "/".join(url.path)
        req = ServerRequest(method.encode("ascii"), path.encode("ascii"), headers if headers is not None else Headers(), data)
        self.requests.append(req)
        self._render(req, method, path)
        resp = ClientResponse(req.code, req.responseHeaders, list(req.written))
        self.log.append((method, path, req.code))
        return defer.succeed(resp)

    def _render(self, req, method, path):
        (endpoint, kwargs) = _match(method, path)
        if endpoint is None:
            req.setResponseCode(kwargs)       # routing failure: werkzeug HTTPException rendered by Klein's default
            req.finish()
            return
        app = self.app
        d = defer.maybeDeferred(app.execute_endpoint, endpoint, req, **kwargs)
        # pull producers: twisted calls resumeProducing until the producer unregisters
        n = 0
        while req.producer is not None:
            n += 1
            if n > self.MAX_PULLS:
                raise HarnessError("harness: producer did not finish within %d pulls" % self.MAX_PULLS)
            req.producer.resumeProducing()
        box = []
        d.addBoth(box.append)
        if not box:
            raise HarnessError("harness: the route's Deferred did not fire")
        r = box[0]
        handlers = list(app._error_handlers)
        while isinstance(r, Failure):
            _raise_if_control(r)
            handled = False
            while handlers:
                (excs, fn) = handlers.pop(0)
                if r.check(*excs):
                    try:
                        r = app.execute_error_handler(fn, req, r)
                    except Exception:
                        r = Failure()
                    handled = True
                    break
            if not handled:
                if isinstance(r, Failure):
                    # twisted.web Request.processingFailed: 500
                    self.unhandled = r
                    req.setResponseCode(500)
                    r = b""
                break
        if isinstance(r, str):
            r = r.encode("utf-8")
        if isinstance(r, bytes) and r:
            req.write(r)
        req.finish()


hlib.encoded(hs.HTTPServer.__init__, hs._authorization_decorator, hs.read_encoded, hc.StorageClient.request, hc.StorageClient.decode_cbor, _real_relative_url)
for (_owner, _names) in ((hs.HTTPServer, ("_send_encoded",)), (hs._ReadAllProducer, ("produce_to", "resumeProducing")), (hs, ("_extract_secrets",)),
                         (hc.StorageClient, ("_request", "_get_headers"))):
    for _n in _names:
        if getattr(_owner, _n, None) is not None:
            hlib.encoded(getattr(_owner, _n))



class LocalRef(object):
    """direct path: a RemoteReference that calls remote_<name> on a local Referenceable, wrapping returned Referenceables"""

    def __init__(self, obj):
        self.obj = obj

    def callRemote(self, name, *args, **kwargs):
        try:
            r = getattr(self.obj, "remote_" + name)(*args, **kwargs)
        except Exception:
            return defer.fail(Failure())
        return defer.succeed(_wrap(r))


def _wrap(r):
    from foolscap.api import Referenceable
    if isinstance(r, Referenceable):
        return LocalRef(r)
    if isinstance(r, tuple):
        return tuple(_wrap(v) for v in r)
    if isinstance(r, dict) and any(isinstance(v, Referenceable) for v in r.values()):
        return dict((k, _wrap(v)) for (k, v) in r.items())
    return r


class World(object):
    """one storage server on the (already prepared) fake filesystem with both front ends"""

    def __init__(self, clock=None):
        del _TAB[:]
        self.clock = clock or X.Clock(1000)
        self.ss = X.mk_server(clock=self.clock)
        self.http_server = hs.HTTPServer(self.clock, self.ss, SWISSNUM)
        self.loop = Loopback(self.http_server)
        self.client = hc.StorageClient(BASE_URL, SWISSNUM, self.loop, None, self.clock)
        self.http = sc._HTTPStorageServer.from_http_client(self.client)
        self.fss = server_mod.FoolscapStorageServer(self.ss)
        rref = LocalRef(self.fss)
        self.direct = sc._StorageServer(get_rref=lambda: rref)


def snapshot():
    """canonical content of every file of the fake filesystem + the directory set"""
    with NoTracing():
        paths = sorted(FS.files)
        dirs = sorted(FS.dirs)
    out = {}
    for p in paths:
        st = FS.get(p)
        out[p] = (st.size, ProvBuf(list(st.head) + list(st.tail))._canon())
    return dirs, out


def same_runs(a, b):
    if len(a) != len(b):
        return False
    for (ra, rb) in zip(a, b):
        (ta, oa, na), (tb, ob, nb) = ra, rb
        if type(ta) is not type(tb):
            return False
        if isinstance(ta, hlib.PackedFields):
            if ta.fmt != tb.fmt or len(ta.values) != len(tb.values):
                return False
            for (va, vb) in zip(ta.values, tb.values):
                if va != vb:
                    return False
        elif ta != tb:
            return False
        if na != nb:
            return False
        if not (isinstance(ta, str) and ta == ProvBuf.ZERO) and oa != ob:
            return False
    return True


def same_state(s1, s2):
    """None if the two snapshots are the same server state, else a description"""
    (d1, f1), (d2, f2) = s1, s2
    if d1 != d2:
        return "directories differ: %r vs %r" % (d1, d2)
    if sorted(f1) != sorted(f2):
        return "files differ: %r vs %r" % (sorted(f1), sorted(f2))
    for p in sorted(f1):
        (n1, r1), (n2, r2) = f1[p], f2[p]
        if n1 != n2:
            return "size of %s differs" % (p,)
        if not same_runs(r1, r2):
            return "content of %s differs" % (p,)
    return None
