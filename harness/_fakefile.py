"""
Fake filesystem for the storage-container harnesses (C22-C25, C28, C29): DESIGN section 2.4 "FakeFile".

A file is a provenance run list [(tag, source_offset, length), ...] covering [0, size):
  * data regions: tag = source name (str), symbolic ints for offset/length,
  * header / lease records written through the struct stand-in: tag = the PackedFields object
    (field list; no bit arithmetic), kept whole,
  * holes and explicit zero fill: tag = ProvBuf.ZERO,
  * other concrete bytes: tag = the bytes object.
Reads slice the run list (symbolic positions) and come back as an FBuf (a hlib.ProvBuf);
`FStruct.unpack` resolves each requested field against whatever lies at its offset: the field of a
packed record (value as written), zeros (0 / NUL bytes), or a Garbage marker when the bytes there
are data or a torn mix (what real code would read as an arbitrary number).

Every mutating low-level call (create/truncating open, write, truncate, rename, unlink/remove,
rmdir, makedirs and optionally flush) ticks an operation counter; when `FS.crash_at == c` the
(c+1)-th mutating call is NOT applied and raises Crash (a BaseException, so `except Exception`
/ `except EnvironmentError` blocks in the code under test cannot swallow it).  A write() is
applied atomically (torn single writes are outside the model) and is visible to a later
re-open as soon as it returned (process kill, not power loss: the OS keeps what was written).

Module-level singleton `FS`; harness modules install `FS.open`, `FS.os`, `FS.fileutil` and
`FStruct` into the namespace of the module under test once at import and call `FS.reset()` at the
top of every harness function.

Performance notes (measured): under CrossHair every class instantiation costs ~1 ms and every
comparison of symbolic ints a solver query, so file contents are plain lists of tuples, the
fixed-offset header area is kept apart from the symbolic-offset tail, and path-name bookkeeping
(always concrete strings) runs with tracing switched off.
"""
import errno
import os.path as _p
import stat as _stat

from vlib import hlib
from vlib.hlib import ProvBuf, PackedFields, FakeStruct, HarnessError

try:
    from crosshair.tracers import NoTracing
except ImportError:                                   # pragma: no cover
    import contextlib
    NoTracing = contextlib.nullcontext

ZERO = ProvBuf.ZERO


def untraced(fn, types=(bytes,)):
    """fn executed with CrossHair's tracing switched off (and memoised) when every argument is a real
    concrete object of one of `types`; otherwise the plain traced call.  Same function, same result:
    only the interpreter-level tracing of its (concrete) internals is skipped."""
    memo = {}

    def call(*args):
        with NoTracing():
            ok = all(type(a) in types for a in args)
            if ok:
                r = memo.get(args)
                if r is None:
                    r = memo[args] = fn(*args)
                return r
        return fn(*args)
    call.__wrapped_real__ = fn
    return call


class Crash(BaseException):
    """The simulated process kill (raised instead of applying the next mutating call)."""


class Garbage(object):
    """Value of a struct field decoded from bytes that are not a whole packed field (data bytes,
    a torn mix).  Equal only to itself."""
    __slots__ = ("why",)

    def __init__(self, why):
        self.why = why

    def __repr__(self):
        return "<Garbage %s>" % (self.why,)


def _is_pf(tag):
    return isinstance(tag, PackedFields)


def _is_by(tag):
    return isinstance(tag, bytes)


def is_conc(x):
    """True iff x is a real Python int (not a solver-backed integer)."""
    with NoTracing():
        return type(x) is int


_SIZES = {"B": 1, "b": 1, "H": 2, "h": 2, "L": 4, "l": 4, "I": 4, "i": 4, "Q": 8, "q": 8}
_LAYOUTS = {}
_FIELDS = {}
_CALC = {}


def field_layout(fmt):
    """[(code, size, offset)] for a standard-size ('>' / '<' / '!' / '=') struct format."""
    with NoTracing():
        r = _LAYOUTS.get(fmt)
        if r is None:
            r = []
            off = 0
            for (code, n) in FakeStruct._fields(fmt):
                size = n if code == "s" else _SIZES[code]
                r.append((code, size, off))
                off += size
            _LAYOUTS[fmt] = r
        return r


class Blob(object):
    """Concatenation of write payloads (result of the b"".join stand-in)."""
    __slots__ = ("parts",)

    def __init__(self, parts):
        self.parts = list(parts)

    def __len__(self):
        n = 0
        for p in self.parts:
            n = n + len(p)
        return n


class BlobJoiner(object):
    """Stand-in for the literal b"" in `b"".join([...])` when the parts are packed records."""

    def join(self, parts):
        return Blob(parts)

    def __len__(self):
        return 0


def _all_zero(rec):
    """A packed record whose fields are all concretely zero is NUL bytes."""
    with NoTracing():
        for v in rec.values:
            if type(v) is int:
                if v != 0:
                    return False
            elif type(v) is bytes:
                if v.strip(b"\x00"):
                    return False
            else:
                return False
        return True


def to_runs(data):
    """Run list for a write payload."""
    if isinstance(data, ProvBuf):
        return list(data.runs)
    if isinstance(data, PackedFields):
        if _all_zero(data):
            return [(ZERO, 0, data.size)]
        return [(data, 0, data.size)]
    if isinstance(data, Blob):
        out = []
        for p in data.parts:
            out.extend(to_runs(p))
        return out
    if isinstance(data, (bytes, bytearray)):
        if len(data) == 0:
            return []
        if bytes(data) == b"\x00" * len(data):
            return [(ZERO, 0, len(data))]
        return [(bytes(data), 0, len(data))]
    raise HarnessError("FakeFile.write: unsupported payload %r" % (type(data),))


def payload_kind(data):
    """Concrete description of a payload for the operation log (used for witness classes)."""
    if isinstance(data, PackedFields):
        return "rec(%s)" % (data.fmt,)
    if isinstance(data, Blob):
        return "blob"
    if isinstance(data, ProvBuf):
        kinds = []
        for (t, _o, _n) in data.runs:
            k = "zeros" if (isinstance(t, str) and t == ZERO) else ("rec" if _is_pf(t) else "data")
            if not kinds or kinds[-1] != k:
                kinds.append(k)
        return "+".join(kinds) if kinds else "empty"
    if isinstance(data, (bytes, bytearray)):
        return "bytes"
    return type(data).__name__


# ---- run-list primitives (lists of tuples; no object construction) -------------------------------

def runs_len(runs):
    n = 0
    for (_t, _o, ln) in runs:
        n = n + ln
    return n


def runs_prefix(runs, q):
    """runs[0:q] (runs are in file order, so scanning stops at the first run that reaches q)."""
    out = []
    base = 0
    for (t, o, n) in runs:
        e = base + n
        if e <= q:
            out.append((t, o, n))
            base = e
            continue
        if base < q:
            out.append((t, o, q - base))
        break
    return out


def runs_suffix(runs, s):
    """runs[s:] (runs after the first one that extends beyond s are taken over without comparisons)."""
    out = []
    base = 0
    i = 0
    for (t, o, n) in runs:
        i += 1
        e = base + n
        if e <= s:
            base = e
            continue
        if base < s:
            out.append((t, o + (s - base), e - s))
        else:
            out.append((t, o, n))
        out.extend(runs[i:])
        break
    return out


def runs_slice(runs, start, stop):
    """runs[start:stop] for 0 <= start (stop may exceed the length).  May contain empty runs."""
    if stop <= start:
        return []
    return runs_prefix(runs_suffix(runs, start), stop - start)


def runs_nonempty(runs):
    return [r for r in runs if r[2] > 0]


def runs_at(runs, p):
    """(tag, source offset) of byte p; None if out of range."""
    if p < 0:
        return None
    base = 0
    for (t, o, n) in runs:
        if p < base + n:
            if isinstance(t, str) and t == ZERO:
                return (t, 0)
            return (t, o + (p - base))
        base = base + n
    return None


class FBuf(ProvBuf):
    """What FakeFile.read returns: a ProvBuf whose runs may refer to packed records."""
    __slots__ = ()

    def __init__(self, runs=()):
        # runs come from runs_slice: already non-empty
        self.runs = runs if isinstance(runs, list) else list(runs)

    def __getitem__(self, key):
        r = ProvBuf.__getitem__(self, key)
        return FBuf(r.runs)

    def __eq__(self, other):
        if isinstance(other, (bytes, bytearray)):
            if len(other) == 0:
                return len(self.runs) == 0
            if len(self) != len(other):
                return False
            v = resolve_field(self.runs, "s", len(other), 0)
            return (not isinstance(v, Garbage)) and v == bytes(other)
        return ProvBuf.__eq__(self, other)

    def __ne__(self, other):
        r = self.__eq__(other)
        if r is NotImplemented:
            return r
        return not r

    __hash__ = None


def resolve_field(runs, code, size, off):
    """Value of the struct field (code, size) at byte offset `off` of the run list."""
    sub = runs_nonempty(runs_slice(runs, off, off + size))
    if len(sub) > 1:
        sub = ProvBuf(sub)._canon()
    if len(sub) == 1:
        (t, o, n) = sub[0]
        if n != size:
            return Garbage("short")
        if _is_pf(t):
            for (c2, s2, o2), v in zip(field_layout(t.fmt), t.values):
                if o2 == o and s2 == size:
                    if (c2 == "s") != (code == "s"):
                        return Garbage("field kind mismatch")
                    return v
            return Garbage("not a whole field of the record")
        if _is_by(t):
            raw = t[o:o + size]
            if code == "s":
                return raw
            return int.from_bytes(raw, "big")
        if t == ZERO:
            return b"\x00" * size if code == "s" else 0
        return Garbage("data bytes")
    if len(sub) == 0:
        return Garbage("empty")
    return Garbage("torn")


class FStruct(FakeStruct):
    """hlib.FakeStruct plus unpack() of buffers read back from a FakeFile."""

    @classmethod
    def _fields(cls, fmt):
        with NoTracing():
            r = _FIELDS.get(fmt)
            if r is None:
                r = _FIELDS[fmt] = FakeStruct._fields.__func__(cls, fmt)
            return r

    @classmethod
    def calcsize(cls, fmt):
        with NoTracing():
            r = _CALC.get(fmt)
            if r is None:
                r = _CALC[fmt] = cls._real.calcsize(fmt)
            return r

    @classmethod
    def pack(cls, fmt, *values):
        fields = cls._fields(fmt)
        if len(fields) != len(values):
            raise cls.error("pack expected %d items for packing (got %d)" % (len(fields), len(values)))
        for (code, n), v in zip(fields, values):
            if code == "s":
                continue
            lo, hi = cls._RANGES[code]
            if not (lo <= v < hi):
                raise cls.error("'%s' format requires %d <= number <= %d" % (code, lo, hi - 1))
        return PackedFields(fmt if isinstance(fmt, str) else fmt.decode("ascii"), values, cls.calcsize(fmt))

    @classmethod
    def unpack(cls, fmt, data):
        if isinstance(fmt, bytes):
            fmt = fmt.decode("ascii")
        if isinstance(data, PackedFields):
            return FakeStruct.unpack(fmt, data)
        want = cls.calcsize(fmt)
        if isinstance(data, (bytes, bytearray)):
            if len(data) != want:
                raise cls.error("unpack requires a buffer of %d bytes" % want)
            return cls._real.unpack(fmt, data)
        if not isinstance(data, ProvBuf):
            raise HarnessError("FStruct.unpack on %r" % (type(data),))
        return cls.unpack_runs(fmt, data.runs, want)

    @classmethod
    def unpack_runs(cls, fmt, runs, want=None):
        if want is None:
            want = cls.calcsize(fmt)
        if len(runs) > 1:
            runs = runs_nonempty(runs)
        if runs_len(runs) != want:
            raise cls.error("unpack requires a buffer of %d bytes" % want)
        # fast path: exactly one whole record of the same shape
        if len(runs) == 1:
            (t, o, n) = runs[0]
            if _is_pf(t) and o == 0 and t.size == want and cls._fields(t.fmt) == cls._fields(fmt):
                return tuple(t.values)
        return tuple([resolve_field(runs, code, size, off) for (code, size, off) in field_layout(fmt)])


class FileState(object):
    """
    Content = head + tail.  `head` covers [0, hlen) with hlen <= H where H (`split`) is a concrete
    int: the fixed-offset header area of the container (468 for mutable, 12 for immutable
    containers); its run boundaries are concrete.  Accesses with concrete position and length
    inside the head are plain Python (no solver work); accesses at symbolic positions >= H only
    touch the tail run list.  Anything else falls back to the joined run list.  The tail is empty
    while hlen < H.
    """
    __slots__ = ("head", "hlen", "tail", "tsize", "split")

    def __init__(self, head=(), tail=(), tsize=0, split=0):
        self.split = split
        self.head = list(head)
        self.hlen = 0
        for (_t, _o, n) in self.head:
            self.hlen += n
        self.tail = list(tail)
        self.tsize = tsize
        if self.hlen > split or (self.tail and self.hlen != split):
            raise HarnessError("FileState: head must cover exactly [0, split) when there is a tail")

    @property
    def size(self):
        return self.hlen + self.tsize

    @property
    def content(self):
        return ProvBuf(self.head + self.tail)

    def copy(self):
        return FileState(self.head, self.tail, self.tsize, self.split)

    def _set(self, runs, size):
        """Re-split a joined run list (general / slow path)."""
        H = self.split
        self.head = runs_slice(runs, 0, H)
        self.hlen = size if size < H else H
        self.tail = runs_slice(runs, H, size) if size > H else []
        self.tsize = size - self.hlen

    def peek_runs(self, pos, n):
        H = self.split
        if is_conc(pos) and is_conc(n) and pos + n <= H:
            return runs_slice(self.head, pos, pos + n)
        if pos >= H:
            return runs_slice(self.tail, pos - H, pos - H + n)
        return runs_slice(self.head + self.tail, pos, pos + n)

    def peek(self, pos, n):
        return FBuf(runs_nonempty(self.peek_runs(pos, n)))

    def at(self, pos):
        """(tag, source offset) of the byte at file position pos (None beyond EOF)."""
        H = self.split
        if pos >= H:
            return runs_at(self.tail, pos - H)
        return runs_at(self.head, pos)

    def poke(self, pos, data):
        runs = to_runs(data)
        n = runs_len(runs)
        if n == 0:
            return 0
        H = self.split
        if is_conc(pos) and is_conc(n) and pos + n <= H:
            h = self.head
            if pos > self.hlen:
                h = h + [(ZERO, 0, pos - self.hlen)]
            self.head = runs_slice(h, 0, pos) + runs + runs_slice(h, pos + n, H)
            if pos + n > self.hlen:
                self.hlen = pos + n
            return n
        if pos >= H:
            if self.hlen < H:
                self.head = self.head + [(ZERO, 0, H - self.hlen)]
                self.hlen = H
            q = pos - H
            if q > self.tsize:
                left = self.tail + [(ZERO, 0, q - self.tsize)]
            elif q == self.tsize:
                left = self.tail
            else:
                left = runs_prefix(self.tail, q)
            end = q + n
            if end < self.tsize:
                right = runs_suffix(self.tail, end)
            else:
                right = []
                self.tsize = end
            self.tail = left + runs + right
            return n
        # general case: straddles the split
        whole = self.head + self.tail
        size = self.size
        if pos > size:
            left = whole + [(ZERO, 0, pos - size)]
        else:
            left = runs_prefix(whole, pos)
        end = pos + n
        if end < size:
            right = runs_suffix(whole, end)
        else:
            right = []
            size = end
        self._set(left + runs + right, size)
        return n

    def truncate(self, size):
        cur = self.size
        whole = self.head + self.tail
        if size < cur:
            self._set(runs_slice(whole, 0, size), size)
        elif size > cur:
            self._set(whole + [(ZERO, 0, size - cur)], size)


class FakeFile(object):
    def __init__(self, fs, path, st, mode):
        self.fs, self.path, self.st, self.mode = fs, path, st, mode
        self.pos = 0
        self.closed = False
        self.writable = ("w" in mode) or ("+" in mode) or ("a" in mode)

    def __enter__(self):
        return self

    def __exit__(self, *a):
        self.closed = True
        return False

    def close(self):
        self.closed = True

    def flush(self):
        if self.fs.count_flush:
            self.fs.tick("flush", self.path, "")

    def tell(self):
        return self.pos

    def seek(self, pos, whence=0):
        if whence == 0:
            self.pos = pos
        elif whence == 1:
            self.pos = self.pos + pos
        else:
            self.pos = self.st.size + pos
        return self.pos

    def read(self, n=-1):
        if self.closed:
            raise ValueError("I/O operation on closed file")
        if n is None or n < 0:
            n = self.st.size - self.pos
            if n < 0:
                n = 0
        r = runs_nonempty(self.st.peek_runs(self.pos, n))
        if not r:
            return b""
        self.pos = self.pos + runs_len(r)
        return FBuf(r)

    def write(self, data):
        if self.closed:
            raise ValueError("I/O operation on closed file")
        if not self.writable:
            raise IOError("file not open for writing")
        self.fs.tick("write", self.path, data, self.pos)
        n = self.st.poke(self.pos, data)
        self.pos = self.pos + n
        return n

    def truncate(self, size=None):
        if not self.writable:
            raise IOError("file not open for writing")
        if size is None:
            size = self.pos
        self.fs.tick("truncate", self.path, "", size)
        self.st.truncate(size)
        return size


def _enoent(path):
    return OSError(errno.ENOENT, "No such file or directory", path)


class _StatResult(tuple):
    @property
    def st_size(self):
        return self[_stat.ST_SIZE]


class _FakePath(object):
    """os.path of the fake filesystem.  Path names are concrete strings: bookkeeping runs untraced."""

    def __init__(self, fs):
        self._fs = fs

    def join(self, *a):
        with NoTracing():
            return _p.join(*a)

    def dirname(self, p):
        with NoTracing():
            return _p.dirname(p)

    def basename(self, p):
        with NoTracing():
            return _p.basename(p)

    def split(self, p):
        with NoTracing():
            return _p.split(p)

    def abspath(self, p):
        with NoTracing():
            return _p.abspath(p)

    def exists(self, path):
        with NoTracing():
            return path in self._fs.files or path in self._fs.dirs

    def isdir(self, path):
        with NoTracing():
            return path in self._fs.dirs

    def isfile(self, path):
        with NoTracing():
            return path in self._fs.files

    def getsize(self, path):
        with NoTracing():
            st = self._fs.files.get(path)
        if st is None:
            raise _enoent(path)
        return st.size


class _FakeOS(object):
    def __init__(self, fs):
        self._fs = fs
        self.path = _FakePath(fs)
        self.sep = "/"

    def stat(self, path):
        fs = self._fs
        with NoTracing():
            st = fs.files.get(path)
            isdir = path in fs.dirs
        if st is not None:
            return _StatResult((0o100644, 0, 0, 1, 0, 0, st.size, 0, 0, 0))
        if isdir:
            return _StatResult((0o040755, 0, 0, 1, 0, 0, 0, 0, 0, 0))
        raise _enoent(path)

    def listdir(self, path):
        return self._fs.listdir(path)

    def unlink(self, path):
        fs = self._fs
        if not self.path.isfile(path):
            raise _enoent(path)
        fs.tick("unlink", path, "")
        with NoTracing():
            del fs.files[path]

    remove = unlink

    def rmdir(self, path):
        fs = self._fs
        if not self.path.isdir(path):
            raise _enoent(path)
        if fs.listdir(path):
            raise OSError(errno.ENOTEMPTY, "Directory not empty", path)
        fs.tick("rmdir", path, "")
        with NoTracing():
            fs.dirs.discard(path)

    def makedirs(self, path, mode=0o777):
        fs = self._fs
        if self.path.exists(path):
            raise OSError(errno.EEXIST, "File exists", path)
        fs.tick("makedirs", path, "")
        fs.add_dirs(path)

    def chmod(self, path, mode):
        if not self.path.exists(path):
            raise _enoent(path)


class _FakeFileutil(object):
    """Stand-in for the names of allmydata.util.fileutil used by storage/immutable.py and storage/server.py."""

    def __init__(self, fs):
        self._fs = fs
        self.avail = None        # value returned by get_available_space (harness sets it)

    def make_dirs(self, dirname, mode=0o777):
        fs = self._fs
        if fs.os.path.isdir(dirname):
            return
        if fs.os.path.isfile(dirname):
            raise OSError(errno.EEXIST, "File exists", dirname)
        fs.tick("makedirs", dirname, "")
        fs.add_dirs(dirname)

    def rename(self, src, dst, tries=4, basedelay=0.1):
        self._fs.rename(src, dst)

    def rm_dir(self, dirname):
        fs = self._fs
        if not fs.os.path.isdir(dirname):
            return
        for name in fs.listdir(dirname):
            full = dirname + "/" + name
            if fs.os.path.isdir(full):
                self.rm_dir(full)
            else:
                fs.os.unlink(full)
        fs.os.rmdir(dirname)

    def get_available_space(self, whichdir, reserved_space):
        return self.avail


class FakeFS(object):
    def __init__(self):
        self.os = _FakeOS(self)
        self.fileutil = _FakeFileutil(self)
        self.count_flush = False
        self.split_hint = 0      # concrete header size of containers created through open(path, "wb")
        self.reset()

    def reset(self, dirs=("/",)):
        with NoTracing():
            self.files = {}
            self.dirs = set(dirs)
            self.log = []
        self.nops = 0
        self.crash_at = None
        self.fileutil.avail = None

    # -- construction / inspection (harness side; no ticks) --------------
    def add_dirs(self, path):
        with NoTracing():
            while path and path not in self.dirs:
                self.dirs.add(path)
                path = _p.dirname(path)

    def put(self, path, head, tail=(), tsize=0, split=0, mkdirs=True):
        st = FileState(head, tail, tsize, split)
        if mkdirs:
            self.add_dirs(_p.dirname(path))
        with NoTracing():
            self.files[path] = st
        return st

    def get(self, path):
        with NoTracing():
            return self.files.get(path)

    def listdir(self, path):
        with NoTracing():
            if path not in self.dirs:
                raise _enoent(path)
            prefix = path.rstrip("/") + "/"
            out = []
            for p in list(self.files) + list(self.dirs):
                if p.startswith(prefix) and p != path and "/" not in p[len(prefix):] and p[len(prefix):]:
                    out.append(p[len(prefix):])
            return sorted(set(out))

    # -- low-level calls ----------------------------------------------------
    def tick(self, op, path, detail, pos=None):
        """Called before a mutating call is applied."""
        if self.crash_at is not None and self.nops >= self.crash_at:
            raise Crash()
        self.nops += 1
        self.log.append((op, path, detail, pos))

    def rename(self, src, dst):
        with NoTracing():
            isfile = src in self.files
            ok_src = isfile or src in self.dirs
            ok_dst = _p.dirname(dst) in self.dirs
        if not ok_src:
            raise _enoent(src)
        if not ok_dst:
            raise _enoent(dst)
        if not isfile:
            raise HarnessError("FakeFS.rename of directories is not modelled")
        self.tick("rename", src, dst)
        with NoTracing():
            self.files[dst] = self.files.pop(src)

    def open(self, path, mode="r", *a, **kw):
        if "b" not in mode:
            raise HarnessError("FakeFS.open: text mode not modelled (%r)" % (mode,))
        if "w" in mode:
            if not self.os.path.isdir(_p.dirname(path)):
                raise _enoent(path)
            self.tick("create", path, "")
            st = FileState(split=self.split_hint)
            with NoTracing():
                self.files[path] = st
            return FakeFile(self, path, st, mode)
        st = self.get(path)
        if st is None:
            raise _enoent(path)
        return FakeFile(self, path, st, mode)


FS = FakeFS()

NOTES = [
    "open()/os/fileutil names of the storage modules replaced by an in-memory filesystem (harness/_fakefile.py): "
    "file = provenance run list, packed records kept as field lists, holes read as zeros",
    "struct name of the storage modules replaced by FStruct (hlib.FakeStruct + field-wise unpack of file reads)",
    "crash model: process kill between two low-level mutating calls; each write()/truncate()/rename()/unlink() is atomic "
    "and durable once it returned",
]
