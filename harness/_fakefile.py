"""
Fake filesystem for the storage-container harnesses (C22-C25, C28, C29): DESIGN section 2.4 "FakeFile".

A file is a provenance run list (hlib.ProvBuf runs) covering [0, size):
  * data regions are runs (source_tag, source_offset, length) with symbolic ints,
  * header / lease records written through the struct stand-in are runs whose tag refers
    to a PackedFields object (field list; no bit arithmetic), kept whole,
  * holes and explicit zero fill are ZERO runs.
Reads slice the run list (hlib.ProvBuf slicing, full symbolic positions) and come back as an FBuf;
`FStruct.unpack` resolves each requested field against whatever lies at its offset: the field of a
packed record (value as written), zeros (0 / NUL bytes), or a Garbage marker when the bytes there
are data or a torn mix (what real code would read as an arbitrary number).

Every mutating low-level call (create/truncating open, write, truncate, rename, unlink/remove,
rmdir, makedirs and optionally flush) ticks an operation counter; when `FS.crash_at == c` the
(c+1)-th mutating call is NOT applied and raises Crash (a BaseException, so `except Exception`
/ `except EnvironmentError` blocks in the code under test cannot swallow it).  A write() is
applied atomically (torn single writes are outside the model) and is visible to a later
re-open as soon as it returned (process kill, not power loss: the OS keeps what was written).

Module-level singleton `FS`; harness modules install `FS.open`, `FS.os`, `FS.fileutil` and
`FStruct` into the namespace of the module under test once at import and call `FS.reset()` at the
top of every harness function.
"""
import errno
import stat as _stat

from vlib import hlib
from vlib.hlib import ProvBuf, PackedFields, FakeStruct, HarnessError

ZERO = ProvBuf.ZERO
_PF = "\x01pf"      # tag prefix of runs that refer to a PackedFields object
_BY = "\x02by"      # tag prefix of runs that refer to a concrete bytes object


class Crash(BaseException):
    """The simulated process kill (raised instead of applying the next mutating call)."""


class Garbage(object):
    """Value of a struct field decoded from bytes that are not a whole packed field (data bytes,
    a torn mix).  Equal only to itself."""
    __slots__ = ("why",)

    def __init__(self, why):
        self.why = why

    def __repr__(self):
        return "<Garbage %s>" % (self.why,)


_OBJS = []          # registry of PackedFields / bytes objects referred to by run tags (reset per call)


def _reg(prefix, obj):
    _OBJS.append(obj)
    return "%s%d" % (prefix, len(_OBJS) - 1)


def _obj(tag):
    return _OBJS[int(tag[3:])]


def _is_pf(tag):
    return tag[:3] == _PF


def _is_by(tag):
    return tag[:3] == _BY


_SIZES = {"B": 1, "b": 1, "H": 2, "h": 2, "L": 4, "l": 4, "I": 4, "i": 4, "Q": 8, "q": 8}


_LAYOUTS = {}
_FIELDS = {}
_CALC = {}


def field_layout(fmt):
    """[(code, size, offset)] for a standard-size ('>' / '<' / '!' / '=') struct format."""
    r = _LAYOUTS.get(fmt)
    if r is None:
        r = _LAYOUTS[fmt] = _field_layout(fmt)
    return r


def _field_layout(fmt):
    out = []
    off = 0
    for (code, n) in FStruct._fields(fmt):
        size = n if code == "s" else _SIZES[code]
        out.append((code, size, off))
        off += size
    return out


class Blob(object):
    """Concatenation of write payloads (result of the b"".join stand-in)."""
    __slots__ = ("parts",)

    def __init__(self, parts):
        self.parts = list(parts)

    def __len__(self):
        n = 0
        for p in self.parts:
            n = n + len(p)
        return n


class BlobJoiner(object):
    """Stand-in for the literal b"" in `b"".join([...])` when the parts are packed records."""

    def join(self, parts):
        return Blob(parts)

    def __len__(self):
        return 0


def to_runs(data):
    """Run list for a write payload."""
    if isinstance(data, ProvBuf):
        return list(data.runs)
    if isinstance(data, PackedFields):
        return [(_reg(_PF, data), 0, data.size)]
    if isinstance(data, Blob):
        out = []
        for p in data.parts:
            out.extend(to_runs(p))
        return out
    if isinstance(data, (bytes, bytearray)):
        if len(data) == 0:
            return []
        if bytes(data) == b"\x00" * len(data):
            return [(ZERO, 0, len(data))]
        return [(_reg(_BY, bytes(data)), 0, len(data))]
    raise HarnessError("FakeFile.write: unsupported payload %r" % (type(data),))


def payload_kind(data):
    """Concrete description of a payload for the operation log (used for witness classes)."""
    if isinstance(data, PackedFields):
        return "rec(%s)" % (data.fmt,)
    if isinstance(data, Blob):
        return "blob"
    if isinstance(data, ProvBuf):
        kinds = []
        for (t, _o, _n) in data.runs:
            k = "zeros" if t == ZERO else ("rec" if _is_pf(t) else "data")
            if not kinds or kinds[-1] != k:
                kinds.append(k)
        return "+".join(kinds) if kinds else "empty"
    if isinstance(data, (bytes, bytearray)):
        return "bytes"
    return type(data).__name__


class FBuf(ProvBuf):
    """What FakeFile.read returns: a ProvBuf whose runs may refer to packed records."""
    __slots__ = ()

    def __getitem__(self, key):
        r = ProvBuf.__getitem__(self, key)
        return FBuf(r.runs)

    def __eq__(self, other):
        if isinstance(other, (bytes, bytearray)):
            if len(other) == 0:
                return len(self.runs) == 0
            if len(self) != len(other):
                return False
            v = resolve_field(self, "s", len(other), 0)
            return (not isinstance(v, Garbage)) and v == bytes(other)
        return ProvBuf.__eq__(self, other)

    def __ne__(self, other):
        r = self.__eq__(other)
        if r is NotImplemented:
            return r
        return not r

    __hash__ = None


def resolve_field(buf, code, size, off):
    """Value of the struct field (code, size) at byte offset `off` of the buffer `buf`."""
    sub = ProvBuf.__getitem__(buf, slice(off, off + size))
    runs = sub._canon()
    if len(runs) == 1:
        (t, o, n) = runs[0]
        if n != size:
            return Garbage("short")
        if t == ZERO:
            return b"\x00" * size if code == "s" else 0
        if _is_pf(t):
            rec = _obj(t)
            for (c2, s2, o2), v in zip(field_layout(rec.fmt), rec.values):
                if o2 == o and s2 == size:
                    if (c2 == "s") != (code == "s"):
                        return Garbage("field kind mismatch")
                    return v
            # several whole fields viewed as one byte string (e.g. magic comparison on a prefix): not needed
            return Garbage("not a whole field of the record")
        if _is_by(t):
            raw = _obj(t)[o:o + size]
            if code == "s":
                return raw
            return int.from_bytes(raw, "big")
        return Garbage("data bytes")
    if len(runs) == 0:
        return Garbage("empty")
    return Garbage("torn")


class FStruct(FakeStruct):
    """hlib.FakeStruct plus unpack() of buffers read back from a FakeFile."""

    @classmethod
    def _fields(cls, fmt):
        r = _FIELDS.get(fmt)
        if r is None:
            r = _FIELDS[fmt] = FakeStruct._fields.__func__(cls, fmt)
        return r

    @classmethod
    def calcsize(cls, fmt):
        r = _CALC.get(fmt)
        if r is None:
            r = _CALC[fmt] = cls._real.calcsize(fmt)
        return r

    @classmethod
    def unpack(cls, fmt, data):
        if isinstance(fmt, bytes):
            fmt = fmt.decode("ascii")
        if isinstance(data, PackedFields):
            return FakeStruct.unpack(fmt, data)
        want = cls.calcsize(fmt)
        if isinstance(data, (bytes, bytearray)):
            if len(data) != want:
                raise cls.error("unpack requires a buffer of %d bytes" % want)
            return cls._real.unpack(fmt, data)
        if not isinstance(data, ProvBuf):
            raise HarnessError("FStruct.unpack on %r" % (type(data),))
        if len(data) != want:
            raise cls.error("unpack requires a buffer of %d bytes" % want)
        # fast path: exactly one whole record of the same shape
        if len(data.runs) == 1:
            (t, o, n) = data.runs[0]
            if _is_pf(t) and o == 0:
                rec = _obj(t)
                if rec.size == want and cls._fields(rec.fmt) == cls._fields(fmt):
                    return tuple(rec.values)
        return tuple(resolve_field(data, code, size, off) for (code, size, off) in field_layout(fmt))


def _is_conc(x):
    return type(x) is int


class FileState(object):
    """
    Content = head + tail.  `head` covers [0, len(head)) with len(head) <= H where H (`split`) is a
    concrete int: the fixed-offset header area of the container (468 for mutable, 12 for immutable
    containers).  Accesses with concrete position and length inside the head are plain Python (no
    solver work); accesses at symbolic positions >= H only touch the tail run list.  Anything else
    falls back to the joined run list.  The tail is empty while len(head) < H.
    """
    __slots__ = ("head", "tail", "tsize", "split")

    def __init__(self, pieces=(), split=0):
        self.split = split
        self.head = ProvBuf()
        self.tail = ProvBuf()
        self.tsize = 0
        runs = []
        for p in pieces:
            runs.extend(to_runs(p))
        self._set(ProvBuf(runs))

    def _set(self, whole, size=None):
        H = self.split
        # split at H; pieces given by the builders have concrete boundaries up to H
        n = 0
        k = 0
        runs = whole.runs
        while k < len(runs) and _is_conc(runs[k][2]) and n + runs[k][2] <= H:
            n += runs[k][2]
            k += 1
        if n == H or k == len(runs):
            self.head = ProvBuf(runs[:k])
            self.tail = ProvBuf(runs[k:])
            if n < H and k < len(runs):
                raise HarnessError("FileState: cannot split at %d" % H)
        else:
            self.head = whole[:H]
            self.tail = whole[H:]
        self.tsize = len(self.tail) if size is None else size - len(self.head)

    @property
    def size(self):
        return len(self.head) + self.tsize

    @property
    def content(self):
        return ProvBuf(self.head.runs + self.tail.runs)

    def copy(self):
        st = FileState(split=self.split)
        st.head = ProvBuf(self.head.runs)
        st.tail = ProvBuf(self.tail.runs)
        st.tsize = self.tsize
        return st

    def peek(self, pos, n):
        H = self.split
        if _is_conc(pos) and _is_conc(n) and pos + n <= H:
            return FBuf(self.head[pos:pos + n].runs)
        if pos >= H:
            return FBuf(self.tail[pos - H:pos - H + n].runs)
        return FBuf(self.content[pos:pos + n].runs)

    def at(self, pos):
        """(tag, source offset) of the byte at file position pos (None beyond EOF)."""
        H = self.split
        if pos >= H:
            return self.tail.at(pos - H)
        return self.head.at(pos)

    def poke(self, pos, data):
        runs = to_runs(data)
        n = 0
        for (_t, _o, ln) in runs:
            n = n + ln
        if n == 0:
            return 0
        H = self.split
        hl = len(self.head)
        if _is_conc(pos) and _is_conc(n) and pos + n <= H:
            h = self.head
            if pos > hl:
                h = ProvBuf(h.runs + [(ZERO, 0, pos - hl)])
            self.head = ProvBuf(h[:pos].runs + runs + h[pos + n:].runs)
            return n
        if pos >= H:
            if hl < H:
                self.head = ProvBuf(self.head.runs + [(ZERO, 0, H - hl)])
            q = pos - H
            if q > self.tsize:
                left = self.tail.runs + [(ZERO, 0, q - self.tsize)]
            else:
                left = self.tail[:q].runs
            end = q + n
            if end < self.tsize:
                right = self.tail[end:].runs
            else:
                right = []
                self.tsize = end
            self.tail = ProvBuf(left + runs + right)
            return n
        # general case: straddles the split
        whole = self.content
        size = self.size
        if pos > size:
            left = whole.runs + [(ZERO, 0, pos - size)]
        else:
            left = whole[:pos].runs
        end = pos + n
        if end < size:
            right = whole[end:].runs
        else:
            right = []
            size = end
        self._set(ProvBuf(left + runs + right), size)
        return n

    def truncate(self, size):
        cur = self.size
        whole = self.content
        if size < cur:
            self._set(whole[:size], size)
        elif size > cur:
            self._set(ProvBuf(whole.runs + [(ZERO, 0, size - cur)]), size)


class FakeFile(object):
    def __init__(self, fs, path, st, mode):
        self.fs, self.path, self.st, self.mode = fs, path, st, mode
        self.pos = 0
        self.closed = False
        self.writable = ("w" in mode) or ("+" in mode) or ("a" in mode)

    def __enter__(self):
        return self

    def __exit__(self, *a):
        self.close()
        return False

    def close(self):
        self.closed = True

    def flush(self):
        if self.fs.count_flush:
            self.fs.tick("flush", self.path, "")

    def tell(self):
        return self.pos

    def seek(self, pos, whence=0):
        if whence == 0:
            self.pos = pos
        elif whence == 1:
            self.pos = self.pos + pos
        else:
            self.pos = self.st.size + pos
        return self.pos

    def read(self, n=-1):
        if self.closed:
            raise ValueError("I/O operation on closed file")
        if n is None or n < 0:
            n = self.st.size - self.pos
            if n < 0:
                n = 0
        r = self.st.peek(self.pos, n)
        if not r.runs:
            return b""
        self.pos = self.pos + len(r)
        return r

    def write(self, data):
        if self.closed:
            raise ValueError("I/O operation on closed file")
        if not self.writable:
            raise IOError("file not open for writing")
        self.fs.tick("write", self.path, payload_kind(data), pos=self.pos)
        n = self.st.poke(self.pos, data)
        self.pos = self.pos + n
        return n

    def truncate(self, size=None):
        if not self.writable:
            raise IOError("file not open for writing")
        if size is None:
            size = self.pos
        self.fs.tick("truncate", self.path, "")
        self.st.truncate(size)
        return size


def _enoent(path):
    return OSError(errno.ENOENT, "No such file or directory", path)


class _StatResult(tuple):
    @property
    def st_size(self):
        return self[_stat.ST_SIZE]


class _FakePath(object):
    def __init__(self, fs):
        self._fs = fs
        import os.path as _p
        self.join, self.dirname, self.split, self.basename = _p.join, _p.dirname, _p.split, _p.basename
        self.abspath = _p.abspath

    def exists(self, path):
        return path in self._fs.files or path in self._fs.dirs

    def isdir(self, path):
        return path in self._fs.dirs

    def isfile(self, path):
        return path in self._fs.files

    def getsize(self, path):
        if path not in self._fs.files:
            raise _enoent(path)
        return self._fs.files[path].size


class _FakeOS(object):
    def __init__(self, fs):
        self._fs = fs
        self.path = _FakePath(fs)
        self.sep = "/"

    def stat(self, path):
        fs = self._fs
        if path in fs.files:
            return _StatResult((0o100644, 0, 0, 1, 0, 0, fs.files[path].size, 0, 0, 0))
        if path in fs.dirs:
            return _StatResult((0o040755, 0, 0, 1, 0, 0, 0, 0, 0, 0))
        raise _enoent(path)

    def listdir(self, path):
        return self._fs.listdir(path)

    def unlink(self, path):
        fs = self._fs
        if path not in fs.files:
            raise _enoent(path)
        fs.tick("unlink", path, "")
        del fs.files[path]

    remove = unlink

    def rmdir(self, path):
        fs = self._fs
        if path not in fs.dirs:
            raise _enoent(path)
        if fs.listdir(path):
            raise OSError(errno.ENOTEMPTY, "Directory not empty", path)
        fs.tick("rmdir", path, "")
        fs.dirs.discard(path)

    def makedirs(self, path, mode=0o777):
        fs = self._fs
        if path in fs.dirs or path in fs.files:
            raise OSError(errno.EEXIST, "File exists", path)
        fs.tick("makedirs", path, "")
        fs.add_dirs(path)

    def chmod(self, path, mode):
        if not self.path.exists(path):
            raise _enoent(path)


class _FakeFileutil(object):
    """Stand-in for the names of allmydata.util.fileutil used by storage/immutable.py and storage/server.py."""

    def __init__(self, fs):
        self._fs = fs
        self.avail = None        # value returned by get_available_space (harness sets it)

    def make_dirs(self, dirname, mode=0o777):
        fs = self._fs
        if dirname in fs.dirs:
            return
        if dirname in fs.files:
            raise OSError(errno.EEXIST, "File exists", dirname)
        fs.tick("makedirs", dirname, "")
        fs.add_dirs(dirname)

    def rename(self, src, dst, tries=4, basedelay=0.1):
        self._fs.rename(src, dst)

    def rm_dir(self, dirname):
        fs = self._fs
        if dirname not in fs.dirs:
            return
        for name in fs.listdir(dirname):
            full = dirname + "/" + name
            if full in fs.dirs:
                self.rm_dir(full)
            else:
                fs.os.unlink(full)
        fs.os.rmdir(dirname)

    def get_available_space(self, whichdir, reserved_space):
        return self.avail


class FakeFS(object):
    def __init__(self):
        self.os = _FakeOS(self)
        self.fileutil = _FakeFileutil(self)
        self.count_flush = False
        self.split_hint = 0      # concrete header size of containers created through open(path, "wb")
        self.reset()

    def reset(self):
        del _OBJS[:]
        self.files = {}
        self.dirs = set(["/"])
        self.nops = 0
        self.crash_at = None
        self.log = []
        self.fileutil.avail = None

    # -- construction / inspection (harness side; no ticks) --------------
    def add_dirs(self, path):
        import os.path as _p
        while path and path not in self.dirs:
            self.dirs.add(path)
            path = _p.dirname(path)

    def put(self, path, pieces, split=0):
        import os.path as _p
        self.add_dirs(_p.dirname(path))
        st = FileState(pieces, split)
        self.files[path] = st
        return st

    def listdir(self, path):
        if path not in self.dirs:
            raise _enoent(path)
        prefix = path.rstrip("/") + "/"
        out = []
        for p in list(self.files) + list(self.dirs):
            if p.startswith(prefix) and p != path and "/" not in p[len(prefix):] and p[len(prefix):]:
                out.append(p[len(prefix):])
        return sorted(set(out))

    def snapshot(self):
        return dict((p, st.copy()) for (p, st) in self.files.items()), set(self.dirs)

    # -- low-level calls ----------------------------------------------------
    def tick(self, op, path, detail, pos=None):
        """Called before a mutating call is applied."""
        if self.crash_at is not None and self.nops >= self.crash_at:
            raise Crash()
        self.nops += 1
        self.log.append((op, path, detail, pos))

    def rename(self, src, dst):
        import os.path as _p
        if src not in self.files and src not in self.dirs:
            raise _enoent(src)
        if _p.dirname(dst) not in self.dirs:
            raise _enoent(dst)
        self.tick("rename", src, dst)
        if src in self.files:
            self.files[dst] = self.files.pop(src)
        else:
            raise HarnessError("FakeFS.rename of directories is not modelled")

    def open(self, path, mode="r", *a, **kw):
        import os.path as _p
        if "b" not in mode:
            raise HarnessError("FakeFS.open: text mode not modelled (%r)" % (mode,))
        if "w" in mode:
            if _p.dirname(path) not in self.dirs:
                raise _enoent(path)
            self.tick("create", path, "")
            st = FileState(split=self.split_hint)
            self.files[path] = st
            return FakeFile(self, path, st, mode)
        if path not in self.files:
            raise _enoent(path)
        return FakeFile(self, path, self.files[path], mode)


FS = FakeFS()

NOTES = [
    "open()/os/fileutil names of the storage modules replaced by an in-memory filesystem (harness/_fakefile.py): "
    "file = provenance run list, packed records kept as field lists, holes read as zeros",
    "struct name of the storage modules replaced by FStruct (hlib.FakeStruct + field-wise unpack of file reads)",
    "crash model: process kill between two low-level mutating calls; each write()/truncate()/rename()/unlink() is atomic "
    "and durable once it returned",
]
