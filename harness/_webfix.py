"""
Shared fixture for the web-API authority property (C41): an in-memory grid behind REAL nodes and REAL web resources.

What is real: allmydata.web.{root.URIHandler, directory.*, filenode.*, info.*, common.*} incl. the render_exception /
exception_to_child decorators and twisted.web's getChildForRequest / DeferredResource / renderElement; DirectoryNode,
NodeMaker.create_from_cap, MutableFileNode + MutableFileVersion (modify / overwrite / update / download_best_version
/ get_*_version and their serialisation), LiteralFileNode, ImmutableFileNode (cap handling), UnknownNode, the uri
classes, directory packing / unpacking with the real AES + hashes.

What is a stand-in (the network): in allmydata.mutable.filenode the names ServerMap, ServermapUpdater, Retrieve and
Publish are bound to classes that talk to `Grid` (a dict of mutable slots keyed by storage index and of immutable
objects keyed by cap string).  A slot remembers the write-enabler master derived from the writekey it was created
with (what a storage server keeps) and its readkey (ideal cipher: a reader with another readkey gets an error).
FakePublish asks the grid to write with the node's writekey exactly as a storage server would check the write
enabler; every attempt (granted or refused) is logged.  Immutable file nodes read their bytes from the grid; uploads
store bytes under a fresh CHK cap.  The client object offers what the web code uses (nodemaker, convergence,
create_mutable_file, create_node_from_uri, create_dirnode, get_web_service().get_operations()).
"""
import io
from vlib import hlib
hlib.ensure_shims()
from zope.interface import implementer
from twisted.internet import defer
from twisted.python.failure import Failure
from twisted.web.iweb import IRequest
from twisted.web import resource as twresource

from allmydata import uri, nodemaker, dirnode
from allmydata.interfaces import SDMF_VERSION, MDMF_VERSION
from allmydata.immutable.filenode import ImmutableFileNode
from allmydata.mutable import filenode as MF
from allmydata.mutable.common import MODE_READ, MODE_WRITE, MODE_CHECK
from allmydata.util import hashutil

NOTES = [
    "allmydata.mutable.filenode: ServerMap / ServermapUpdater / Retrieve / Publish replaced by in-memory grid stand-ins (one slot per storage index; the slot keeps the "
    "write-enabler master and the readkey; writes are checked against the write enabler like a storage server does and every attempt is logged)",
    "the global name `http` (twisted's deprecation proxy of twisted.web.http, whose attribute access breaks under tracing) is rebound to a plain namespace with the same "
    "attributes in every loaded allmydata.* / twisted.web.* module",
    "eliot._action.time / eliot._message.time (log timestamps only) pinned to a constant clock",
    "allmydata.mutable.filenode.eventually replaced by a harness-owned queue drained after each step",
    "immutable file nodes: real ImmutableFileNode objects whose read() takes the bytes from the grid; uploader / create_mutable_file / key generation are grid stand-ins "
    "(deterministic fresh keys from a counter)",
    "client: object with nodemaker (real NodeMaker class, grid-backed creation methods), convergence, mutable_file_default, create_node_from_uri, create_mutable_file, "
    "create_dirnode, get_web_service().get_operations() (real OphandleTable is not used: operations are recorded)",
    "request: subclass of the real webish.TahoeLAFSRequest on a recording channel; requestReceived / HTTP parsing is not driven (method, args, fields, content, prepath/postpath are set directly)",
]


class GridError(Exception):
    """raised by the stand-in network when the real one would fail (no such object, wrong key, write refused)"""


class Slot(object):
    def __init__(self, writekey, readkey, contents, version):
        self.write_enabler_master = hashutil.ssk_write_enabler_master_hash(writekey)
        self.readkey = readkey
        self.contents = contents
        self.version = version
        self.seqnum = 1


class Grid(object):
    def __init__(self):
        self.mutable = {}       # storage index -> Slot
        self.immutable = {}     # CHK cap string -> bytes
        self.log = []           # ("publish", si) / ("refused", si) / ("create", si) / ("upload", cap)
        self.counter = 0x40

    # -- object creation used by the harness to build the pre-state (not logged) --
    def put_mutable(self, cap, contents, version=None):
        """cap: a writeable SSK/MDMF file URI object"""
        if version is None:
            version = MDMF_VERSION if isinstance(cap, uri.WriteableMDMFFileURI) else SDMF_VERSION
        self.mutable[cap.get_storage_index()] = Slot(cap.writekey, cap.readkey, contents, version)

    def put_immutable(self, capstring, contents):
        self.immutable[capstring] = contents

    # -- operations used by the stand-ins --
    def write(self, si, writekey, contents):
        slot = self.mutable.get(si)
        if slot is None or writekey is None or hashutil.ssk_write_enabler_master_hash(writekey) != slot.write_enabler_master:
            self.log.append(("refused", si))
            raise GridError("storage servers refuse the write: bad write enabler")
        self.log.append(("publish", si))
        slot.contents = contents
        slot.seqnum += 1

    def fresh_key(self):
        self.counter += 1
        return bytes([self.counter & 0xff]) * 16

    def snapshot(self):
        return (dict((si, (s.contents, s.seqnum, s.write_enabler_master, s.readkey, s.version)) for (si, s) in self.mutable.items()),
                dict(self.immutable))


GRID = [None]       # current grid (set by the harness at the start of every path)
QUEUE = []          # eventual-send queue


def grid():
    g = GRID[0]
    if g is None:
        raise hlib.HarnessError("no grid installed")
    return g


def _eventually(f, *a, **kw):
    QUEUE.append((f, a, kw))


def flush():
    n = 0
    while QUEUE:
        (f, a, kw) = QUEUE.pop(0)
        f(*a, **kw)
        n += 1
        if n > 10000:
            raise hlib.HarnessError("eventual-send queue does not drain")


# ---- stand-ins inside allmydata.mutable.filenode ----------------------------------------------------------

class FakeServerMap(object):
    def __init__(self):
        self._mode = None
        self._slot = None
        self.update_data = {}

    def _verinfo(self):
        s = self._slot
        # (seqnum, root_hash, salt, segsize, datalength, k, N, prefix, offsets)
        salt = b"S" * 16 if s.version == SDMF_VERSION else None
        return (s.seqnum, b"R" * 32, salt, max(len(s.contents), 1), len(s.contents), 3, 10, b"prefix", ())

    def get_last_update(self):
        return (self._mode, 0)

    def recoverable_versions(self):
        return set() if self._slot is None else set([self._verinfo()])

    def unrecoverable_versions(self):
        return set()

    def best_recoverable_version(self):
        return None if self._slot is None else self._verinfo()

    def make_versionmap(self):
        return {} if self._slot is None else {self._verinfo(): set()}

    def size_of_version(self, verinfo):
        return verinfo[4]


class FakeServermapUpdater(object):
    def __init__(self, node, storage_broker, monitor, servermap, mode=MODE_READ, update_range=None):
        self.node, self.servermap, self.mode = node, servermap, mode

    def get_status(self):
        return None

    def update(self):
        sm = self.servermap
        sm._mode = self.mode
        sm._slot = grid().mutable.get(self.node.get_storage_index())
        return defer.succeed(sm)


class FakeRetrieve(object):
    def __init__(self, node, storage_broker, servermap, verinfo, fetch_privkey=False):
        self.node, self.servermap = node, servermap

    def get_status(self):
        return None

    def download(self, consumer=None, offset=0, size=None):
        slot = grid().mutable.get(self.node.get_storage_index())
        if slot is None:
            return defer.fail(GridError("no shares"))
        if self.node.get_readkey() != slot.readkey:
            return defer.fail(GridError("cannot decrypt: wrong readkey"))
        data = slot.contents[offset:] if size is None else slot.contents[offset:offset + size]
        consumer.write(data)
        return defer.succeed(consumer)


class FakePublish(object):
    def __init__(self, node, storage_broker, servermap):
        self.node = node

    def get_status(self):
        return None

    def publish(self, newdata):
        data = b"".join(newdata.read(newdata.get_size()))
        try:
            grid().write(self.node.get_storage_index(), self.node.get_writekey(), data)
        except GridError:
            return defer.fail(Failure())
        return defer.succeed(None)

    def update(self, data, offset, blockhashes, version):
        return defer.fail(Failure(GridError("in-place MDMF update is not modelled")))


class _FixedClock(object):
    """stand-in for the `time` module inside eliot (log timestamps): under CrossHair time.time() is symbolic and, called inside
    Deferred callbacks, makes the exploration non-deterministic"""

    def __init__(self, real):
        self._real = real

    def time(self):
        return 1202777696.0

    def __getattr__(self, name):
        return getattr(self._real, name)


def _pin_log_clocks():
    import eliot._action as ea
    import eliot._message as em
    for m in (ea, em):
        if not isinstance(m.time, _FixedClock):
            m.time = _FixedClock(m.time)


_pin_log_clocks()


def _quiet_twisted_log():
    """twisted prints buffered critical log events (handled request failures) to stderr until logging is started"""
    try:
        from twisted.logger import globalLogBeginner
        globalLogBeginner.beginLoggingTo([lambda event: None], redirectStandardIO=False, discardBuffer=True)
    except Exception:
        pass


_quiet_twisted_log()


class _PlainModule(object):
    """plain copy of a module namespace"""

    def __init__(self, name, d):
        self.__name__ = name
        self.__dict__.update(d)

    def __repr__(self):
        return "<plain copy of module %s>" % self.__name__


def unproxy_http():
    """twisted.web.http is wrapped in a deprecation proxy (_ModuleProxy) whose attribute access breaks under CrossHair's
    tracing: every loaded module that holds the proxy under the global name `http` gets a plain namespace with the same
    attributes instead (read here, outside tracing)"""
    import sys
    from twisted.python.deprecate import _ModuleProxy
    from twisted.web import http as proxy
    if not isinstance(proxy, _ModuleProxy):
        return 0
    plain = _PlainModule("twisted.web.http", dict((k, getattr(proxy, k)) for k in dir(proxy) if not k.startswith("__")))
    n = 0
    for (name, mod) in list(sys.modules.items()):
        if mod is None or not (name.startswith("allmydata.") or name.startswith("twisted.web")):
            continue
        d = getattr(mod, "__dict__", None)
        if isinstance(d, dict) and isinstance(d.get("http"), _ModuleProxy):
            d["http"] = plain
            n += 1
    return n
MF.ServerMap = FakeServerMap
MF.ServermapUpdater = FakeServermapUpdater
MF.Retrieve = FakeRetrieve
MF.Publish = FakePublish
MF.eventually = _eventually


# ---- immutable side ---------------------------------------------------------------------------------------

class GridImmutableFileNode(ImmutableFileNode):
    def read(self, consumer, offset=0, size=None):
        data = grid().immutable.get(self.get_uri())
        if data is None:
            return defer.fail(GridError("no shares for immutable file"))
        consumer.write(data[offset:] if size is None else data[offset:offset + size])
        return defer.succeed(consumer)

    def get_best_readable_version(self):
        return defer.succeed(self)

    def check(self, monitor, verify=False, add_lease=False):
        return defer.succeed(None)

    def check_and_repair(self, monitor, verify=False, add_lease=False):
        return defer.succeed(None)


class _UploadResults(object):
    def __init__(self, cap):
        self.cap = cap

    def get_uri(self):
        return self.cap


def _read_uploadable(uploadable):
    """the bytes of an IUploadable whose Deferreds have fired"""
    out = []
    d = uploadable.get_size()
    d.addCallback(lambda size: uploadable.read(size))
    d.addCallback(out.append)
    if not out:
        raise hlib.HarnessError("uploadable did not deliver synchronously")
    return b"".join(out[0])


class GridUploader(object):
    def upload(self, uploadable, progress=None, reactor=None):
        g = grid()
        data = _read_uploadable(uploadable)
        cap = uri.CHKFileURI(g.fresh_key(), b"\x05" * 32, 3, 10, len(data)).to_string()
        g.immutable[cap] = data
        g.log.append(("upload", cap))
        return defer.succeed(_UploadResults(cap))


class _Secrets(object):
    def get_convergence_secret(self):
        return b"C" * 16


class GridNodeMaker(nodemaker.NodeMaker):
    def _create_immutable(self, cap):
        return GridImmutableFileNode(cap, self.storage_broker, self.secret_holder, self.terminator, self.history)

    def create_mutable_file(self, contents=None, version=None, keypair=None):
        g = grid()
        if version is None:
            version = self.mutable_file_default
        klass = uri.WriteableMDMFFileURI if version == MDMF_VERSION else uri.WriteableSSKFileURI
        cap = klass(g.fresh_key(), b"\x06" * 32)
        node = self._create_mutable(cap)
        initial = node._get_initial_contents(contents)
        data = b"".join(initial.read(initial.get_size()))
        g.put_mutable(cap, data, version)
        g.log.append(("create", cap.get_storage_index()))
        return defer.succeed(node)


def make_nodemaker():
    return GridNodeMaker(None, _Secrets(), None, GridUploader(), None, {"k": 3, "n": 10}, SDMF_VERSION, None)


class _Operations(object):
    def __init__(self):
        self.monitors = []

    def add_monitor(self, req, monitor, renderer):
        self.monitors.append((monitor, renderer))

    def redirect_to(self, req):
        return b"ophandle-redirect"


class _WebService(object):
    def __init__(self):
        self.ops = _Operations()

    def get_operations(self):
        return self.ops


class Client(object):
    convergence = b"C" * 16
    mutable_file_default = SDMF_VERSION
    nickname = "verif"

    def __init__(self):
        self.nodemaker = make_nodemaker()
        self.web = _WebService()

    def get_web_service(self):
        return self.web

    def create_node_from_uri(self, write_uri, read_uri=None, deep_immutable=False, name="<unknown name>"):
        return self.nodemaker.create_from_cap(write_uri, read_uri, deep_immutable=deep_immutable, name=name)

    def create_mutable_file(self, contents=None, version=None, *, unique_keypair=None):
        return self.nodemaker.create_mutable_file(contents, version=version, keypair=unique_keypair)

    def create_dirnode(self, initial_children=None, version=None, *, unique_keypair=None):
        return self.nodemaker.create_new_mutable_directory(initial_children, version=version, keypair=unique_keypair)

    def create_immutable_dirnode(self, children, convergence=None):
        return self.nodemaker.create_immutable_directory(children, convergence=convergence)

    def get_history(self):
        return None

    # what web.root.Root asks of the client when the resource tree is built
    stats_provider = None
    helper = None
    AUTH_TOKEN = b"Ym9ndXMtYXBpLWF1dGgtdG9rZW4tZm9yLXZlcmlm"

    def get_auth_token(self):
        return self.AUTH_TOKEN

    def getServiceNamed(self, name):
        raise KeyError(name)


# ---- request -----------------------------------------------------------------------------------------------

def _request_class():
    from allmydata.webish import TahoeLAFSRequest
    from twisted.web.test.requesthelper import DummyChannel

    class Req(TahoeLAFSRequest):
        """the real request class; only construction differs from a request that came over a socket"""

        def __init__(self, method, segments, args=None, body=b"", fields=None, headers=None):
            TahoeLAFSRequest.__init__(self, DummyChannel(), True)
            self.method = method
            self.clientproto = b"HTTP/1.1"
            self.path = b"/" + b"/".join(segments)
            self.uri = self.path
            self.prepath = []
            self.postpath = list(segments)
            self.args = dict(args or {})
            self.fields = fields
            self.content = io.BytesIO(body)
            for (k, v) in (headers or {}).items():
                self.requestHeaders.setRawHeaders(k, [v])
            self.finish_count = 0

        def finish(self):
            self.finish_count += 1
            return TahoeLAFSRequest.finish(self)

        # the recording transport never asks for data: a pull producer is drained on the spot (what a writable socket does)
        def registerProducer(self, producer, streaming):
            self._verif_producer = producer
            n = 0
            while not streaming and self._verif_producer is producer:
                producer.resumeProducing()
                n += 1
                if n > 10000:
                    raise hlib.HarnessError("harness: pull producer does not finish")

        def unregisterProducer(self):
            self._verif_producer = None

        def response_bytes(self):
            """everything that went to the transport: status line, headers, body"""
            return self.channel.transport.written.getvalue()

        def body_bytes(self):
            raw = self.response_bytes()
            i = raw.find(b"\r\n\r\n")
            return raw if i < 0 else raw[i + 4:]

    return Req


_REQ = []


def make_request(method, segments, args=None, body=b"", fields=None, headers=None):
    if not _REQ:
        _REQ.append(_request_class())
    return _REQ[0](method, segments, args=args, body=body, fields=fields, headers=headers)


class Field(object):
    """one entry of req.fields (what FieldStorage offers): value / file / filename"""

    def __init__(self, value, filename=None):
        self.value = value
        self.filename = filename
        self.file = io.BytesIO(value if isinstance(value, bytes) else value.encode("utf-8"))


class Fields(dict):
    """req.fields: mapping name -> Field, true when non-empty (like FieldStorage)"""


def make_site(root):
    from twisted.web.server import Site
    return Site(root)


def serve(site, req):
    """what twisted.web.server.Request.process does with a parsed request: locate the resource, render it, turn an
    exception into processingFailed (process() itself additionally sets the server/date headers and derives prepath /
    postpath from the URL); then drain the eventual-send queue.  Returns the request."""
    req.site = site
    try:
        res = site.getResourceFor(req)
        req.render(res)
    except Exception:
        req.processingFailed(Failure())
    flush()
    return req


def _plain(x):
    if x is None or type(x) in (int, bool, bytes, str):
        return
    if type(x) in (tuple, list):
        for y in x:
            _plain(y)
        return
    raise hlib.HarnessError("harness: symbolic or unexpected value of type %r reached an untraced call" % (type(x),))


def untraced(fn, *args):
    """Run real code on inputs that solver-decided forks have already made concrete, with CrossHair's opcode tracing
    switched off (traced and untraced execution compute the same thing on concrete inputs; the web stack costs 5-10 s
    per request under tracing).  Refuses anything that is not a plain builtin value."""
    if hlib.REPLAY:
        return fn(*args)
    from crosshair.tracers import NoTracing
    with NoTracing():
        for a in args:
            _plain(a)
        return fn(*args)
