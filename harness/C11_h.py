"""
C11 -- mutable version ordering / rollback resistance: what the real ServerMap says about a set of
located versions, and the sequence number a publish picks from it.
"""
from vlib import hlib
from vlib.hlib import NS, assume
hlib.ensure_shims()
from twisted.internet import defer
import _mutmap as mm
from allmydata.mutable import servermap as sm_mod, publish as pub_mod
from allmydata.mutable.common import MODE_WRITE, MODE_CHECK, MODE_READ
from allmydata.mutable.layout import SDMF_VERSION, MDMF_VERSION

B = hlib.bounds()
NOTES = [
    "servers are plain objects; versions are verinfo tuples built from (seqnum, root-hash rank, k) with concrete 32-byte root hashes",
    "Publish.publish / Publish.update are executed up to and including the assignment of the new sequence number: the fake node's "
    "get_readkey (the first node call after that assignment) raises a sentinel",
]
SM = sm_mod.ServerMap
hlib.encoded(SM.add_new_share, SM.make_versionmap, SM.shares_available, SM.highest_seqnum, SM.recoverable_versions,
             SM.unrecoverable_versions, SM.best_recoverable_version, SM.unrecoverable_newer_versions, SM.needs_merge,
             SM.version_on_server, SM.all_servers_for_version, SM.make_sharemap, SM.mark_bad_share)

_publish = hlib.strip_logs(pub_mod.Publish.publish)
_update = hlib.strip_logs(pub_mod.Publish.update)


def _descs(a):
    return [tuple(a[0:5]), tuple(a[5:10]), tuple(a[10:15])]


def _pin(x, lo=0, hi=15):
    """descriptor values end up in dict keys anyway (realised by CrossHair when hashed).  Pinning them up front by a
    deterministic chain of equality tests gives exactly one path per value (crosshair's own realize() was measured to
    reach the same value along many different decision sequences) and keeps the rest of the path free of queries."""
    if x is True or x is False:
        return x
    for v in range(lo, hi):
        if x == v:
            return v
    return hi


def _pinb(x):
    return True if x else False


def h_servermap(nv: int, s0: int, r0: int, k0: int, c0: int, d0: int, s1: int, r1: int, k1: int, c1: int, d1: int,
                s2: int, r2: int, k2: int, c2: int, d2: int) -> bool:
    """
    pre: mm.descriptors_ok(nv, _descs([s0, r0, k0, c0, d0, s1, r1, k1, c1, d1, s2, r2, k2, c2, d2]), B)
    pre: B.get("s0") is None or nv == 0 or s0 == B["s0"]
    post: _ == True
    """
    nv = _pin(nv, 0, B["nv"])
    descs = mm.concrete(_descs([s0, r0, k0, c0, d0, s1, r1, k1, c1, d1, s2, r2, k2, c2, d2]), nv, B)
    sm, model = mm.populate(nv, descs)
    rec = mm.recoverable(model)
    unrec = mm.unrecoverable(model)
    # -- which versions are there, with how many distinct shares
    avail = sm.shares_available()
    if set(avail.keys()) != set(model.keys()):
        return "shares_available lists the wrong versions"
    for v in model:
        if avail[v] != (len(model[v][1]), model[v][0], mm.N_TOTAL):
            return "distinct share count / k / N wrong (duplicate copies must not count)"
    if sm.recoverable_versions() != rec:
        return "recoverable_versions is not {v : distinct shares >= k}"
    if sm.unrecoverable_versions() != unrec:
        return "unrecoverable_versions is not {v : distinct shares < k}"
    # -- the version a read uses: highest sequence number among the recoverable ones, root hash breaks ties
    best = sm.best_recoverable_version()
    if not rec:
        if best is not None:
            return "a best version although nothing is recoverable"
    else:
        if best not in rec:
            return "best version is not recoverable"
        for v in rec:
            if v[0] > best[0]:
                return "a recoverable version with a higher sequence number exists"
            if v[0] == best[0] and v[1] > best[1]:
                return "tie on the sequence number not broken by the larger root hash"
    # -- highest sequence number seen anywhere (recoverable or not)
    hi = sm.highest_seqnum()
    want_hi = 0
    for v in model:
        if v[0] > want_hi:
            want_hi = v[0]
    if hi != want_hi:
        return "highest_seqnum is not the maximum over all located versions"
    # -- evidence of a newer version that cannot be recovered
    newer = sm.unrecoverable_newer_versions()
    want_newer = {}
    for v in unrec:
        newest = True
        for w in rec:
            if w[0] >= v[0]:
                newest = False
        if newest:
            want_newer[v] = (len(model[v][1]), model[v][0])
    if newer != want_newer:
        return "unrecoverable_newer_versions is not {unrecoverable v : seqnum > every recoverable seqnum}"
    # -- competing recoverable versions with one sequence number
    merge = False
    for v in rec:
        for w in rec:
            if v != w and v[0] == w[0]:
                merge = True
    if sm.needs_merge() != merge:
        return "needs_merge wrong"
    # -- per-slot view
    for v in model:
        for (srv, sh) in model[v][2]:
            if sm.version_on_server(srv, sh) != v:
                return "version_on_server wrong"
        if sm.all_servers_for_version(v) != set(srv for (srv, sh) in model[v][2]):
            return "all_servers_for_version wrong"
    return True


class _NullStatus(object):
    def __getattr__(self, name):
        return lambda *a, **kw: None


pub_mod.time = NS(time=lambda: 1000.0)
NOTES.append("allmydata.mutable.publish.time replaced by a constant clock; PublishStatus by a no-op object")


class _Stop(Exception):
    pass


def _stop():
    raise _Stop()


def h_new_seqnum(nv: int, s0: int, r0: int, k0: int, c0: int, d0: int, s1: int, r1: int, k1: int, c1: int, d1: int,
                 s2: int, r2: int, k2: int, c2: int, d2: int, mode: int, initial: bool, use_update: bool) -> bool:
    """
    pre: mm.descriptors_ok(nv, _descs([s0, r0, k0, c0, d0, s1, r1, k1, c1, d1, s2, r2, k2, c2, d2]), B)
    pre: B.get("s0") is None or nv == 0 or s0 == B["s0"]
    pre: 0 <= mode <= 2
    post: _ == True
    """
    nv = _pin(nv, 0, B["nv"])
    initial = _pinb(initial)
    use_update = _pinb(use_update)
    assume(not (initial and (use_update or nv > 0 or mode > 0)))
    descs = mm.concrete(_descs([s0, r0, k0, c0, d0, s1, r1, k1, c1, d1, s2, r2, k2, c2, d2]), nv, B)
    mode = _pin(mode, 0, 2)
    sm, model = mm.populate(nv, descs)
    sm.set_last_update([MODE_WRITE, MODE_CHECK, sm_mod.MODE_REPAIR][mode], 1.0)
    node = NS(get_size=lambda: 10, get_writekey=lambda: b"w" * 16, get_readkey=_stop)
    pub = pub_mod.Publish.__new__(pub_mod.Publish)
    pub._node = node
    pub._servermap = None if initial else sm
    pub._status = _NullStatus()
    pub._log_number = 0
    pub.log = lambda *a, **kw: 0
    pub._version = MDMF_VERSION
    data = pub_mod.MutableData(b"0123456789")
    try:
        if use_update:
            _update(pub, data, 0, {}, mm.verinfo(1, 0, B["k"]))      # the version being updated (Publish.update reads its data length)
        else:
            _publish(pub, data)
        return "publish did not reach the node call that follows the sequence number assignment"
    except _Stop:
        pass
    new = pub._new_seqnum
    for v in model:
        if not (new > v[0]):
            return "new sequence number is not above a version the survey observed"
    want = 1
    for v in model:
        if v[0] + 1 > want:
            want = v[0] + 1
    if new != want:
        return "new sequence number is not highest observed + 1"
    return True


# ---- MODE_READ: keep querying while a newer version was seen that cannot be recovered yet ---------------

from allmydata.mutable.common import MODE_ANYTHING
_check_for_done = hlib.strip_logs(sm_mod.ServermapUpdater._check_for_done)
NOTES.append("ServermapUpdater made with __new__: _send_more_queries/_done are recorders, log is a no-op; only the decision of "
             "_check_for_done is executed (no queries are sent)")


def h_read_keeps_querying(nv: int, s0: int, r0: int, k0: int, c0: int, d0: int, s1: int, r1: int, k1: int, c1: int, d1: int,
                          s2: int, r2: int, k2: int, c2: int, d2: int,
                          outstanding: bool, extra: bool, must: bool, running: bool, completed: int, to_query: int) -> bool:
    """
    pre: mm.descriptors_ok(nv, _descs([s0, r0, k0, c0, d0, s1, r1, k1, c1, d1, s2, r2, k2, c2, d2]), B)
    pre: 0 <= completed and 0 <= to_query
    pre: B.get("gates", False) or (running and not must)
    post: _ == True
    """
    nv = _pin(nv, 0, B["nv"])
    descs = mm.concrete(_descs([s0, r0, k0, c0, d0, s1, r1, k1, c1, d1, s2, r2, k2, c2, d2]), nv, B)
    sm, model = mm.populate(nv, descs)
    u = sm_mod.ServermapUpdater.__new__(sm_mod.ServermapUpdater)
    calls = []
    u._send_more_queries = lambda n: calls.append(("more", n))
    u._done = lambda: calls.append(("done",))
    u.log = lambda *a, **kw: 0
    u.mode = MODE_READ
    u._servermap = sm
    u._running = _pinb(running)
    u._must_query = set([mm.Srv("must")]) if must else set()
    u._queries_outstanding = set([mm.Srv("out")]) if outstanding else set()
    u.extra_servers = [mm.Srv("extra")] if extra else []
    u._queries_completed = completed
    u.num_servers_to_query = to_query
    u._need_privkey = False
    u.full_serverlist = []
    u._bad_servers = set()
    u._empty_servers = set()
    u._servers_with_shares = set()
    u.EPSILON = 3
    _check_for_done(u, None)
    if len(calls) > 1:
        return "more than one decision taken"
    decision = calls[0][0] if calls else "wait"
    rec, unrec = mm.recoverable(model), mm.unrecoverable(model)
    newer_unrecoverable = False
    for v in unrec:
        above = True
        for w in rec:
            if w[0] >= v[0]:
                above = False
        if above:
            newer_unrecoverable = True        # (also when nothing at all is recoverable)
    can_ask_more = bool(outstanding or extra)
    if not running:
        return True if decision == "wait" else "a stopped updater took a decision"
    if must:
        # answers from servers known to hold shares are still pending
        return True if decision == "wait" else "decided while must-query servers have not answered"
    if decision == "done":
        if can_ask_more:
            if not rec:
                return "MODE_READ stopped although nothing is recoverable and servers are left to ask"
            if newer_unrecoverable:
                return "MODE_READ stopped although a newer version was seen that cannot be recovered yet and servers are left to ask"
            if completed < to_query:
                return "MODE_READ stopped before the planned number of servers had answered"
    else:
        if not can_ask_more:
            return "nobody left to ask but the update does not finish"
        if rec and not newer_unrecoverable and completed >= to_query and decision != "done":
            return "MODE_READ keeps going although the newest version seen is recoverable"
        if decision != "more":
            return "neither finishing nor asking more servers"
    return True


# ---- answers are counted only after they were merged -------------------------------------------------------------

from allmydata.mutable.common import MODE_WRITE as _MW
NOTES.append("answer_accounting: MDMFSlotReadProxy in allmydata.mutable.servermap replaced by a reader whose get_verinfo() returns a "
             "harness-owned Deferred (share validation completes when the schedule says so); rsa.verify_signature accepts; "
             "fireEventually is a harness queue drained after every schedule action; time is constant; _do_read returns a harness Deferred")
_AQ = []


def _fire_eventually(value=None):
    d = defer.Deferred()
    _AQ.append((d, value))
    return d


class _Reader(object):
    pending = {}

    def __init__(self, ss, storage_index, shnum, data, data_is_everything=False):
        self.key = (ss, shnum)
        self.shnum = shnum

    def get_verinfo(self):
        d = defer.Deferred()
        _Reader.pending[self.key] = d
        return d

    def get_signature(self):
        return defer.succeed(b"signature")


sm_mod.MDMFSlotReadProxy = _Reader
sm_mod.fireEventually = _fire_eventually
sm_mod.rsa = NS(verify_signature=lambda pubkey, sig, prefix: None)
sm_mod.time = NS(time=lambda: 1000.0)
# _got_results is executed as it is (its log calls are keyword-style; recompiling it makes CrossHair's source lookup of
# its nested lambdas fail with tokenize.TokenError)
hlib.encoded(sm_mod.ServermapUpdater._got_results)
for _n in ("_got_signature_one_share", "_check_for_done", "_do_query", "_send_more_queries", "_query_failed"):
    hlib.strip_method(sm_mod.ServermapUpdater, _n)


def _drain_aq():
    turns = 0
    while _AQ:
        (d, v) = _AQ.pop(0)
        d.callback(v)
        turns += 1
        if turns > 50:
            raise hlib.HarnessError("eventual queue does not drain")


def h_answer_accounting(sa: int, sb: int, c0: int, c1: int, c2: int, c3: int) -> bool:
    """
    pre: 1 <= sa <= 2 and 1 <= sb <= 2
    post: _ == True
    """
    sa, sb = _pin(sa, 1, 2), _pin(sb, 1, 2)
    mode = {"read": MODE_READ, "check": MODE_CHECK, "write": _MW}[B["mode"]]
    del _AQ[:]
    _Reader.pending = {}
    A, Bs, C = mm.Srv("A"), mm.Srv("B"), mm.Srv("C")
    for s in (A, Bs, C):
        s.get_storage_server = (lambda s=s: s)      # the storage server handle identifies the server in the fake reader
    vinfo = {}
    for (srv, seq) in ((A, sa), (Bs, sb)):
        v = mm.verinfo(seq, 0, 1)
        vinfo[srv] = v[:8] + (dict(v[8]),)         # readers hand out the offsets as a dict
    answers = {A: defer.Deferred(), Bs: defer.Deferred(), C: defer.Deferred()}
    u = sm_mod.ServermapUpdater.__new__(sm_mod.ServermapUpdater)
    decisions = []
    u.log = lambda *a, **kw: 0
    u.mode = mode
    u._running = True
    u._status = _NullStatus()
    u._node = NS(get_pubkey=lambda: "pubkey")
    u._need_privkey = False
    u.fetch_update_data = False
    u._add_lease = False
    u._servermap = sm_mod.ServerMap()
    u._storage_index = b"S" * 16
    u._read_size = 1000
    u._valid_versions = set()
    u._good_servers, u._empty_servers, u._bad_servers, u._servers_with_shares = set(), set(), set(), set()
    u._queries_outstanding = set()
    u._must_query = set([A, Bs]) if mode == MODE_CHECK else set()
    u._queries_completed = 0
    u.num_servers_to_query = 2
    u.extra_servers = [C]
    u.full_serverlist = [A, Bs, C]
    u.EPSILON = 1
    u._last_failure = None
    u._do_read = lambda server, si, shnums, readv: answers[server]
    arrived = []

    def _snapshot(what):
        known = u._servermap.get_known_shares()
        unmerged = [s.name for s in arrived if (s, 0) not in known]
        best = u._servermap.best_recoverable_version()
        decisions.append((what, unmerged, None if best is None else best[0], [s.name for s in arrived]))
    u._done = lambda: _snapshot("done")
    real_more = sm_mod.ServermapUpdater._send_more_queries
    u._fatal_error = lambda f: decisions.append(("fatal", str(f), None, None))
    u._got_corrupt_share = lambda e, shnum, server, data, lp: decisions.append(("fatal", "share judged corrupt: %r" % (e,), None, None))
    # the initial queries, as update() sends them
    u._do_query(A, u._storage_index, u._read_size)
    u._do_query(Bs, u._storage_index, u._read_size)
    if u._queries_outstanding != set([A, Bs]):
        return "queries not recorded as outstanding"
    # schedule: each answer arrives, and each server's share validation completes, in any order
    done_a = {"arrA": False, "arrB": False, "valA": False, "valB": False}
    srv_of = {"A": A, "B": Bs}
    t = 0
    choices = [c0, c1, c2, c3]
    while True:
        enabled = []
        for x in ("A", "B"):
            if not done_a["arr" + x]:
                enabled.append("arr" + x)
            elif not done_a["val" + x] and (srv_of[x], 0) in _Reader.pending:
                enabled.append("val" + x)
        if not enabled:
            break
        c = choices[t]
        t += 1
        pick = enabled[-1]
        for idx in range(len(enabled) - 1):
            if c == idx:
                pick = enabled[idx]
                break
        done_a[pick] = True
        srv = srv_of[pick[3]]
        if pick.startswith("arr"):
            arrived.append(srv)
            answers[srv].callback({0: [b"sharedata"]})
        else:
            _Reader.pending[(srv, 0)].callback(vinfo[srv])
        _drain_aq()
    for dcs in decisions:
        if dcs[0] == "fatal":
            return "updater hit a fatal error: %s" % dcs[1]
        if dcs[0] == "done":
            if dcs[1]:
                return "the update finished while the answer of server(s) %s had arrived but was not yet merged into the servermap" % dcs[1]
            newest = 0
            for name in dcs[3]:
                seq = sa if name == "A" else sb
                if seq > newest:
                    newest = seq
            if dcs[2] != newest:
                return "the map handed out does not contain the newest version among the answers received"
    if not (done_a["valA"] and done_a["valB"]):
        return "a share validation was never requested"
    known = u._servermap.get_known_shares()
    if (A, 0) not in known or (Bs, 0) not in known:
        return "an answer was never merged"
    if u._queries_completed != 2 and C not in u._queries_outstanding:
        return "completed-query counter wrong after both answers were processed"
    if A in u._queries_outstanding or Bs in u._queries_outstanding:
        return "processed answers still counted as outstanding"
    if mode == MODE_CHECK and decisions and decisions[-1][0] == "done" and (A in u._must_query or Bs in u._must_query):
        return "MODE_CHECK finished with must-query servers pending"
    return True
