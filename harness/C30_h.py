"""
C30 — HTTP storage API authorization (storage/http_server.py).

 * _authorization_decorator: the wrapped handler runs iff the Authorization header equals the swissnum header AND
   the X-Tahoe-Authorization headers are well formed and name exactly the required secrets; otherwise 401 / 400 and
   the handler (hence the storage server) is never called.
 * _extract_secrets on its own.
 * UploadsInProgress.validate_upload_secret / get_write_bucket: an in-progress upload is only handed out with its own secret.
"""
from vlib import hlib
from vlib.hlib import NS, assume
hlib.ensure_shims()
from twisted.web import http as _tw_http
from allmydata.storage import http_server as hs
from allmydata.storage.http_common import Secrets, swissnum_auth_header

B = hlib.bounds()
NOTES = [
    "http_server.timing_safe_compare replaced by plain equality (its randomised hash comparison is an equality test under an ideal hash)",
    "http_server.start_action (eliot) replaced by a no-op context manager",
    "http_server.http (twisted deprecation proxy module) replaced by a plain namespace with the same status constants",
    "X-Tahoe-Authorization header values are carrier objects (strip/split interface): key is one of the four real names, an unknown name or a value without a "
    "space; http_server.b64decode maps the value token to a secret object whose length is a symbolic integer (0 = decodes to nothing)",
    "request is a fake exposing requestHeaders.getRawHeaders / method / path / code",
]

_http = NS(**{k: getattr(_tw_http, k) for k in dir(_tw_http) if k.isupper() and isinstance(getattr(_tw_http, k), int)})
hs.http = _http
hs.timing_safe_compare = lambda a, b: a == b


class _Action(object):
    def __enter__(self):
        return self

    def __exit__(self, *a):
        return False

    def add_success_fields(self, **kw):
        pass

    def finish(self, *a):
        pass


hs.start_action = lambda **kw: _Action()
_real_b64decode = hs.b64decode
hlib.encoded(hs._authorization_decorator, hs._extract_secrets, hs.UploadsInProgress.validate_upload_secret,
             hs.UploadsInProgress.get_write_bucket, hs.UploadsInProgress.add_write_bucket, hs.UploadsInProgress.remove_write_bucket)

SWISSNUM = b"swissnum-0123456789abcdef"
GOOD_AUTH = swissnum_auth_header(SWISSNUM).decode("ascii")

_KEYS = [Secrets.LEASE_RENEW.value, Secrets.LEASE_CANCEL.value, Secrets.UPLOAD.value, Secrets.WRITE_ENABLER.value, "bogus-secret"]
_ENUMS = [Secrets.LEASE_RENEW, Secrets.LEASE_CANCEL, Secrets.UPLOAD, Secrets.WRITE_ENABLER]


_LENS = []      # symbolic lengths live outside the object graph: the code formats the header list into its error
                # messages, and CrossHair realises every symbolic value reachable from a formatted object


class _Secret(object):
    """decoded secret of symbolic length (length looked up by index in _LENS)"""

    def __init__(self, ident):
        self.ident = ident

    def __len__(self):
        return _LENS[self.ident]

    def __eq__(self, other):
        if isinstance(other, bytes):
            return _LENS[self.ident] == 0 if other == b"" else False
        return self is other

    def __ne__(self, other):
        return not self.__eq__(other)

    __hash__ = None


class _ValueTok(object):
    def __init__(self, secret):
        self.secret = secret


class _HV(object):
    """one X-Tahoe-Authorization header value: '<key> <base64>' (kind 5: no space at all)"""

    def __init__(self, kind, secret):
        self.kind = kind
        self.tok = _ValueTok(secret)

    def strip(self):
        return self

    def split(self, sep, maxsplit=-1):
        if sep != " " or maxsplit != 1:
            raise hlib.HarnessError("unexpected split")
        if self.kind == 5:
            return ["garbage"]
        return [_KEYS[self.kind], self.tok]


def _b64decode(x, *a, **kw):
    if isinstance(x, _ValueTok):
        return x.secret
    return _real_b64decode(x, *a, **kw)


hs.b64decode = _b64decode


def _pin(x, lo, hi):
    for v in range(lo, hi + 1):
        if x == v:
            return v
    raise hlib.HarnessError("value outside its declared range")


class _Headers(object):
    def __init__(self, auth, xs):
        self.auth = auth
        self.xs = xs

    def getRawHeaders(self, name, default=None):
        if name == "Authorization":
            return default if self.auth is None else [self.auth]
        if name == "X-Tahoe-Authorization":
            return list(self.xs) if self.xs else default
        return default


def _required(mask):
    return set(e for (i, e) in enumerate(_ENUMS) if mask & (1 << i))


def _model_secrets(kinds, lens, nh, required):
    """independent statement: are the presented secrets acceptable for `required`?"""
    seen = set()
    for i in range(nh):
        k = kinds[i]
        if k >= 4:
            return False                     # unknown secret name / malformed value
        if lens[i] <= 0:
            return False                     # empty secret
        if k in (0, 1) and lens[i] != 32:
            return False                     # lease secrets are exactly 32 bytes
        seen.add(_ENUMS[k])
    return seen == required


def h_authorization(auth_kind: int, mask: int, nh: int, k0: int, l0: int, k1: int, l1: int, k2: int, l2: int) -> bool:
    """
    pre: 0 <= auth_kind <= 6 and 0 <= mask < 16 and 0 <= nh <= B.get("nh_max", 3)
    pre: 0 <= k0 <= 5 and 0 <= k1 <= 5 and 0 <= k2 <= 5 and l0 >= 0 and l1 >= 0 and l2 >= 0
    pre: B.get("mask") is None or mask == B["mask"]
    pre: B.get("auth") is None or auth_kind == B["auth"]
    pre: B.get("nh") is None or nh == B["nh"]
    pre: B.get("k0") is None or (k0 == B["k0"] if B["k0"] < 3 else k0 >= 3)
    post: _ == True
    """
    auth = [None, GOOD_AUTH, GOOD_AUTH + "x", GOOD_AUTH[:-1], GOOD_AUTH.lower(), "Tahoe-LAFS ", "\udc80"][_pin(auth_kind, 0, 6)]
    mask, nh = _pin(mask, 0, 15), _pin(nh, 0, B.get("nh_max", 3))
    kinds = [_pin(k, 0, 5) for k in (k0, k1, k2)[:nh]]
    lens = [l0, l1, l2][:nh]
    _LENS[:] = lens
    secrets = [_Secret(i) for i in range(nh)]
    xs = [_HV(kinds[i], secrets[i]) for i in range(nh)]
    required = _required(mask)
    calls = []

    def handler(self, request, secrets_, *args, **kwargs):
        calls.append((self, request, secrets_, args, kwargs))
        return "HANDLED"
    route = hs._authorization_decorator(required)(handler)
    app = NS(_swissnum=SWISSNUM)
    req = NS(requestHeaders=_Headers(auth, xs), method=b"GET", path=b"/storage/v1/x", code=200, defaultContentType="text/html")
    result = None
    err = None
    try:
        result = route(app, req, "extra-arg", kw=1)
    except hs._HTTPError as e:
        err = e
    auth_ok = (auth_kind == 1)
    secrets_ok = _model_secrets(kinds, lens, nh, required)
    if not auth_ok:
        if calls:
            return "handler ran without the correct swissnum"
        want = _http.BAD_REQUEST if auth_kind == 6 else _http.UNAUTHORIZED
        if err is None or err.code != want:
            return "wrong/missing Authorization must be answered 401 (400 if undecodable)"
        return True
    if not secrets_ok:
        if calls:
            return "handler ran although the presented secrets are missing, malformed, unknown or not exactly the required set"
        if err is None or err.code != _http.BAD_REQUEST:
            return "bad secrets must be answered 400"
        return True
    if err is not None:
        return "a correctly authorized request was rejected with %r" % (err.code,)
    if len(calls) != 1 or result != "HANDLED":
        return "handler must run exactly once and its result be returned"
    (self_, req_, sec, args, kwargs) = calls[0]
    if self_ is not app or req_ is not req or args != ("extra-arg",) or kwargs != {"kw": 1}:
        return "handler arguments"
    if set(sec.keys()) != required:
        return "secrets passed to the handler are not exactly the required ones"
    for (key, val) in sec.items():
        ok = False
        for i in range(nh):
            if _ENUMS[kinds[i]] == key and val is secrets[i]:
                ok = True
        if not ok:
            return "handler received a secret that was not presented under that name"
    return True


def h_upload_secret(exists: bool, share: int, qshare: int, stored: int, presented: int, other_si: bool, exists2: bool, stored2: int) -> bool:
    """
    pre: 0 <= share <= 2 and 0 <= qshare <= 2 and 0 <= stored <= 2 and 0 <= presented <= 2 and 0 <= stored2 <= 2
    pre: B.get("second") is None or exists2 == (B["second"] == 1)
    pre: exists2 or stored2 == 0
    pre: B.get("other") is None or other_si == (B["other"] == 1)
    post: _ == True
    """
    toks = [b"secret-A", b"secret-B", b""]
    share, qshare, stored, presented = _pin(share, 0, 2), _pin(qshare, 0, 2), _pin(stored, 0, 2), _pin(presented, 0, 2)
    stored2 = _pin(stored2, 0, 2)
    up = hs.UploadsInProgress()
    bucket = NS(name="bucket")
    bucket2 = NS(name="bucket-of-second-client")
    other = NS(name="other-bucket")
    si = b"S" * 16
    share2 = (share + 1) % 3
    if exists:
        up.add_write_bucket(si, share, toks[stored], bucket)
    # another client's upload to a different storage index, always with secret-A
    up.add_write_bucket(b"T" * 16, 0, toks[0], other)
    # a second client allocates ANOTHER share of the same storage index afterwards, with its own secret
    if exists2:
        up.add_write_bucket(si, share2, toks[stored2], bucket2)
    q_si = b"T" * 16 if other_si else si
    got = None
    err = None
    try:
        got = up.get_write_bucket(q_si, qshare, toks[presented])
    except hs._HTTPError as e:
        err = e
    # model: each in-progress upload (storage index, share number) has exactly the secret it was allocated with
    if other_si:
        target = (other, toks[0]) if qshare == 0 else None
    elif exists and qshare == share:
        target = (bucket, toks[stored])
    elif exists2 and qshare == share2:
        target = (bucket2, toks[stored2])
    else:
        target = None
    if target is None:
        if got is not None:
            return "a bucket was returned for an upload that does not exist"
        if err is None or err.code != _http.NOT_FOUND:
            return "unknown upload must be 404"
    elif target[1] == toks[presented]:
        if got is not target[0]:
            return "right secret did not return that upload's bucket"
    else:
        if got is not None:
            return "in-progress upload handed out with a secret that is not its own (e.g. a sibling share's)"
        if err is None or err.code != _http.UNAUTHORIZED:
            return "wrong upload secret must be 401"
    # validate_upload_secret alone: silent for unknown uploads, 401 for a wrong secret
    err2 = None
    try:
        up.validate_upload_secret(q_si, qshare, toks[presented])
    except hs._HTTPError as e:
        err2 = e
    if (err2 is not None) != (target is not None and target[1] != toks[presented]):
        return "validate_upload_secret disagrees with the model"
    # removing the bucket forgets the upload and its secret (a sibling share of the same storage index stays)
    if exists and not other_si:
        sibling = bucket2
        sib_tok = toks[stored2]
        if not exists2:
            sibling = NS(name="sibling")
            sib_tok = toks[0]
            up.add_write_bucket(si, share2, sib_tok, sibling)
        up.remove_write_bucket(bucket)
        for tok in toks:
            try:
                up.get_write_bucket(si, share, tok)
            except hs._HTTPError as e:
                if e.code != _http.NOT_FOUND:
                    return "removed upload: expected 404 whatever secret is presented (its secret must be forgotten)"
            else:
                return "removed upload still handed out"
        if up.get_write_bucket(si, share2, sib_tok) is not sibling:
            return "removing one share's upload disturbed its sibling"
        if up.get_write_bucket(b"T" * 16, 0, toks[0]) is not other:
            return "removing one upload disturbed another client's upload"
    return True


def h_extract_secrets_real(kind: int, vlen: int, mask: int) -> bool:
    """
    pre: 0 <= kind <= 5 and 0 <= vlen <= 3 and 0 <= mask < 16
    post: _ == True
    """
    # the untouched _extract_secrets on real header strings with real base64 (one header, path-per-input)
    import base64
    kind, vlen, mask = _pin(kind, 0, 5), _pin(vlen, 0, 3), _pin(mask, 0, 15)
    n = [0, 16, 32, 33][vlen]
    raw = bytes(range(n))
    if kind == 5:
        hv = "no-space-here"
    else:
        hv = "  %s %s  " % (_KEYS[kind], base64.b64encode(raw).decode("ascii"))
    required = _required(mask)
    saved = hs.b64decode
    hs.b64decode = _real_b64decode
    try:
        try:
            res = hs._extract_secrets([hv], required)
        except hs.ClientSecretsException:
            res = None
    finally:
        hs.b64decode = saved
    ok = _model_secrets([kind], [n], 1, required)
    if ok != (res is not None):
        return "real-string secret extraction disagrees with the model"
    if res is not None and res != {_ENUMS[kind]: raw}:
        return "decoded secret differs from what was sent"
    return True
