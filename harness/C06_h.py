"""
C06 — a successful immutable upload meets servers-of-happiness.

Path-per-input (DESIGN 1.4): the server/share relations, which writer fails, each
server's behaviour are symbolic bits/ints; every path realises one scenario, runs the
REAL code (Encoder._remove_shareholder; Tahoe2ServerSelector response handlers; the
whole Tahoe2ServerSelector.get_shareholders with every remote call an already-fired
Deferred) and compares with independent models; happiness values are decided by z3
(harness/_matching.py), not by the code's own flow computation.
"""
from vlib import hlib
from vlib.hlib import assume
hlib.ensure_shims()
import _matching as M
from twisted.internet import defer
from twisted.python.failure import Failure
from allmydata.immutable import encode, upload
from allmydata.interfaces import UploadUnhappinessError, NoServersError
from allmydata.util import happinessutil as HU

B = hlib.bounds()
NOTES = [
    "server ids are distinct ints 100+8p (deterministic set order across processes); upload.pretty_print_shnum_to_servers (base32 formatting of "
    "server ids inside log/exception messages) is replaced by repr for that reason",
    "after the solver-decided forks have fixed every input bit the real code runs on the realised scenario with CrossHair opcode tracing off "
    "(_matching.run_concrete); identical to traced execution on concrete data",
    "ServerTracker.__hash__ is pinned to the server id so that set iteration order (the order servers are asked) is the same in the replay process",
    "Encoder/Tahoe2ServerSelector instances are built with __new__ and the attributes the methods read; self.log is a no-op",
    "get_shareholders: storage servers are in-memory fakes (get_buckets/allocate_buckets/abort with the semantics of storage/server.py: alreadygot = asked shares "
    "already present, allocate the rest unless full); every remote call returns an already-fired Deferred; the reactor is a fake whose callLater never fires "
    "(no timeouts); eliot message types GET_SHARE_PLACEMENTS/CONVERGED_HAPPINESS are replaced by no-ops",
]
hlib.encoded(encode.Encoder._remove_shareholder, HU.servers_of_happiness, HU.shares_by_server, HU.failure_message, HU.merge_servers,
             upload.Tahoe2ServerSelector._buckets_allocated, upload.Tahoe2ServerSelector._handle_existing_response,
             upload.Tahoe2ServerSelector._handle_existing_write_response, upload.Tahoe2ServerSelector._allocation_for,
             upload.Tahoe2ServerSelector._failed, upload.Tahoe2ServerSelector.get_shareholders,
             upload.Tahoe2ServerSelector._create_trackers, upload.PeerSelector, upload.ServerTracker, upload.CHKUploader.set_shareholders)

upload.pretty_print_shnum_to_servers = lambda s: repr(sorted((k, sorted(v)) for k, v in s.items()))
# trackers live in sets; the default hash is the object address, which would make the order in which servers are
# asked differ between the analysis and the replay process
upload.ServerTracker.__hash__ = lambda self: self._server.get_serverid()

P = int(B.get("P", 2))
S = int(B.get("S", 3))
FIX = B.get("fix") or []
LABEL = [100 + 8 * p for p in range(6)]


# ---- Encoder._remove_shareholder ------------------------------------------------------------------

class _Writer(object):
    def __init__(self, peerid):
        self.peerid = peerid
        self.aborted = 0

    def abort(self):
        self.aborted += 1

    def get_peerid(self):
        return self.peerid


def _encoder(rel, lands, min_h):
    """Encoder state as CHKUploader.set_shareholders builds it: servermap = servers that already hold the share
    (already_serverids) plus the server of the share's bucket writer; landlords = share -> writer."""
    enc = encode.Encoder.__new__(encode.Encoder)
    enc.log = lambda *a, **k: 0
    enc.min_happiness = min_h
    enc.required_shares = 1
    enc.landlords = {}
    sm = {}
    for s in range(S):
        for p in range(P):
            if s in rel[p]:
                sm.setdefault(s, set()).add(LABEL[p])
        if lands[s] > 0:
            enc.landlords[s] = _Writer(LABEL[lands[s] - 1])
            sm.setdefault(s, set()).add(LABEL[lands[s] - 1])
    enc.servermap = sm
    return enc


def _remove_check(rel, lands, shareid):
    rel = [set(r) for r in rel]
    edges = set((LABEL[p], s) for p in range(P) for s in rel[p])
    for s in range(S):
        if lands[s] > 0:
            edges.add((LABEL[lands[s] - 1], s))
    reduced = set(edges)
    if lands[shareid] > 0:
        reduced.discard((LABEL[lands[shareid] - 1], shareid))
    want = M.max_matching_z3(reduced)
    model = {}
    for (srv, s) in reduced:
        model.setdefault(s, set()).add(srv)
    for min_h in sorted(set([0, want, want + 1, P + S])):
        enc = _encoder(rel, lands, min_h)
        writers = dict(enc.landlords)
        why = Failure(RuntimeError("remote write failed"))
        raised = None
        try:
            encode.Encoder._remove_shareholder(enc, why, shareid, "segnum=0")
        except UploadUnhappinessError as e:
            raised = e
        if (raised is not None) != (want < min_h):
            return "min_happiness=%d, remaining maximum matching=%d: %s" % (
                min_h, want, "raised UploadUnhappinessError" if raised else "did not raise")
        if set(enc.landlords.keys()) != set(writers.keys()) - set([shareid]):
            return "landlords after removal: %r" % (sorted(enc.landlords.keys()),)
        for s, w in writers.items():
            if w.aborted != (1 if s == shareid else 0):
                return "writer of share %d aborted %d times" % (s, w.aborted)
            if s != shareid and enc.landlords[s] is not w:
                return "another landlord was replaced"
        if enc.servermap != model:
            return "servermap after removal %r, expected %r" % (enc.servermap, model)
    return True


def h_remove(e0: bool, e1: bool, e2: bool, e3: bool, e4: bool, e5: bool, e6: bool, e7: bool, e8: bool,
             l0: int, l1: int, l2: int, shareid: int) -> bool:
    """
    pre: M.bits_zero_beyond([e0, e1, e2, e3, e4, e5, e6, e7, e8], P * S) and M.bits_fixed([e0, e1, e2, e3, e4, e5, e6, e7, e8], FIX)
    pre: 0 <= l0 <= P and 0 <= l1 <= P and 0 <= l2 <= P and (S > 2 or l2 == 0)
    pre: 0 <= shareid < S
    post: _ == True
    """
    bits = [e0, e1, e2, e3, e4, e5, e6, e7, e8]
    vals = list(range(P + 1))
    lands = [M.pick(vals, l0), M.pick(vals, l1), M.pick(vals, l2)]
    # a server that allocated a bucket for share s did not already hold s (storage server semantics)
    for s in range(S):
        if lands[s] > 0:
            assume(not bits[(lands[s] - 1) * S + s])
    rel = M.rel_from_bits(bits, P, S)
    sid = M.pick(list(range(S)), shareid)
    return M.run_concrete(_remove_check, rel, lands, sid)


# ---- Tahoe2ServerSelector response handlers -------------------------------------------------------

class _Srv(object):
    """in-memory storage server + IServer facade (semantics of storage/server.py allocate_buckets/get_buckets)."""

    def __init__(self, sid, held, mode, small):
        self.sid = sid
        self.held = set(held)       # complete shares on disk
        self.mode = mode            # "ok" | "full" | "alloc_error" | "gb_error"
        self.small = small          # advertises a maximum share size below what the upload needs => read-only for it
        self.open = {}              # shnum -> _Bucket allocated and not yet aborted/closed
        self.calls = []

    # IServer
    def get_serverid(self):
        return self.sid

    def get_name(self):
        return "srv%d" % self.sid

    def get_longname(self):
        return "server%d" % self.sid

    def get_lease_seed(self):
        return b"seed%04d" % self.sid + b"\x00" * 12

    def get_version(self):
        return {b"http://allmydata.org/tahoe/protocols/storage/v1": {b"maximum-immutable-share-size": 10 if self.small else 2 ** 40}}

    def get_storage_server(self):
        return self

    # IStorageServer
    def get_buckets(self, storage_index):
        self.calls.append("get_buckets")
        if self.mode == "gb_error":
            return defer.fail(RuntimeError("get_buckets failed"))
        return defer.succeed(dict((s, object()) for s in sorted(self.held)))

    def allocate_buckets(self, storage_index, renew_secret, cancel_secret, sharenums, allocated_size, canary=None):
        self.calls.append(("allocate", tuple(sorted(sharenums))))
        if self.mode == "alloc_error":
            return defer.fail(RuntimeError("allocate_buckets failed"))
        already = set(s for s in sharenums if s in self.held)
        buckets = {}
        if self.mode != "full" and not self.small:
            for s in sorted(sharenums):
                if s not in self.held and s not in self.open:
                    b = _Bucket(self, s)
                    self.open[s] = b
                    buckets[s] = b
        return defer.succeed((already, buckets))


class _Bucket(object):
    def __init__(self, srv, shnum):
        self.srv, self.shnum = srv, shnum

    def callRemote(self, name, *a, **k):
        if name == "abort":
            self.srv.open.pop(self.shnum, None)
            return defer.succeed(None)
        raise hlib.HarnessError("unexpected remote call %r" % (name,))

    def abort(self):
        return self.callRemote("abort")


class _Reactor(object):
    class _Timer(object):
        def cancel(self):
            pass

        def active(self):
            return True

    def callLater(self, t, f, *a, **k):
        return self._Timer()


class _NoLog(object):
    def log(self, **kw):
        pass


upload.GET_SHARE_PLACEMENTS = _NoLog()
upload.CONVERGED_HAPPINESS = _NoLog()


def _selector():
    sel = upload.Tahoe2ServerSelector.__new__(upload.Tahoe2ServerSelector)
    sel.upload_id = "up"
    sel._query_stats = upload._QueryStatistics()
    sel.last_failure_msg = None
    sel._status = None
    sel._reactor = _Reactor()
    sel.log = lambda *a, **k: 0
    return sel


class _SecretHolder(object):
    def get_renewal_secret(self):
        return b"r" * 32

    def get_cancel_secret(self):
        return b"c" * 32


class _Broker(object):
    def __init__(self, servers):
        self.servers = servers

    def get_servers_for_psi(self, si, for_upload=False):
        return list(self.servers)


MODES = ["ok", "full", "alloc_error", "gb_error", "small"]


def _shareholders_check(modes, helds, happy, N):
    servers = []
    for i in range(len(modes)):
        m = MODES[modes[i]]
        servers.append(_Srv(LABEL[i], helds[i], "ok" if m == "small" else m, m == "small"))
    truth_before = dict((srv.sid, set(srv.held)) for srv in servers)
    sel = _selector()
    out = []
    d = sel.get_shareholders(_Broker(servers), _SecretHolder(), b"s" * 16, 100, 10, 1, N, 1, happy, 50)
    d.addCallbacks(lambda r: out.append(("ok", r)), lambda f: out.append(("err", f)))
    if not out:
        return "get_shareholders did not finish although every remote call had fired"
    kind, val = out[0]
    bysid = dict((srv.sid, srv) for srv in servers)
    for srv in servers:
        if srv.held != truth_before[srv.sid]:
            raise hlib.HarnessError("fake server changed its shares")
    if kind == "err":
        if not val.check(UploadUnhappinessError):
            return "get_shareholders failed with %r instead of UploadUnhappinessError" % (val.value,)
        left = [(srv.sid, sorted(srv.open)) for srv in servers if srv.open]
        if left:
            return "upload declared unhappy but allocated buckets were not aborted: %r" % (left,)
        return True
    (trackers, already) = val
    edges = set()
    for shnum, sids in already.items():
        for sid in sids:
            if shnum not in bysid[sid].held:
                return "share %d reported as already present on %d, which does not hold it" % (shnum, sid)
            edges.add((sid, shnum))
    reported = set()
    for t in trackers:
        srv = bysid[t.get_serverid()]
        if not t.buckets:
            return "a tracker without buckets is reported as an upload target"
        for shnum in t.buckets:
            if shnum not in srv.open:
                return "share %d reported as being placed on %d, but that server has no open bucket for it" % (shnum, srv.sid)
            reported.add((srv.sid, shnum))
            edges.add((srv.sid, shnum))
    for srv in servers:
        for shnum in srv.open:
            if (srv.sid, shnum) not in reported:
                return "server %d holds an allocated bucket for share %d that the result does not mention (leaked partial share)" % (srv.sid, shnum)
    got = M.max_matching_z3(edges)
    if got < happy:
        return "success reported with happiness %d < threshold %d (layout %r)" % (got, happy, sorted(edges))
    # ---- the next real step of the upload: CHKUploader.set_shareholders hands the result to the encoder ----
    up = upload.CHKUploader.__new__(upload.CHKUploader)
    up.log = lambda *a, **k: 0
    enc = _EncRecorder()
    try:
        upload.CHKUploader.set_shareholders(up, trackers, already, enc)
    except AssertionError:
        # Not a C06 violation (the upload reports no success and publishes nothing: un-closed buckets stay in the servers'
        # incoming area), but a robustness wart worth recording: the selection handed one share to two servers.
        if srv_state_visible_changed(servers, truth_before):
            return "an upload that died in set_shareholders left shares visible to readers"
        _observe("selection success with two bucket writers for one share (layout %r, threshold %d): the real CHKUploader.set_shareholders "
                 "dies with AssertionError; counted as a failed upload; its allocated buckets are not aborted" % (sorted(edges), happy))
        return True
    if enc.got is None:
        return "encoder was not given its shareholders"
    (landlords, servermap) = enc.got
    # the writers that will really be written: one per share number
    medges = set()
    for shnum, w in landlords.items():
        sid = w.get_peerid()
        if shnum not in bysid[sid].open:
            return "encoder writer for share %d points at a server without an open bucket" % shnum
        medges.add((sid, shnum))
    # every allocated bucket must be one of them: a second open writer for the same share number would never be
    # written, closed or aborted, yet its server is counted as a holder
    for srv in servers:
        for shnum in srv.open:
            if (srv.sid, shnum) not in medges:
                return ("the uploader accepted a selection in which share %d has open bucket writers on two servers; the one on %d is "
                        "never written or aborted but is counted towards happiness (layout %r)" % (shnum, srv.sid, sorted(edges)))
    for shnum, sids in servermap.items():
        for sid in sids:
            if shnum not in bysid[sid].held and (sid, shnum) not in medges:
                return "encoder servermap claims share %d on %d, which neither holds it nor will receive it" % (shnum, sid)
    if not medges <= set((sid, sh) for sh, sids in servermap.items() for sid in sids):
        return "a bucket writer's server is missing from the encoder servermap (its removal would not be accounted)"
    real = set(medges)
    for shnum, sids in already.items():
        for sid in sids:
            real.add((sid, shnum))
    got_real = M.max_matching_z3(real)
    if got_real < happy:
        return ("upload goes ahead although the shares that will really be written plus the pre-existing ones have happiness %d < threshold %d "
                "(layout %r)" % (got_real, happy, sorted(real)))
    if M.max_matching_z3(set((sid, sh) for sh, sids in servermap.items() for sid in sids)) < happy:
        return "encoder starts with a servermap below the happiness threshold"
    return True


_OBSERVED = set()


def _observe(text):
    """record a non-violating but noteworthy outcome once in the evidence notes"""
    if len(_OBSERVED) < 3 and text not in _OBSERVED:
        _OBSERVED.add(text)
        NOTES.append("observed: " + text)


def srv_state_visible_changed(servers, truth_before):
    return any(srv.held != truth_before[srv.sid] for srv in servers)


class _EncRecorder(object):
    got = None

    def set_shareholders(self, landlords, servermap):
        self.got = (dict(landlords), dict((k, set(v)) for k, v in servermap.items()))


def h_shareholders(m0: int, m1: int, m2: int, h0: int, h1: int, h2: int, happy: int) -> bool:
    """
    pre: 0 <= m0 < 5 and 0 <= m1 < 5 and 0 <= m2 < 5 and (B.get("NSRV", 2) > 2 or m2 == 0)
    pre: 0 <= h0 < 2 ** B.get("N", 2) and 0 <= h1 < 2 ** B.get("N", 2) and 0 <= h2 < 2 ** B.get("N", 2) and (B.get("NSRV", 2) > 2 or h2 == 0)
    pre: 1 <= happy <= B.get("N", 2)
    pre: B.get("m0") is None or m0 == B.get("m0")
    pre: B.get("m1") is None or m1 == B.get("m1")
    pre: B.get("h0") is None or h0 == B.get("h0")
    post: _ == True
    """
    N = int(B.get("N", 2))
    nsrv = int(B.get("NSRV", 2))
    vals = list(range(5))
    subsets = list(range(2 ** N))
    modes = [M.pick(vals, m0), M.pick(vals, m1), M.pick(vals, m2)][:nsrv]
    hs = [M.pick(subsets, h0), M.pick(subsets, h1), M.pick(subsets, h2)][:nsrv]
    helds = [[s for s in range(N) if (h >> s) & 1] for h in hs]
    hp = M.pick(list(range(N + 1)), happy)
    return M.run_concrete(_shareholders_check, modes, helds, hp, N)


# ---- one-step bookkeeping of the response handlers ------------------------------------------------

def _subset(mask, n):
    return set(s for s in range(n) if (mask >> s) & 1)


def _selector_state(N, homeless, in_use, peer_kind, buckets_before):
    sel = _selector()
    sel.total_shares = N
    sel.min_happiness = 1
    sel.needed_shares = 1
    sel.homeless_shares = set(homeless)
    sel.use_trackers = set()
    sel.preexisting_shares = {}
    sel.serverids_with_shares = set()
    ps = upload.PeerSelector(1, N, 1, 1)
    sel.peer_selector = ps
    srv = _Srv(LABEL[0], [], "ok", False)
    other = _Srv(LABEL[1], [], "ok", False)
    ps.add_peer(other.sid)
    if peer_kind == 0:
        ps.add_peer(srv.sid)
    elif peer_kind == 1:
        ps.add_peer(srv.sid)
        ps.mark_readonly_peer(srv.sid)
    tr = upload.ServerTracker(srv, 100, 10, 1, 1, b"s" * 16, b"r", b"c", 50)
    for s in buckets_before:
        tr.buckets[s] = _Bucket(srv, s)
        srv.open[s] = tr.buckets[s]
    if in_use or buckets_before:
        sel.use_trackers.add(tr)
    return sel, ps, srv, tr


def _allocated_check(N, homeless, asked, kind, already, allocated, before, peer_kind):
    homeless, asked, already, allocated, before = (_subset(x, N) for x in (homeless, asked, already, allocated, before))
    sel, ps, srv, tr = _selector_state(N, homeless, False, peer_kind, before)
    st = sel._query_stats
    st.total, st.good, st.bad, st.full, st.error = 5, 2, 3, 1, 2
    if kind == 0:
        res = Failure(RuntimeError("allocate failed"))
    else:
        # ServerTracker._buckets_allocated has already recorded the new buckets
        for s in allocated:
            tr.buckets[s] = _Bucket(srv, s)
        res = (set(already), set(allocated))
    ret = upload.Tahoe2ServerSelector._buckets_allocated(sel, res, tr, set(asked))
    if st.bad != st.full + st.error:
        return "query statistics: bad != full + error"
    if st.good + st.bad != 6 or st.total != 5:
        return "exactly one of good/bad must be counted per response"
    if kind == 0:
        if ret is not res:
            return "a failed allocation must propagate the failure (so the tracker is made read-only)"
        if sel.homeless_shares != homeless | asked:
            return "shares asked of a failing server must become homeless again"
        if srv.sid in ps.peers or (peer_kind != 2 and srv.sid not in ps.readonly_peers):
            return "failing server is still a writable peer for the next placement round"
        if (st.error, st.bad) != (3, 4):
            return "failure not counted as error"
        if (tr in sel.use_trackers) != bool(before):
            return "use_trackers changed on failure"
        return True
    want_homeless = (homeless - already) | (asked - already - allocated)
    if sel.homeless_shares != want_homeless:
        return "homeless shares %r, expected %r" % (sorted(sel.homeless_shares), sorted(want_homeless))
    for s in already:
        if srv.sid not in sel.preexisting_shares.get(s, ()):
            return "already-present share not recorded"
    if set(sel.preexisting_shares.keys()) != already:
        return "preexisting_shares has spurious entries"
    if (tr in sel.use_trackers) != bool(tr.buckets):
        return "a tracker is in use_trackers iff it holds buckets (needed so that _failed aborts them all)"
    if (srv.sid in sel.serverids_with_shares) != bool(already or allocated):
        return "serverids_with_shares"
    progress = bool(allocated) or bool(already & (homeless | asked))
    if bool(ret) != progress:
        return "returned progress=%r, expected %r" % (ret, progress)
    if (st.good == 3) != progress:
        return "good/full counters do not match progress"
    return True


def h_buckets_allocated(homeless: int, asked: int, kind: int, already: int, allocated: int, before: int, peer_kind: int) -> bool:
    """
    pre: 0 <= homeless < 2 ** B.get("N", 2) and 0 <= asked < 2 ** B.get("N", 2)
    pre: 0 <= already < 2 ** B.get("N", 2) and 0 <= allocated < 2 ** B.get("N", 2) and 0 <= before < 2 ** B.get("N", 2)
    pre: 0 <= kind <= 1 and 0 <= peer_kind <= 2
    pre: kind == 1 or (already == 0 and allocated == 0)
    pre: B.get("pk") is None or peer_kind == B.get("pk")
    post: _ == True
    """
    N = int(B.get("N", 2))
    sub = list(range(2 ** N))
    a = [M.pick(sub, x) for x in (homeless, asked, already, allocated, before)]
    k = M.pick([0, 1], kind)
    pk = M.pick([0, 1, 2], peer_kind)
    # storage server semantics: it allocates only shares it was asked for, does not have, and has no open bucket for
    assume(a[3] & ~a[1] == 0 and a[3] & a[2] == 0 and a[3] & a[4] == 0)
    # shares with an open bucket on this server are not homeless
    assume(a[4] & a[0] == 0)
    return M.run_concrete(_allocated_check, N, a[0], a[1], k, a[2], a[3], a[4], pk)


def _existing_check(N, homeless, kind, buckets, writable, asked):
    homeless, buckets, asked = (_subset(x, N) for x in (homeless, buckets, asked))
    sel, ps, srv, tr = _selector_state(N, homeless, False, 0 if writable else 1, ())
    res = Failure(RuntimeError("get_buckets failed")) if kind == 0 else dict((s, object()) for s in sorted(buckets))
    if writable:
        upload.Tahoe2ServerSelector._handle_existing_write_response(sel, res, tr, set(asked))
    else:
        upload.Tahoe2ServerSelector._handle_existing_response(sel, res, tr)
    if kind == 0:
        if srv.sid in ps.peers or srv.sid in ps.readonly_peers or srv.sid not in ps.bad_peers:
            return "a server whose existing-share query failed must not take part in the placement"
        if srv.sid in ps.existing_shares:
            return "failed query recorded shares"
        if sel.homeless_shares != (homeless | asked if writable else homeless):
            return "homeless shares changed wrongly on failure"
        return True
    if ps.existing_shares.get(srv.sid, set()) != buckets:
        return "existing shares of the server not recorded exactly: %r" % (ps.existing_shares,)
    if (srv.sid in ps.peers) != writable or (srv.sid in ps.readonly_peers) == writable:
        return "peer class changed"
    pre = ps.get_sharemap_of_preexisting_shares()
    model = dict((s, set([srv.sid])) for s in buckets)
    if dict((k, set(v)) for k, v in pre.items()) != model:
        return "get_sharemap_of_preexisting_shares is not the reported relation"
    if not writable:
        if sel.homeless_shares != homeless - buckets:
            return "shares found on a read-only server stay homeless"
        if (srv.sid in sel.serverids_with_shares) != bool(buckets):
            return "serverids_with_shares"
    return True


def h_existing(homeless: int, kind: int, buckets: int, writable: bool, asked: int) -> bool:
    """
    pre: 0 <= homeless < 2 ** B.get("N", 2) and 0 <= buckets < 2 ** B.get("N", 2) and 0 <= asked < 2 ** B.get("N", 2)
    pre: 0 <= kind <= 1 and (kind == 1 or buckets == 0)
    post: _ == True
    """
    N = int(B.get("N", 2))
    sub = list(range(2 ** N))
    a = [M.pick(sub, x) for x in (homeless, buckets, asked)]
    k = M.pick([0, 1], kind)
    w = True if writable else False
    return M.run_concrete(_existing_check, N, a[0], k, a[1], w, a[2])


def _allocation_for_check(N, homeless, place):
    homeless = _subset(homeless, N)
    sel, ps, srv, tr = _selector_state(N, homeless, False, 0, ())
    # placements: share -> server id (this tracker's, another one's) as share_placement returns them
    ids = [srv.sid, LABEL[1], LABEL[2]]
    sel._share_placements = dict((s, ids[place[s]]) for s in range(N))
    got = upload.Tahoe2ServerSelector._allocation_for(sel, tr)
    mine = set(s for s in range(N) if place[s] == 0)
    if got != mine:
        return "asks %r, the placement gives this server %r" % (sorted(got), sorted(mine))
    if sel.homeless_shares != homeless - mine:
        return "homeless shares after asking"
    return True


def h_allocation_for(homeless: int, p0: int, p1: int, p2: int) -> bool:
    """
    pre: 0 <= homeless < 2 ** B.get("N", 2)
    pre: 0 <= p0 <= 2 and 0 <= p1 <= 2 and 0 <= p2 <= 2
    post: _ == True
    """
    N = int(B.get("N", 2))
    hm = M.pick(list(range(2 ** N)), homeless)
    place = [M.pick([0, 1, 2], p0), M.pick([0, 1, 2], p1), M.pick([0, 1, 2], p2)]
    return M.run_concrete(_allocation_for_check, N, hm, place)


# ---- CHKUploader._encrypted_done: what the upload REPORTS as placed -------------------------------

hlib.encoded(upload.CHKUploader._encrypted_done, upload.UploadResults)


class _DoneEncoder(object):
    """what _encrypted_done reads from the Encoder after the push"""
    file_size = 1000

    def __init__(self, placed):
        self._placed = set(placed)
        self.given = None

    def set_shareholders(self, landlords, servermap):
        self.given = (dict(landlords), servermap)

    def get_shares_placed(self):
        return set(self._placed)

    def get_times(self):
        return {"cumulative_encoding": 0.0}

    def get_uri_extension_data(self):
        return {"size": 1000}

    def get_uri_extension_hash(self):
        return b"h" * 32


class _Status(object):
    results = None

    def set_results(self, ur):
        self.results = ur


def _done_check(owner, placed, already):
    """owner[s]: 0 = no bucket was allocated for share s, t+1 = tracker t got one; placed: shares whose writer survived the
    push (subset of the allocated ones; a writer that failed was removed by _remove_shareholder, tolerated while happy);
    already[s]: share s was also found pre-existing on some other server."""
    N = len(owner)
    NT = int(B.get("NT", 3))
    servers = [_Srv(LABEL[t], [], "ok", False) for t in range(NT)]
    trackers = []
    for t in range(NT):
        tr = upload.ServerTracker(servers[t], 100, 10, 1, 1, b"s" * 16, b"r", b"c", 50)
        for s in range(N):
            if owner[s] == t + 1:
                b = _Bucket(servers[t], s)
                servers[t].open[s] = b
                tr.buckets[s] = tr.wbp_class(b, servers[t], tr.sharesize, tr.blocksize, tr.num_segments, tr.num_share_hashes, 50)
        if tr.buckets:
            trackers.append(tr)
    already_ids = dict((s, set([LABEL[NT]])) for s in range(N) if already[s])
    up = upload.CHKUploader.__new__(upload.CHKUploader)
    up.log = lambda *a, **k: 0
    enc = _DoneEncoder(placed)
    up._encoder = enc
    up._started = 0.0
    up._storage_index_elapsed = 0.0
    up._server_selection_elapsed = 0.0
    up._upload_status = _Status()
    upload.CHKUploader.set_shareholders(up, set(trackers), already_ids, enc)     # real bookkeeping before the push
    ur = upload.CHKUploader._encrypted_done(up, hlib.NS(to_string=lambda: b"URI:CHK-Verifier:x"))
    if up._upload_status.results is not ur:
        return "results not recorded in the upload status"
    want = set((s, LABEL[owner[s] - 1]) for s in placed)
    sharemap = ur.get_sharemap()
    servermap = ur.get_servermap()
    got_sm = set((s, srv.get_serverid()) for s, srvs in sharemap.items() for srv in srvs)
    got_vm = set((s, srv.get_serverid()) for srv, shs in servermap.items() for s in shs)
    for (s, sid) in sorted(got_sm | got_vm):
        if (s, sid) not in want:
            if owner[s] and LABEL[owner[s] - 1] == sid:
                return ("share %d is reported as placed on server %d, but its writer failed during the push and was removed "
                        "(the share is not complete/readable there)" % (s, sid))
            return "share %d reported on server %d, which never held a bucket for it" % (s, sid)
    if got_sm != want:
        return "sharemap %r is not exactly the shares whose writers completed %r" % (sorted(got_sm), sorted(want))
    if got_vm != want:
        return "servermap %r is not the inverse of the sharemap %r" % (sorted(got_vm), sorted(want))
    if any(not v for v in sharemap.values()) or any(not v for v in servermap.values()):
        return "empty entries in the reported maps"
    if ur.get_pushed_shares() != len(placed):
        return "pushed_shares=%r, %d shares were pushed to completion" % (ur.get_pushed_shares(), len(placed))
    if ur.get_preexisting_shares() != len(already_ids):
        return "preexisting_shares=%r, %d share numbers were found pre-existing" % (ur.get_preexisting_shares(), len(already_ids))
    if ur.get_file_size() != 1000 or ur.get_verifycapstr() != b"URI:CHK-Verifier:x":
        return "file size / verify cap not passed through"
    return True


def h_done(o0: int, o1: int, o2: int, p0: bool, p1: bool, p2: bool, a0: bool, a1: bool, a2: bool) -> bool:
    """
    pre: 0 <= o0 <= B.get("NT", 3) and 0 <= o1 <= B.get("NT", 3) and 0 <= o2 <= B.get("NT", 3)
    pre: (o0 > 0 or not p0) and (o1 > 0 or not p1) and (o2 > 0 or not p2)
    post: _ == True
    """
    vals = list(range(int(B.get("NT", 3)) + 1))
    owner = [M.pick(vals, o) for o in (o0, o1, o2)]
    placed = []
    for s, p in enumerate((p0, p1, p2)):
        if p:
            placed.append(s)
    already = [True if a else False for a in (a0, a1, a2)]
    return M.run_concrete(_done_check, owner, placed, already)
