"""
Stand-in for the third-party package ``collections_extended`` (only ``RangeMap``),
which is not installed in this sandbox and not in the offline wheelhouse.

It is put on sys.path only inside harness processes and only when the real
package cannot be imported (see vlib/hlib.py: ensure_shims()).  It implements the
subset of RangeMap behaviour tahoe-lafs uses (storage/immutable.py,
storage/http_client.py): set(value, start, stop), delete(start, stop),
ranges(start, stop) -> records with .start/.stop/.value that unpack as
(start, stop, value), empty(), iteration/len, get/__getitem__/__contains__.

Semantics follow collections_extended 2.x: half-open integer ranges, later sets
overwrite earlier ones, adjacent ranges with equal values are merged, delete of a
range that is not fully mapped raises KeyError, ranges(start, stop) clips the
returned records to [start, stop).

The list manipulation is plain comparisons on the endpoints, so the class also
works on CrossHair symbolic integers.
"""


class MappedRange(object):
    __slots__ = ("start", "stop", "value")

    def __init__(self, start, stop, value):
        self.start = start
        self.stop = stop
        self.value = value

    def __iter__(self):
        yield self.start
        yield self.stop
        yield self.value

    def __eq__(self, other):
        if isinstance(other, MappedRange):
            return (self.start, self.stop, self.value) == (other.start, other.stop, other.value)
        if isinstance(other, tuple):
            return (self.start, self.stop, self.value) == other
        return NotImplemented

    def __repr__(self):
        return "MappedRange(%r, %r, %r)" % (self.start, self.stop, self.value)


class RangeMap(object):
    def __init__(self, iterable=None, default_value=None):
        # sorted, disjoint list of [start, stop, value]
        self._r = []
        if iterable is not None:
            if isinstance(iterable, dict):
                raise NotImplementedError("shim: dict constructor not supported")
            for (start, stop, value) in iterable:
                self.set(value, start, stop)

    # -- mutation -----------------------------------------------------
    def _carve(self, start, stop):
        """Remove [start, stop) from the list; return (new_list, covered_length)."""
        out = []
        covered = 0
        for (s, e, v) in self._r:
            if e <= start or s >= stop:
                out.append([s, e, v])
                continue
            lo = s if s > start else start
            hi = e if e < stop else stop
            covered += hi - lo
            if s < start:
                out.append([s, start, v])
            if e > stop:
                out.append([stop, e, v])
        return out, covered

    def _normalise(self, lst):
        lst.sort(key=lambda r: r[0])
        merged = []
        for r in lst:
            if merged and merged[-1][1] == r[0] and merged[-1][2] == r[2]:
                merged[-1][1] = r[1]
            else:
                merged.append(r)
        self._r = merged

    def set(self, value, start=None, stop=None):
        if start is None or stop is None:
            raise NotImplementedError("shim: unbounded ranges not supported")
        if start > stop:
            raise ValueError("start must be <= stop")
        if start == stop:
            return
        lst, _ = self._carve(start, stop)
        lst.append([start, stop, value])
        self._normalise(lst)

    def delete(self, start=None, stop=None):
        if start is None or stop is None:
            raise NotImplementedError("shim: unbounded ranges not supported")
        if start > stop:
            raise ValueError("start must be <= stop")
        if start == stop:
            return
        lst, covered = self._carve(start, stop)
        if covered != stop - start:
            raise KeyError((start, stop))
        self._normalise(lst)

    def empty(self, start=None, stop=None):
        """Like delete, but no error if (part of) the range is unmapped."""
        if start is None and stop is None:
            self._r = []
            return
        if start is None or stop is None:
            raise NotImplementedError("shim: unbounded ranges not supported")
        lst, _ = self._carve(start, stop)
        self._normalise(lst)

    def clear(self):
        self._r = []

    # -- queries ------------------------------------------------------
    def ranges(self, start=None, stop=None):
        out = []
        for (s, e, v) in self._r:
            if start is not None and e <= start:
                continue
            if stop is not None and s >= stop:
                continue
            lo = s if (start is None or s > start) else start
            hi = e if (stop is None or e < stop) else stop
            out.append(MappedRange(lo, hi, v))
        return out

    def get(self, key, restval=None):
        for (s, e, v) in self._r:
            if s <= key < e:
                return v
        return restval

    def __getitem__(self, key):
        if isinstance(key, slice):
            raise NotImplementedError("shim: slicing not supported")
        for (s, e, v) in self._r:
            if s <= key < e:
                return v
        raise KeyError(key)

    def __contains__(self, key):
        for (s, e, v) in self._r:
            if s <= key < e:
                return True
        return False

    def __iter__(self):
        return iter(self.ranges())

    def __len__(self):
        return len(self._r)

    def __bool__(self):
        return bool(self._r)

    def __eq__(self, other):
        if isinstance(other, RangeMap):
            return [tuple(r) for r in self._r] == [tuple(r) for r in other._r]
        return NotImplemented

    def __repr__(self):
        return "RangeMap(%r)" % ([tuple(r) for r in self._r],)
