from vlib.spec import chx

EXPLANATION = ("CrossHair symbolic execution (z3) of the real size/offset arithmetic and data movement of mutable publish, in-place update "
               "and retrieve, on provenance buffers with a universally quantified probe position; integers unbounded unless stated.")
ASSUMPTIONS = [
    "zfec replaced by an ideal erasure code (any k equal-sized blocks decode to the k primary blocks); AES-CTR by the identity (position preserving)",
    "byte contents abstracted to provenance (ProvBuf): old file = source 'old'/'file' at absolute offsets, written data = source 'new'",
    "one operation / one segment from an arbitrary consistent state; longer histories are covered inductively "
    "(each operation maps a correct file to a correct file, each segment read leaves the uploadable in the consistent state for the next)",
    "the node's cached size (MutableFileNode.get_size()) is an arbitrary symbolic value in update_plan: the update must not depend on it",
    "the old version of an updated MDMF file was written with the same k and the same maximum segment size (segment size = next_multiple(max, k))",
    "Retrieve.decode's result for the boundary segments is tied to the in-place update by contract: update_decode proves the contract, update_stitch assumes it",
]
T = {"quick": 120, "thorough": 1200}
_KS = {"quick": [1, 3], "thorough": [1, 2, 3, 5, 7, 16]}
_SEGS = {"quick": [3, 131073], "thorough": [1, 3, 6, 131072, 131073, 131075]}


def _kseg(tier, sdmf=False):
    out = []
    for k in _KS[tier]:
        for m in ([4, 131072] if tier == "quick" else [1, 4, 10, 131072]):
            out.append({"k": k, "maxseg": m, "_label": "k%d-max%d" % (k, m)})
    return out


def _ret_cases(tier):
    out = []
    for k in _KS[tier]:
        out.append({"k": k, "sdmf": True, "extra": (k == 3), "_label": "sdmf-k%d" % k})
        for mult in ([1, 43691] if tier == "quick" else [1, 2, 5, 43691]):
            out.append({"k": k, "sdmf": False, "segsize": k * mult, "extra": (mult == 1), "_label": "mdmf-k%d-seg%d" % (k, k * mult)})
    return out


def _pick(cases, labels):
    return [c for c in cases if c["_label"] in labels]


def _enc_cases(tier):
    return [dict(c, sdmf=sd, _label=c["_label"] + ("-sdmf" if sd else "-mdmf")) for c in _kseg(tier) for sd in (False, True)
            if not (sd and c["maxseg"] != 131072)]


OBLIGATIONS = [
    chx("update_range", "C09_h", "h_update_range", timeout=T,
        cases={t: [{"segsize": s, "_label": "seg%d" % s} for s in _SEGS[t]] for t in ("quick", "thorough")},
        desc="MutableFileVersion._update/_do_update_update: SDMF goes through _modify only; MDMF runs servermap-update(MODE_WRITE, range) -> decode -> "
             "build; the requested (start,end) segments contain every old byte that survives inside a rewritten segment (probe), start = segment "
             "of the first written byte, end = segment of the last written byte (start when the write reaches EOF)",
        outside="the servermap update itself (fetching the blocks of those segments)"),
    chx("update_plan", "C09_h", "h_update_plan", timeout=T,
        cases={"quick": _pick(_kseg("quick"), ("k3-max4", "k1-max131072")), "thorough": _kseg("thorough")},
        desc="in-place MDMF update, planning: real _update -> _do_update_update -> _build_uploadable_and_finish builds a TransformingUploadable "
             "from (data, offset, old segment size, start, end) and calls Publish.update(u, offset, blockhashes, version); the real "
             "Publish.update (run up to its data-length computation, with node.get_size() returning an ARBITRARY, possibly stale value) and "
             "Publish.setup_encoding_parameters(offset) then give: data length = max(data length of the version being updated, offset+len), segment size = old segment size, segment count/tail of the updated file "
             "(max(old size, offset+len)), first pushed segment = segment of the first written byte, last pushed segment = segment of the last "
             "byte that changes (end of file when the write reaches EOF)",
        outside="Publish.update's writer set-up; updating an empty file"),
    chx("transform_read", "C09_h", "h_transform_read", timeout=T,
        cases={t: [{"segsize": s, "_label": "seg%d" % s} for s in _SEGS[t]] for t in ("quick", "thorough")},
        desc="TransformingUploadable.read, one read of a whole segment (what the publisher issues) or any shorter prefix of it, from the consistent state after t whole segments (start/end buffers = the old "
             "segments that the real _do_update_update asked for): returns exactly the bytes of the updated file at that position - old bytes "
             "before the write from the start segment, the new data, old bytes after the write from the end segment at the right in-segment "
             "offset - and leaves read marker and new-data position consistent for the next read (probe position, unbounded integers)",
        outside="reads that do not START on a segment boundary of the stream (the publisher never issues them: encode_pieces; the in-segment "
                "offset of the old end data is computed relative to the start of the read)"),
    chx("encode_pieces", "C09_h", "h_encode_pieces", timeout=T,
        cases={"quick": _pick(_enc_cases("quick"), ("k3-max4-mdmf", "k1-max131072-mdmf", "k3-max131072-sdmf")), "thorough": _enc_cases("thorough")},
        desc="Publish._encode_segment for an arbitrary segment j: reads exactly the data bytes of segment j (segment size, or the tail size for "
             "the last one) from the uploadable, cuts them into k equal pieces in order, zero-pads the last, and the encoder returns one block "
             "per share number",
        outside="salts, AES, block hashes"),
    chx("update_stitch", "C09_h", "h_update_stitch", timeout={"quick": 120, "thorough": 2400}, tiers=("thorough",),
        cases={"thorough": [{"k": 1, "maxseg": 4, "_label": "k1-max4"}, {"k": 2, "maxseg": 131072, "_label": "k2-max131072"}]},
        desc="in-place MDMF update end to end at the data level: real _update -> _do_update_update -> _build_uploadable_and_finish -> "
             "TransformingUploadable -> Publish.setup_encoding_parameters -> Publish._encode_segment for an arbitrary pushed segment j from the "
             "consistent uploadable state: the k pieces handed to the erasure coder are exactly the bytes of the updated file (old bytes outside "
             "[offset,offset+len), new data inside) followed by zero padding; pushed segments are exactly those that change; the uploadable "
             "state is consistent for the next segment",
        outside="block-hash-tree patching in Publish.update, share writers, updating an empty file (Retrieve.decode asserts datalength > 0)"),
    chx("param_agreement", "C09_h", "h_param_agreement", timeout=T, bounds={"quick": {"size_max": 2 ** 48}, "thorough": {"size_max": 2 ** 64}},
        cases={t: _enc_cases(t) for t in ("quick", "thorough")},
        desc="Publish.setup_encoding_parameters vs Retrieve._setup_encoding_parameters (+CRSEncoder/CRSDecoder.set_params) for SDMF and MDMF: "
             "segment size rule, segment count, tail size, block sizes and padded tail agree; segments tile the file; whole-file ranges",
        outside="datalength 0 (Retrieve short-circuits size 0 before this code)"),
    chx("retrieve_trim", "C09_h", "h_retrieve_trim", timeout=T,
        cases={"quick": _pick(_ret_cases("quick"), ("sdmf-k3", "mdmf-k3-seg3", "mdmf-k1-seg43691")), "thorough": _ret_cases("thorough")},
        desc="Retrieve._setup_encoding_parameters + _maybe_decode_and_decrypt_segment/_decode_blocks/_set_segment for an arbitrary segment j of a "
             "read [offset, offset+len): exactly k blocks go to the decoder, padding is dropped, and the consumer receives exactly file bytes "
             "[lo,hi) with lo = offset on the first segment / segment start otherwise, hi = offset+len on the last / segment end otherwise "
             "(so the writes for segments start..last concatenate to exactly the requested range)",
        outside="block validation (C10), server selection, pause/stop"),
    chx("update_decode", "C09_h", "h_update_decode", timeout=T,
        cases={"quick": [{"k": 3, "segsize": 3, "_label": "k3-seg3"}, {"k": 1, "segsize": 131072, "_label": "k1-seg131072"}],
               "thorough": [{"k": k, "segsize": k * m, "_label": "k%d-seg%d" % (k, k * m)} for k in _KS["thorough"] for m in (1, 43691)]},
        desc="Retrieve.decode(blocks, segnum) as used by the in-place update returns exactly the data bytes of old segment segnum (tail trimmed)",
        outside="empty file"),
    chx("modify_splice", "C09_h", "h_modify_splice", timeout=T,
        desc="_do_modify_update's modifier: result = old[:offset] + data + old[offset+len:], every byte outside the write unchanged, file "
             "extended when the write passes EOF, old contents not mutated (offset <= old length)",
        outside="offset > current size (outside the documented precondition of update(): offsets inside the file or exactly at EOF)"),
    chx("mdmf_block_layout", "C09_h", "h_mdmf_block_layout", timeout=T,
        cases={"quick": [{"k": 3, "segsize": 6, "_label": "k3-seg6"}, {"k": 1, "segsize": 131072, "_label": "k1-seg131072"}],
               "thorough": [{"k": k, "segsize": k * m, "_label": "k%d-seg%d" % (k, k * m)} for k in (1, 2, 3, 5, 16) for m in (1, 2, 43691)]},
        desc="real MDMFSlotWriteProxy.__init__/put_block/put_blockhashes for symbolic datalength and segment j: the (salt+block) of segment j "
             "(block size = the publisher's: ceil(segment bytes / k)) is queued at share_data + j*(salt+full block); consecutive blocks are "
             "contiguous and disjoint; the last block ends exactly at offsets['block_hash_tree'] - including datalength an exact multiple "
             "of the segment size; share data starts after the fixed-size key/signature/hash-chain area; wrong-sized blocks are refused",
        outside="contents of the other fields; the read proxy's use of the offsets (C38/C10)"),
]
