from vlib.spec import pyob

EXPLANATION = ("Direct z3 string/regex/integer queries (cvc5 cross-check in the thorough tier) over models generated at run time from "
               "the live functions: the regex pattern/flags/method that parse_duration and parse_abbreviated_size really use are "
               "captured from one real call, translated with Python semantics (IGNORECASE, Unicode \\d/\\s, $ before a final newline, "
               "match vs fullmatch), str.upper()/str.lower() are modelled by per-character preimages computed from the real methods, "
               "time_map / multiplier dicts are evaluated from the functions' ASTs, abbreviate_space's print language comes from its "
               "live format strings. String lengths and numbers are unbounded; the model is compared with the real functions on a "
               "corpus on every run.")
ASSUMPTIONS = [
    "documented grammars/values written in harness/C48_h.py from docs/garbage-collection.rst (durations: number, optional space, day(s)|mo|month(s)|year(s); "
    "dates YYYY-MM-DD = midnight UTC) and docs/configuration.rst (reserved_space: number, optional space, optional K/M/G/T/P/E [i], optional B, case-insensitive); "
    "month = 31 days, year = 365 days (the values the original implementation and the test-suite use; the docs give no number)",
    "a string accepted outside the documented grammar but read with its natural value (non-ASCII digits/blanks, trailing newline, s/second(s), 'iB' without scale) "
    "is information, not a violation",
    "alphabet: z3 characters 0..0x2FFFF; every code point above is checked to behave like U+2FFFF for each regex atom and to be fixed by upper()/lower()",
    "time-zone independence of parse_date is established by probes of the real function under three TZ settings on solver-chosen dates, not by the arithmetic model",
    "calendar.timegm is an arithmetic model (proleptic Gregorian month table, no range check on day/hour/minute/second) validated against the real function on a grid",
    "float rounding of abbreviate_space's %.2f is outside the solver: only the shape of the printed string is used",
]


def _h():
    import C48_h
    return C48_h


def duration_units(ctx):
    return _h().ob_duration_units(ctx)


def duration_documented(ctx):
    return _h().ob_duration_documented(ctx)


def size_documented(ctx):
    return _h().ob_size_documented(ctx)


def size_value(ctx):
    return _h().ob_size_value(ctx)


def size_print_parse(ctx):
    return _h().ob_size_print_parse(ctx)


def date_language(ctx):
    return _h().ob_date_language(ctx)


def date_fields(ctx):
    return _h().ob_date_fields(ctx)


BQ = {"quick": {"cvc5": False, "query_timeout_ms": 60000}, "thorough": {"cvc5": True, "query_timeout_ms": 300000}}
T = {"quick": 120, "thorough": 900}
OBLIGATIONS = [
    pyob("duration_units", "duration_units", bounds=BQ, timeout=T,
         desc="parse_duration: every documented unit reaches a time_map entry; every unit spelling (any case / case-fold equivalent) that returns a "
              "value carries the documented number of seconds of the unit it spells; spellings rejected at the lookup (KeyError, e.g. U+017F for s) "
              "are reported as information (a rejection whatever the exception type)"),
    pyob("duration_documented", "duration_documented", bounds=BQ, timeout=T,
         desc="parse_duration: documented spellings are all accepted; the number group is read with its decimal value; leniencies reported as information"),
    pyob("size_documented", "size_documented", bounds=BQ, timeout=T,
         desc="parse_abbreviated_size accepts every documented reserved_space spelling (incl. one blank before the suffix). "
              "Witness class: documented-space-rejected"),
    pyob("size_value", "size_value", bounds=BQ, timeout=T,
         desc="parse_abbreviated_size: every suffix accepted (after upper()) maps to a dict key and to the documented power of 1000/1024"),
    pyob("size_print_parse", "size_print_parse", bounds=BQ, timeout=T,
         desc="every string abbreviate_space prints (live format strings) is accepted by parse_abbreviated_size. "
              "Witness classes: abbrev-bytes-form-rejected, abbrev-scaled-form-rejected",
         outside="numeric equality for the rounded %.2f forms"),
    pyob("date_language", "date_language", bounds=BQ, timeout=T,
         desc="parse_date: documented YYYY-MM-DD accepted; everything accepted is a date, or starts with a complete timestamp "
              "(text after a complete timestamp is ignored: information; its value is the timestamp's, see date_fields)"),
    pyob("date_fields", "date_fields", bounds={"quick": dict(BQ["quick"], year_max=9999), "thorough": dict(BQ["thorough"], year_max=9999)}, timeout=T,
         desc="parse_date/iso_utc_time_to_seconds: for all field values the regex admits (year 0..9999, other fields 00..99) the call raises ValueError or "
              "the fields are a real calendar date/time and the value is its UTC timestamp; a plain date is midnight UTC. "
              "Field wiring of calendar.timegm / datetime.datetime read from the AST. The real parse_date is also run on solver-chosen documented dates "
              "(two per month, 1971..2037) under TZ=UTC, America/New_York and Asia/Kolkata: midnight UTC every time, and "
              "parse_date(iso_utc_date(t)) == t - t % 86400. If parse_date's structure is not recognised the obligation falls back to these "
              "probes plus malformed/impossible dates (VIOLATED or INCONCLUSIVE). Witness classes: date-field-out-of-range, date-depends-on-timezone"),
]
