from vlib.spec import pyob

EXPLANATION = ("Direct z3 string/regex queries (cvc5 cross-check in the thorough tier) over a language model generated at run time "
               "from the live allmydata.uri objects: every compiled STRING_RE/BASE_STRING_RE is translated with Python's matching "
               "semantics made explicit (search, ^, $ vs \\Z), the field flow regex group -> constructor -> attribute -> to_string "
               "format slot and the startswith chain of from_string are read from the current ASTs. String length is unbounded. "
               "The extracted model is compared with the real code on a concrete corpus on every run (mismatch = harness error).")
ASSUMPTIONS = [
    "capability objects meet the specification: 16-byte keys/storage indexes, 32-byte hashes/fingerprints, non-negative integers (docs/specifications/uri.rst)",
    "base32 decode->encode (stdlib base64 behind a2b/b2a) is the identity exactly on canonical unpadded RFC 4648 strings over the live alphabet; "
    "int()->'%d' is the identity exactly on 0|-?[1-9][0-9]*  (both ideal models are compared with the real functions on the corpus each run)",
    "_DirectoryBaseURI.init_from_string/to_string: hand model 'search BASE_STRING_RE, keep the rest, prepend INNER.BASE_STRING' over the live class attributes",
    "the alleged prefixes ro./imm. are stripped by from_string by design (ticket #833): canonicality is claimed for unprefixed strings; prefix_single "
    "shows that at most one prefix is ever stripped; the prefix/context authority matrix is C16",
    "prefix handling of from_string is a table learned from the real function (token sequences up to length 3 x deep_immutable), validated on the corpus",
    "regex translation supports anchors at the pattern edges only; anything else is a harness error, not a pass",
]


def _h():
    import C15_h
    return C15_h


def canonical(ctx):
    return _h().ob_canonical(ctx)


def print_roundtrip(ctx):
    return _h().ob_print_roundtrip(ctx)


def dispatch(ctx):
    return _h().ob_dispatch(ctx)


def base32_tables(ctx):
    return _h().ob_base32_tables(ctx)


def parse_total(ctx):
    return _h().ob_parse_total(ctx)


def prefix_single(ctx):
    return _h().ob_prefix_single(ctx)


FAM = [{"family": "files", "_label": "files"}, {"family": "dirs", "_label": "dirs"}]
BQ = {"quick": {"cvc5": False, "query_timeout_ms": 60000}, "thorough": {"cvc5": True, "query_timeout_ms": 300000}}
T = {"quick": 120, "thorough": 900}
OBLIGATIONS = [
    pyob("canonical", "canonical", bounds=BQ, cases=FAM, timeout=T,
         desc="for every cap class: any string accepted by init_from_string (live regex, method actually called) re-serialises through the "
              "live to_string format to exactly itself; MDMF kinds: to itself or itself minus ':'+extension. Witness classes: "
              "trailing-newline, leading-zero-number, other",
         outside="strings carrying the ro./imm. prefixes (C16)"),
    pyob("print_roundtrip", "print_roundtrip", bounds=BQ, cases=FAM, timeout=T,
         desc="for every cap class: every string to_string can print (format string + canonical base32 of the specified field lengths + "
              "decimal naturals) is accepted by the class regex, reaches that class through the from_string startswith chain, and "
              "re-serialises to itself (equal capability of the same kind)"),
    pyob("dispatch", "dispatch", bounds={"quick": dict(BQ["quick"], pairwise=True), "thorough": dict(BQ["thorough"], pairwise=True)}, timeout=T,
         desc="every string in the grammar of a class is routed to that class by from_string (first matching startswith entry); "
              "the 18 grammars are pairwise disjoint; everything else ends in UnknownURI(u[, error]) (AST shape checked)",
         outside="contexts with prefixes / deep_immutable (C16)"),
    pyob("base32_tables", "base32_tables", bounds=BQ, timeout=T,
         desc="base32 sub-languages of the live cap regexes == canonical encodings of 16/32/any bytes (both inclusions); they satisfy "
              "a2b's precondition (live s8 table); 'canonical' == spare low bits of the last quintet are zero (bit-vector query)"),
    pyob("parse_total", "parse_total", bounds=BQ, cases=FAM, timeout=T,
         desc="strings accepted by a class regex never make uri.from_string raise: an integer field longer than int()'s digit limit "
              "(sys.get_int_max_str_digits) either cannot occur (length query on the live group regex) or its ValueError is caught by "
              "from_string's handler (exception classes read from the AST; the over-long witness is replayed on the real function); "
              "a2b's precondition is covered by base32_tables. Witness class: int-digits-limit"),
    pyob("prefix_single", "prefix_single", bounds=BQ, timeout=T,
         desc="every input uri.from_string turns into a known kind (either value of deep_immutable) is that capability's own string with AT MOST "
              "ONE alleged prefix (ro. or imm.), and the restriction the prefix / deep_immutable alleges is in force. How many prefix tokens "
              "from_string strips and which flags it then applies is LEARNED from the real function for every token sequence up to length 3 "
              "(regex subject observed through a wrapped pattern), so the check does not depend on how the stripping is written; the inputs "
              "are then all strings of the live grammars (z3)",
         outside="token sequences longer than 3 are assumed to behave like their first 3 tokens"),
]
