from vlib.spec import chx

EXPLANATION = ("CrossHair symbolic execution (z3) of the real validation gates of the mutable servermap updater and of Retrieve, with ideal hashes (injective over "
               "integer ids), an ideal signature oracle (symbolic verification outcome) and adversarial symbolic keys, hashes, blocks and salts.")
ASSUMPTIONS = [
    "ideal crypto: fingerprint/writekey/block hashes injective on symbolic content ids; pair_hash as in C35; RSA verification outcome is a free Boolean per call; "
    "AES decryption of the adversary's encrypted private key yields an arbitrary symbolic plaintext",
    "share_hash_tree pre-state in Retrieve: root = root_hash of the signature-validated verinfo, plus (optionally) already validated leaves (C35 family); "
    "the per-share block hash tree is empty, genuine (earlier segment), or an arbitrary SELF-CONSISTENT tree / arbitrary lone root (left over from an earlier failed validation: it is only ever filled by the all-or-nothing set_hashes)",
    "layout parsing of adversarial mutable shares (mutable/layout.py readers) is not encoded: the gates receive what the reader returns as symbolic values",
    "for SDMF the salt (IV) is not covered by the block hash; Retrieve takes it from the reader's parsed header and never compares it with the verinfo "
    "(Retrieve._try_to_validate_prefix is never called): integrity of the IV rests on reading through the proxy whose prefix the servermap update signature-checked "
    "(obligation validated_readers); servermap invariant assumed there: every share recorded by ServermapUpdater has its proxy cached (set in _got_results before the "
    "share is added) -- a servermap whose shares were added by Publish has no such proxies and is outside",
    "availability ('k intact shares => success') is not encoded",
]
T = {"quick": 240, "thorough": 1500}


def _vb(ns, m, bs, sh, mdmf, x0):
    return {"nseg": ns, "m": m, "bstate": bs, "shnum": sh, "mdmf": mdmf, "x0": x0,
            "_label": "nseg%d_m%d_bht%d_sh%d_%s_%s" % (ns, m, bs, sh, {True: "mdmf", False: "sdmf", None: "anyfmt"}[mdmf],
                                                       {True: "leavesheld", False: "rootonly", None: "anysht"}[x0])}


OBLIGATIONS = [
    chx("pubkey_fingerprint", "C10_h", "h_pubkey", timeout=T,
        desc="ServermapUpdater._try_to_set_pubkey: a key is installed only if its fingerprint hash equals the cap's and it is the deserialisation of exactly that string; "
             "otherwise CorruptShareError and the node keeps no key; an already validated key is never replaced"),
    chx("signature_gate", "C10_h", "h_signature", timeout=T,
        desc="ServermapUpdater._got_signature_one_share: a version enters _valid_versions / the servermap only if rsa.verify_signature(node pubkey, the share's signature, "
             "the share's signed prefix) succeeded now or that exact verinfo (incl. unsigned offsets) was validated before; validity of another version does not transfer; "
             "failure => CorruptShareError and nothing recorded; shares marked bad are not re-added; stopped updater touches nothing"),
    chx("privkey_servermap", "C10_h", "h_privkey_sm", timeout=T,
        desc="ServermapUpdater._try_to_validate_privkey: private key installed only if ssk_writekey_hash(decrypt(writekey, enc_privkey)) == writekey; else node untouched"),
    chx("privkey_retrieve", "C10_h", "h_privkey_rt", timeout=T,
        desc="Retrieve._try_to_validate_privkey (async): same rule; in verify mode a bad key marks the share bad with the version's prefix"),
    chx("validate_block", "C10_h", "h_validate_block", timeout=T, bounds={"quick": {"vtier": 1}, "thorough": {"vtier": 2}},
        cases={"quick": [_vb(*t) for t in ((1, 2, 0, 0, True, False), (2, 2, 0, 1, True, False), (2, 2, 0, 0, False, False), (2, 0, 1, 0, True, True), (2, 0, 0, 1, False, True), (1, 0, 0, 0, True, True), (2, 0, 2, 0, True, True),
                                           (2, 1, 0, 1, False, True), (2, 2, 2, 1, True, False), (2, 2, 3, 0, False, True), (2, 2, 1, 0, True, True))],
               "thorough": [_vb(ns, m, bs, sh, None, None) for ns in (1, 2) for m in (0, 1) for bs in (0, 1, 2, 3) for sh in (0, 1)] +
                           [_vb(ns, 2, bs, sh, md, x0) for ns in (1, 2) for bs in (0, 1, 2, 3) for sh in (0, 1)
                            for md in (True, False) for x0 in (True, False)]},
        desc="Retrieve._validate_block (SDMF and MDMF) with adversarial block, salt, block-hash list and share-hash chain on real IncompleteHashTrees: returns {shnum:(block,salt)} "
             "only if the block (and, for MDMF, the salt) is the published one, i.e. its hash chains through the block hash tree and the share hash tree to the signed root; "
             "otherwise CorruptShareError with the share hash tree unchanged",
        outside="SDMF salt (see ASSUMPTIONS); N = 2 shares, <= 2 segments"),
    chx("validate_block_genuine", "C10_h", "h_validate_genuine", timeout=T,
        cases=[{"nseg": 1, "_label": "nseg1"}, {"nseg": 2, "_label": "nseg2"}],
        desc="Retrieve._validate_block accepts a genuine share (SDMF/MDMF, either share number, any segment, block hash tree fresh or already filled, "
             "share hash leaves already known or not, chain with or without the share's own leaf) and leaves nothing needed"),
    chx("validated_readers", "C10_h", "h_setup_download", timeout=T,
        desc="Retrieve._setup_download with a real ServerMap (2 servers x 3 shares of the version, symbolic holdings, every recorded share has its signature-checked proxy "
             "cached, symbolic _data_is_everything flags, optionally another version on a third server): each reader is the cached VALIDATED proxy of a server holding "
             "that share (never a freshly built proxy whose header/IV nobody compares with the verinfo), bound to that server; readers == share numbers of this version; "
             ">= k or NotEnoughShares; hash trees fresh, share hash tree seeded with the signed root"),
    chx("decode_salt", "C10_h", "h_decode_salt", timeout=T,
        desc="Retrieve._decode_blocks: the salt handed on to decryption is the salt object of one of the validated {shnum:(block,salt)} results, exactly k blocks are "
             "decoded, each paired with its own share id, right decoder, segment trimmed"),
]
