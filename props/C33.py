from vlib.spec import chx

EXPLANATION = ("CrossHair symbolic execution (z3) of the real create_grid_manager_verifier / validate_grid_manager_certificate under ideal "
               "signatures: symbolic validity bit per (certificate, key), symbolic subject-match bit and integer expiry per certificate, symbolic clock.")
ASSUMPTIONS = [
    "Ed25519 is ideal: verification outcome is an arbitrary Boolean per (certificate, key); tampering = the bit is False",
    "JSON parsing and ISO-8601 date parsing are not executed: the certificate body is a carrier of (subject matches this server, integer expiry); time stamps are totally ordered integers",
    "expiry rule taken from the property text and the docstring of create_grid_manager_verifier ('has not at this moment expired'): permitted iff expires > now; at now == expires the certificate is expired",
]
OBLIGATIONS = [
    chx("verifier", "C33_h", "h_verifier",
        bounds={"quick": {"nk_max": 2, "nc_max": 2}, "thorough": {"nk_max": 2, "nc_max": 3}},
        cases=[{"nk": 0, "_label": "nokeys"}, {"nk": 1, "_label": "1key"}, {"nk": 2, "_label": "2keys"}],
        timeout={"quick": 120, "thorough": 1200},
        desc="create_grid_manager_verifier + validate_grid_manager_certificate: verifier() at two arbitrary times == (no keys) or exists certificate, key: "
             "signature valid and subject == this server and expires > now; every (cert, key) pair checked; a body is only parsed after its signature verified; "
             "bad_cert reported once per failed check",
        outside="Ed25519, JSON and ISO date parsing; naive-vs-aware datetime comparison"),
    chx("expiry_boundary", "C33_h", "h_expiry_boundary", timeout={"quick": 120, "thorough": 600},
        desc="create_grid_manager_verifier with the real JSON body and the real datetime.fromisoformat on a certificate expiring at a fixed instant "
             "(written with +00:00, +05:30 or -08:00 offsets), evaluated at that instant + d microseconds (symbolic d): permitted iff signature valid and d < 0 "
             "(the moment of expiry itself is refused)",
        outside="only ISO strings as written by datetime.isoformat() of an aware datetime; naive expiry strings raise TypeError in the comparison"),
    chx("announced_certs", "C33_h", "h_announced_certs",
        cases={"quick": [{"kinds": [0, 1, 2], "_label": "signature"}, {"kinds": [0, 3, 4, 5], "_label": "shape"}],
               "thorough": [{"_label": "all"}]},
        timeout={"quick": 120, "thorough": 900},
        desc="real StorageFarmBroker._make_storage_server with one grid-manager key configured and two announced certificate entries, each well-formed "
             "(symbolic signature-valid / subject / expiry) or malformed (no signature, non-base32 signature, no certificate, not a dict, non-string "
             "signature) -> SignedCertificate.load -> create_grid_manager_verifier -> NativeStorageServer.upload_permitted: permitted iff a well-formed "
             "entry is valid for this server and unexpired; a malformed entry may make the announcement fail but never grants permission",
        outside="Tub creation; HTTP storage servers (same verifier hand-over); twisted plugin discovery"),
    chx("validate_cert", "C33_h", "h_validate_cert", timeout={"quick": 30, "thorough": 30},
        desc="validate_grid_manager_certificate: None (and nothing parsed) iff the signature does not verify under the given key; else the parsed body"),
]
