from vlib.spec import chx

EXPLANATION = ("CrossHair (z3) exploration of the real directory unpack/pack code, the real NodeMaker/uri.from_string/UnknownNode and "
               "the real child-node classes over a matrix of concrete capabilities selected by symbolic selectors (path-per-input): "
               "every selector combination within the bounds is explored and the assertion decided on each path.")
ASSUMPTIONS = [
    "capabilities are concrete strings built by the real uri classes (15 kinds: CHK, LIT, SSK rw/ro, MDMF rw/ro, DIR2 rw/ro, DIR2-MDMF rw/ro, "
    "DIR2-CHK, DIR2-LIT, unknown rw+ro / ro. / imm.); other key material is not quantified over",
    "directories are written by the real packing code from real nodes (an adversarial writer who stores a known, unprefixed write cap in the "
    "ro_uri slot is outside the claim: create_from_cap(None, b'URI:SSK:...') yields a writeable node, the authority was published in clear by the writer)",
    "confidentiality of the write-cap field rests on AES-CTR/SHA-256 (not modelled): checked is that the field is the only place the write cap goes, "
    "that it is produced with the directory's writekey, and that the cleartext does not contain it",
    "nesting is covered one level down (child directory read through a read-only parent lists its own children read-only) plus the per-node "
    "invariant 'a node without write authority unpacks with writeable=False'; deeper nesting follows inductively, it is not enumerated",
]
T = {"quick": 150, "thorough": 900}
N = 15


def _c(label, **kw):
    kw["_label"] = label
    return kw


OBLIGATIONS = [
    chx("unpack_calls", "C18_h", "h_unpack_calls", timeout=T, bounds={"quick": {"n_max": 2}, "thorough": {"n_max": 2}},
        desc="DirectoryNode._unpack_contents on a fake node with recorder nodemaker/_decrypt_rwcapdata, <= 2 entries, symbolic read-only/mutable, "
             "per-entry empty/non-empty rwcapdata and ro_uri, trailing spaces: read-only => _decrypt_rwcapdata never called and every create_from_cap gets "
             "rw_uri=None; writeable => called with exactly each entry's field, result right-stripped/empty->None; immutable directory with rwcapdata => ValueError; "
             "deep_immutable == not mutable"),
    chx("pack_writecap", "C18_h", "h_pack_writecap", timeout=T,
        cases={"quick": [_c("a", sel=[0, 1, 2, 4]), _c("b", sel=[0, 3, 5, 6, 7])],
               "thorough": [_c("all", sel=list(range(8)))]},
        desc="_pack_normalized_children/_encrypt_rw_uri on 1-2 token children: ro_uri slot == child's read cap (prefix rule), writekey None => write-cap field empty "
             "and no encryption call; writekey given => field = salt+ciphertext+mac decrypting (only) under H(salt, writekey) to the child's write cap; no write cap "
             "in the cleartext; immutable directory refuses write-capable/mutable children"),
    chx("ro_transitive", "C18_h", "h_ro_transitive", timeout=T,
        cases={"quick": [_c("g%d" % i, sel=list(range(i, N, 4))) for i in range(4)],
               "thorough": [_c("s%d" % i, sel=[i]) for i in range(N)]},
        desc="real chain: child node (every cap kind) -> pack_children under the parent's writekey (real AES/SHA) -> _unpack_contents through the parent's read cap "
             "(SDMF and MDMF parent) -> child has no write authority (no write uri, read-only or opaque, no writekey), same read cap; child directories list their "
             "children read-only as well; through the parent's write cap the child's write cap is recovered exactly (also with one NodeMaker whose node cache was warmed by a listing through the write cap first); cleartext does not contain the write cap"),
    chx("nodemaker_ro", "C18_h", "h_nodemaker_ro", timeout=T,
        cases={"quick": [_c("g%d" % i, sel=list(range(i, N, 3))) for i in range(3)],
               "thorough": [_c("s%d" % i, sel=[i]) for i in range(N)]},
        desc="NodeMaker.create_from_cap(None, cap, deep_immutable) for every read cap (bare, 'ro.' and 'imm.' prefixed) and every write cap under a 'ro.'/'imm.' prefix: "
             "no write authority; immutable context => not mutable; known write cap with read-only prefix => opaque error node"),
    chx("create_readonly_node", "C18_h", "h_create_readonly_node", timeout=T,
        desc="DirectoryNode._create_readonly_node (the diminishing step behind 'no-write' links) on a real node of every cap kind: the result has no write authority and the same read cap; "
             "already read-only known nodes are returned unchanged"),
    chx("unknown_caps", "C18_h", "h_unknown_caps", timeout=T,
        desc="unknown-format caps whose text contains 'ro.' / 'imm.' / 'URI:' after position 0, given in the write slot only / read slot only / both, mutable and immutable context "
             "(real NodeMaker, UnknownNode, pack_children, _unpack_contents): a bare cap in the write slot is refused (MustNotBeUnknownRWError) and cannot be packed; a read-slot cap is "
             "marked 'ro.'/'imm.' at position 0; a (rw, ro) pair keeps rw only for the write-cap holder; the plaintext never contains the write cap; a read-cap holder gets a marked read cap"),
    chx("empty_dirs_isolated", "C18_h", "h_empty_dirs_isolated", timeout=T,
        cases={"quick": [_c("a", sel=[0, 1, 2, 4])], "thorough": [_c("all", sel=list(range(8)))]},
        desc="three initially empty directories in one process (real _unpack_contents / Adder.modify / _pack_contents): after a child is linked into A, listing empty B (read-only or not) "
             "still yields nothing, the first add into C stores only C's child and none of A's write caps, and A keeps exactly its own child"),
]
