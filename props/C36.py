from vlib.spec import chx, pyob

EXPLANATION = ("CrossHair symbolic execution (z3) of the real CRSEncoder/CRSDecoder parameter arithmetic and argument checks (codec.py) with zfec "
               "replaced by recorders. The Reed-Solomon algebra itself (any k of N blocks reconstruct) is NOT decided: zfec is a compiled extension.")
ASSUMPTIONS = [
    "zfec (compiled GF(2^8) Reed-Solomon) is not executed: 'any k distinct blocks decode back to the segment' is NOT decided by any obligation here; "
    "only the sizes and argument checks on tahoe's side of the zfec interface are",
    "trim obligations: ideal erasure code = zfec.Decoder.decode returns the k primary blocks (the padded segment cut into k equal pieces); what is decided is "
    "that the immutable and mutable downloaders then deliver exactly the segment's real bytes",
    "zfec's own contract is assumed: encode returns blocks of the same length as the k input pieces; decode returns k pieces of that length",
    "codec.decode only checks the COUNT of blocks and ids (== k each); distinctness/range of the ids and the number of pieces given to encode are left to zfec",
    "defer_to_thread runs synchronously",
]
T = {"quick": 120, "thorough": 900}
OBLIGATIONS = [
    chx("sizes", "C36_h", "h_sizes", timeout=T,
        cases={"quick": [{"k": i, "_label": "k%d" % i} for i in (1, 2, 3, 5, 16)],
               "thorough": [{"k": i, "_label": "k%d" % i} for i in (1, 2, 3, 4, 5, 6, 7, 8, 10, 16, 32, 100, 255, 256)]},
        desc="CRSEncoder.set_params / CRSDecoder.set_params, unbounded data_size, k per case, N <= 256: zfec objects built with (k, N); encoder block size == decoder "
             "share size == ceil(data_size/k); for data sizes that are multiples of k (all callers: segment size and padded tail) k blocks tile the data exactly; "
             "last_share_padding in [0, k)",
        outside="the Reed-Solomon reconstruction itself"),
    chx("immutable_trim", "C36_h", "h_immutable_trim", timeout=T,
        cases={"quick": [{"k": i, "_label": "k%d" % i} for i in (1, 3, 4)], "thorough": [{"k": i, "_label": "k%d" % i} for i in (1, 2, 3, 4, 5, 7)]},
        desc="DownloadNode._decode_blocks (+_calculate_sizes, CRSDecoder.set_params/decode) under an ideal erasure code returning the k primary blocks: "
             "the delivered segment has exactly the segment's real length (full segment, or size - segnum*segsize for the tail, also when the padding is "
             "longer than one block) and byte p is byte p of the decoded data; unbounded size/segsize, k per case"),
    chx("mutable_trim", "C36_h", "h_mutable_trim", timeout=T,
        cases={"quick": [{"k": i, "_label": "k%d" % i} for i in (1, 3, 4)], "thorough": [{"k": i, "_label": "k%d" % i} for i in (1, 2, 3, 4, 5, 7)]},
        desc="Retrieve._setup_encoding_parameters + _decode_blocks under the same ideal code, for an arbitrary symbolic read range [offset, offset+length) and any "
             "segment of that read (first/last segment of the read are the ones holding its first/last byte): every non-tail segment is delivered at full segment size and the "
             "tail at datalength %% segsize (or a full segment), also when the padded tail equals the segment size and both decoders are the same object"),
    chx("send_pairing", "C36_h", "h_send_pairing", timeout=T, bounds={"quick": {"n": 4}, "thorough": {"n": 6}},
        desc="Encoder._send_segment/send_block with N tagged codec blocks (share ids listed in any rotation) and an arbitrary subset of shares still placed: "
             "the landlord of share s receives exactly block s of this segment (by share number, not by position), non-placed shares are skipped, and the "
             "block hash recorded for (s, segment) is the hash of that same block (path-per-input over the 2^N landlord sets)"),
    chx("encode_checks", "C36_h", "h_encode_checks", timeout=T, bounds={"quick": {"n_max": 3}, "thorough": {"n_max": 6}},
        desc="CRSEncoder.encode: every piece must have exactly the block size (one piece off by any delta => AssertionError, zfec not called); more desired ids than N refused; "
             "default ids are 0..N-1; zfec.encode called once with the pieces and ids; (shares, ids) returned"),
    chx("decode_checks", "C36_h", "h_decode_checks", timeout=T, bounds={"quick": {"n_max": 4}, "thorough": {"n_max": 8}},
        desc="CRSDecoder.decode: exactly k blocks and exactly k ids or AssertionError without calling zfec; blocks and integer ids passed through in order; result returned"),
    chx("serialized_params", "C36_h", "h_serialized_params", timeout=T, bounds={"quick": {"size_max": 40}, "thorough": {"size_max": 250}},
        desc="get_serialized_params / parse_params round trip (path-per-input, small values)"),
]
