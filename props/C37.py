from vlib.spec import chx

EXPLANATION = ("CrossHair symbolic execution (z3) of the real Spans/DataSpans methods: one operation from an arbitrary "
               "valid state with a universally quantified probe position; integers unbounded; DataSpans runs on "
               "provenance buffers (ProvBuf) instead of byte contents.")
ASSUMPTIONS = [
    "pre-state = any span list satisfying the class invariant (sorted, disjoint, non-adjacent, lengths>=1) with at most 3 (Spans) / 2 (DataSpans) spans",
    "byte contents abstracted to provenance (tag, source offset); ProvBuf slicing is differential-tested against real bytes",
    "histories are covered inductively: each operation maps a state satisfying the model relation to one that does",
]
T = {"quick": 90, "thorough": 900}
OBLIGATIONS = [
    chx("spans_add", "C37_h", "h_spans_add", bounds={"quick": {"nspans": 2}, "thorough": {"nspans": 3}}, timeout=T,
        desc="Spans.add: membership at probe p afterwards == before or in [start,start+length); invariant kept"),
    chx("spans_remove", "C37_h", "h_spans_remove", bounds={"quick": {"nspans": 2}, "thorough": {"nspans": 3}}, timeout=T,
        desc="Spans.remove: membership at p == before and not in removed range; invariant kept"),
    chx("spans_len_contains", "C37_h", "h_spans_len_contains", bounds={"quick": {"nspans": 3}}, timeout=T,
        desc="Spans.len == cardinality, bool, (start,length) in spans <=> whole range held"),
    chx("spans_setops", "C37_h", "h_spans_setops", timeout={"quick": 90, "thorough": 1200},
        bounds={"quick": {"na": 1, "nb": 2}, "thorough": {"na": 2, "nb": 2}},
        cases={"quick": [{"op": o, "na": a, "nb": b, "_label": "%s,%dx%d" % (l, a, b)}
                         for (o, l) in ((0, "and"), (1, "sub"), (2, "add")) for (a, b) in ((1, 2), (2, 1))],
               "thorough": [{"op": 0, "_label": "and"}, {"op": 1, "_label": "sub"}, {"op": 2, "_label": "add"}]},
        desc="Spans & - + on two arbitrary sets (quick: <=1 x <=2 and <=2 x <=1 spans; thorough <=2 x <=2): "
             "pointwise and/andnot/or at probe p; operands unchanged"),
    chx("dataspans_add", "C37_h", "h_dataspans_add", timeout=T,
        desc="DataSpans.add: byte at p is new data if in write else unchanged (later writes win); merged invariant kept"),
    chx("dataspans_remove", "C37_h", "h_dataspans_remove", timeout=T,
        desc="DataSpans.remove: byte at p dropped iff in range"),
    chx("dataspans_get_pop", "C37_h", "h_dataspans_get_pop", timeout=T,
        desc="DataSpans.get/pop: data iff whole range held, right provenance; pop removes exactly the range; get_spans agrees"),
]
