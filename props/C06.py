from vlib.spec import chx

EXPLANATION = ("CrossHair symbolic execution (z3) over symbolic scenario bits (server/share relations, failing writer, per-server behaviour, responses); every "
               "path realises one scenario (path-per-input, DESIGN 1.4) and runs the real Encoder._remove_shareholder / Tahoe2ServerSelector code on it; "
               "happiness values in the oracles are decided by separate z3 matching queries.")
ASSUMPTIONS = [
    "path-per-input: 'Confirmed over all paths' is bounded-exhaustive over the stated numbers of servers/shares/behaviours",
    "server ids are distinct ints; log/exception-message formatting of ids (pretty_print_shnum_to_servers) is stubbed",
    "Encoder state invariant: a share's bucket writer lives on a server that did not already hold that share; servermap = already-present holders + the writer's server",
    "min_happiness is exercised at the decisive thresholds (0, the remaining matching size m, m+1, and a value above every possible size) instead of as a free integer",
    "get_shareholders: in-memory storage servers with the allocate_buckets/get_buckets/abort semantics of storage/server.py; a server is in one mode for the whole "
    "selection (ok / full / allocate fails / get_buckets fails / advertises too small a maximum share size); all remote calls are already-fired Deferreds, no "
    "timeouts, the order in which servers are asked is the set order fixed by the harness (response orderings are outside the claim)",
    "the push phase is represented by Encoder._remove_shareholder only: 'every share reported as placed is complete and readable' is the storage-side property C22",
    "after every input bit is fixed by a solver-decided fork the real code runs on the realised scenario with opcode tracing off (identical result on concrete data)",
]


def _split(nbits):
    out = []
    for i in range(2 ** nbits):
        b = [(i >> j) & 1 for j in range(nbits)]
        out.append({"fix": b, "_label": "".join(map(str, b))})
    return out


OBLIGATIONS = [
    chx("remove_shareholder", "C06_h", "h_remove",
        bounds={"quick": {"P": 2, "S": 3}, "thorough": {"P": 3, "S": 3}},
        cases={"quick": _split(1), "thorough": _split(4)},
        timeout={"quick": 150, "thorough": 1500},
        desc="Encoder._remove_shareholder on every encoder state within the bound (already-present relation, one optional bucket writer per share, which share fails): "
             "raises UploadUnhappinessError iff the z3-decided maximum matching of the reduced servermap is < min_happiness; the failed writer is aborted exactly once and "
             "removed from landlords, no other writer is touched; servermap becomes exactly the reduced relation (empty entries dropped), also when it raises",
        outside="what the callers do with the exception (DeferredList plumbing in _gather_responses); failures outside _remove_shareholder"),
    chx("buckets_allocated", "C06_h", "h_buckets_allocated",
        bounds={"quick": {"N": 2}, "thorough": {"N": 3}}, timeout={"quick": 150, "thorough": 1500},
        cases={"quick": [{"pk": i, "_label": "peer%d" % i} for i in range(3)], "thorough": [{"pk": i, "_label": "peer%d" % i} for i in range(3)]},
        desc="Tahoe2ServerSelector._buckets_allocated, one response from an arbitrary selector state: homeless' = (homeless - alreadygot) + (asked - alreadygot - allocated); "
             "alreadygot recorded in preexisting_shares; tracker in use_trackers iff it holds buckets; Failure => asked shares homeless again, server no longer writable, "
             "failure propagated; return value == progress; query counters keep bad == full + error and count the response once"),
    chx("existing_responses", "C06_h", "h_existing", bounds={"quick": {"N": 2}, "thorough": {"N": 3}}, timeout={"quick": 90, "thorough": 600},
        desc="_handle_existing_response / _handle_existing_write_response + PeerSelector.add_peer_with_share/mark_bad_peer/get_sharemap_of_preexisting_shares: the reported "
             "buckets become exactly the server's existing shares; a failed query removes the server from the placement"),
    chx("allocation_for", "C06_h", "h_allocation_for", bounds={"quick": {"N": 3}}, timeout={"quick": 90, "thorough": 300},
        desc="_allocation_for: asks a tracker for exactly the shares the placement maps to its server and takes them off the homeless list"),
    chx("reported_placements", "C06_h", "h_done", bounds={"quick": {"NT": 3}, "thorough": {"NT": 3}}, timeout={"quick": 120, "thorough": 600},
        desc="CHKUploader.set_shareholders + _encrypted_done with 3 shares, each allocated on one of up to 3 trackers or nowhere, any subset of the allocated shares surviving "
             "the push (Encoder.get_shares_placed(); a failed writer is tolerated while the upload stays happy), any shares also pre-existing elsewhere: the reported "
             "UploadResults sharemap contains exactly the (share, server) pairs whose writer completed - never a share whose writer failed - the servermap is its inverse, "
             "pushed_shares == number of completed shares, preexisting_shares == number of pre-existing share numbers",
        outside="that a completed writer's share is byte-complete and readable on the server (C22); Helper-assisted uploads"),
    chx("get_shareholders", "C06_h", "h_shareholders",
        bounds={"quick": {}, "thorough": {}},
        cases={"quick": [{"NSRV": 2, "N": 2, "_label": "2srv2sh"}, {"NSRV": 3, "N": 2, "m0": 2, "h0": 0, "_label": "3srv2sh.allocfail"}],
               "thorough": [{"NSRV": 3, "N": 2, "m0": a, "_label": "3srv2sh.m%d" % a} for a in range(5)]
                           + [{"NSRV": 2, "N": 3, "m0": a, "_label": "2srv3sh.m%d" % a} for a in range(5)]},
        timeout={"quick": 150, "thorough": 1500},
        desc="whole Tahoe2ServerSelector.get_shareholders (PeerSelector, share_placement, ServerTracker, _create_trackers, _failed, servers_of_happiness) against in-memory "
             "servers, every server in each of 5 modes with every subset of shares already present, every threshold: it always terminates; success => every reported "
             "(share, server) pair is true (share present, or an open bucket on that server), no allocated bucket is left unreported, and the z3-decided maximum matching of the "
             "reported layout is >= the threshold, and when the real CHKUploader.set_shareholders accepts the result it gives the encoder writers with open buckets and "
             "a servermap that contains them and meets the threshold (if it refuses with AssertionError - two writers for one share - that counts as a failed upload: nothing may "
             "have become visible; the scenario is recorded in the evidence notes); failure => UploadUnhappinessError and every allocated bucket was aborted. Quick: 2 servers x 2 shares in all modes, "
             "plus 3 servers x 2 shares with the first server failing its allocate call",
        outside="response orderings, timeouts, servers that change behaviour between rounds, more than 3 servers x 2 shares / 2 servers x 3 shares; C06 does not promise success "
                "whenever a happy layout exists: after a failed allocate call a later placement round can hand an already-allocated share to a second server, the uploader then dies with "
                "AssertionError in set_shareholders and its allocated buckets are not aborted (robustness defect, observed, not claimed against)"),
]
