from vlib.spec import chx

EXPLANATION = ("CrossHair symbolic execution (z3) of the real StorageServer.slot_testv_and_readv_and_writev and helpers: (a) with "
               "recording share objects whose answers are symbolic flags, asserting the order/atomicity of effects on the call log; "
               "(b) with real MutableShareFile containers on the in-memory file model, asserting all-or-nothing on the bytes.")
ASSUMPTIONS = [
    "`order2`/`order3`: the names MutableShareFile and create_mutable_sharefile in storage/server.py are replaced by recording share "
    "objects (check_write_enabler / check_testv answers are free booleans per share); the server code itself is the real one",
    "per request: each named share has one test vector, one write vector, new_length None or 0; read vector fixed",
    "`atomic_real`: share 0 has symbolic length, test vector (0, tl) against a symbolic specimen, appends; share 1 concrete "
    "(existing or to be created); arbitrary offsets on a single container are C23",
    "one request at a time (the server handles a request synchronously in the reactor thread); crashes are C29",
    "timing_safe_compare runs untraced on concrete 32-byte tokens",
]
T = {"quick": 120, "thorough": 900}
OBLIGATIONS = [
    chx("order2", "C24_h", "h_order2", timeout=T,
        desc="2 share numbers, each: exists?, made with this write enabler?, test vector passes?, named by the request?, "
             "new_length==0?, (if missing) test compares with empty?; plus renew_leases, a non-numeric directory entry, clock, space. "
             "Any existing share rejecting the enabler => BadWriteEnablerError before any read/test/write; result flag == conjunction "
             "of the named shares' tests (missing share == empty); reads == data of every existing share before the request, all "
             "reads/tests precede the first modification; a failing test => no writev/unlink/create/lease at all; all pass => every "
             "named share (created if missing,) written exactly once with the request's vectors, new_length 0 => unlink/never create, "
             "unnamed shares untouched, leases renewed (request's secret, now+31d) on exactly the written shares iff renew_leases"),
    chx("order1", "C24_h", "h_order1", timeout=T,
        desc="one share number, same assertions, additionally with an empty read vector and with empty write vectors (a named "
             "missing share is still created; a failing test still blocks everything)"),
    chx("order3", "C24_h", "h_order3", timeout=T, tiers=("thorough",), desc="same with 3 share numbers"),
    chx("enabler", "C24_h", "h_enabler", timeout=T,
        desc="MutableShareFile.check_write_enabler/_read_write_enabler_and_nodeid on v1 and v2 containers: BadWriteEnablerError iff the "
             "presented enabler differs from the stored one; no write"),
    chx("atomic_real", "C24_h", "h_atomic_real", bounds={"quick": {"len_max": 2**32}, "thorough": {"len_max": 2**48}}, timeout=T,
        cases=[{"have1": True, "good_we": True, "_label": "both-exist"}, {"have1": False, "good_we": True, "_label": "one-new"},
               {"have1": True, "good_we": False, "_label": "bad-enabler"}],
        desc="real containers: wrong enabler => error and no low-level write; test fails => flag False, no low-level write/create; "
             "test passes => both named shares hold their new bytes and lengths (missing one created); the read result is the "
             "pre-request first byte"),
]
