from vlib.spec import chx

EXPLANATION = ("CrossHair symbolic execution (z3) of the real SDMF/MDMF slot write proxies and of Publish._got_write_answer with symbolic "
               "sequence numbers (full 64-bit range, unpinned), root-hash/salt tokens, proxy usage mode and server answer.")
ASSUMPTIONS = [
    "struct in mutable.layout is FakeStruct (field lists, real sizes and range checks): two checkstrings are equal iff their fields are equal",
    "root hashes / salts are drawn from three distinct 32/16-byte tokens",
    "the server applies a write only if every test vector matches (server side: C24, slot_testv_and_readv_and_writev) - not re-checked here",
]
T = {"quick": 120, "thorough": 900}
OBLIGATIONS = [
    chx("sdmf_test_vector", "C12_h", "h_sdmf_testv", timeout=T,
        desc="SDMFSlotWriteProxy: set_checkstring(seqnum, root, salt) [publisher form] / set_checkstring(literal) [bad-share form] / none; "
             "after all put_* calls finish_publishing sends exactly one slot_testv_and_readv_and_writev for its share whose test vector is "
             "(0, len(checkstring), checkstring the survey saw) - or (0, 1, b'') 'share must not exist' for a new share -, whose single data "
             "vector at offset 0 starts with the NEW (seqnum, root hash), read vector = checkstring range; get_checkstring returns the survey's",
        outside="server side test-vector evaluation (C24); share body layout (C38)"),
    chx("mdmf_test_vector", "C12_h", "h_mdmf_testv", timeout=T,
        desc="MDMFSlotWriteProxy: set_checkstring(seqnum, root) / literal / b'' / none; finish_publishing sends one write guarded by the "
             "survey's (1, seqnum, root hash) checkstring or the empty-share test, which installs the new (1, new seqnum, new root hash) at "
             "offset 0; after an accepted write the next _write tests for our own new checkstring, after a refused one the old expectation stands",
        outside="server side (C24)"),
    chx("surprise_is_ucwe", "C12_h", "h_surprise", timeout=T, bounds={"quick": {"rmax": 1}, "thorough": {"rmax": 2}},
        cases=[{"mdmf": m, "asked": a, "_label": "%s-%s" % ("mdmf" if m else "sdmf", "asked" if a else "notasked")}
               for m in (False, True) for a in (True, False)],
        desc="Publish._got_write_answer called for TWO answers in either order (the one under study and a plain one, each accepted or refused) + "
             "_push/_failure/_done, with symbolic checkstring fields (SDMF and MDMF); the surprise flag is sticky: a refused write, or a share "
             "on that server that we are not writing there and whose (seqnum, root hash, salt) differs from ours, ends the publish with "
             "UncoordinatedWriteError; otherwise the accepted write is recorded as placed and the publish succeeds",
        outside="the enumeration of survey/write interleavings of 2-3 writers and the (writers+1)*k <= N recoverability bound need whole-grid "
                "runs and are NOT decided; retry with backoff in MutableFileVersion._modify_and_retry"),
]
