from vlib.spec import chx

EXPLANATION = ("CrossHair symbolic execution (z3) of the real helper protocol code on both sides (offloaded.Helper, CHKCheckerAndUEBFetcher, CHKUploadHelper, "
               "CHKCiphertextFetcher, AskUntilSuccessMixin, LocalCiphertextReader; upload.Uploader.upload, AssistedUploader, RemoteEncryptedUploadable, "
               "EncryptAnUploadable, CHKUploader.start) over symbolic file size, chunk sizes, amount of ciphertext already on the helper's disk, probe position, "
               "interruption point, message schedule and grid contents; ciphertext is abstracted to provenance, the erasure coder to a recorder of what it is given.")
ASSUMPTIONS = [
    "PARTIAL CLAIM. The erasure coder + share pusher (CHKUploader.start_encrypted -> encode.Encoder, C01/C06/C36) is replaced on both sides by a recorder that "
    "consumes the IEncryptedUploadable exactly through the calls the real Encoder makes (get_size, get_all_encoding_parameters, get_storage_index, "
    "read_encrypted(n, False)..., close).  'Same shares / same caps' is therefore claimed as: the helper-side encoder is given the same (size, k/happy/N/segsize, "
    "storage index, ciphertext byte stream) as the encoder of a direct upload, and the UEB-hash slot of the client's cap is the hash the helper-side encoder produced; "
    "it relies on the real Encoder being a deterministic function of that input (no clock/random input reaches the UEB: encode.py read for this) and on the "
    "helper running the same code as the client",
    "SHA-256d / AES-CTR ideal: identity cipher that records its input stream (keystream position == stream position, AES-CTR cannot seek); hashers record their "
    "input; the UEB hash is an injective function (hash-consing table, equality decided by the solver) of (storage index, size, k, happy, N, segsize, ciphertext stream)",
    "byte contents abstracted to provenance (hlib.ProvBuf, probe position p); the helper's disk is an in-memory file system (create/append/rename/unlink/stat; "
    "no partial writes inside one write() call other than through the arbitrary `have` of resume_fetch / helper_upload_caps, no disk-full, no fsync/crash-consistency model)",
    "foolscap is replaced by direct calls of remote_<name> (no schema enforcement, no serialisation); a lost connection = DeadReferenceError on every later call "
    "through that reference; messages are delivered at once, or FIFO one per step in two_clients/late_attach (no reordering between different connections "
    "beyond the arrival point of the second client)",
    "pre-states: CHK_incoming/<si> holds a PREFIX of the ciphertext of the same file (established by interrupted_state for connection loss; a different file "
    "under the same storage index needs a key collision or a lying client and is outside the property); sizes <= 2^62",
    "the client's plaintext file does not change between the attempts and regular files do not short-read (C05 covers short reads of the key derivation; "
    "EncryptAnUploadable trusts read() to return the requested amount)",
    "encoding parameters and key are handed through unchanged by the code under test: concrete distinct values (3, 7, 10, size+1) in the flow obligations, "
    "symbolic in client_cap_fields; how the key / storage index / parameters are derived is C05/C17/C01 (same EncryptAnUploadable object class on both paths); "
    "cap string formatting and parsing is C15/C38 (CHKFileVerifierURI/CHKFileURI are field recorders here)",
    "already-present check: the share header parser (layout.ReadBucketProxy) is a stand-in answering UEB bytes / LayoutInvalid / DeadReferenceError per server; "
    "'present' is the rule documented in CHKCheckerAndUEBFetcher: UEB readable from the ONE share that is tried and at least N=total_shares(UEB) distinct share "
    "numbers reported.  The helper cannot and does not compare the UEB found with anything the client knows (it is only given the storage index)",
    "log statements removed, eager '%' formatting inside assigned log calls cut, progress-ratio float arithmetic replaced by an inert stand-in, "
    "@log_call_deferred dropped from CHKUploader.start, constant clock",
]

T = {"quick": 120, "thorough": 900}
_OUT_ENC = ("zfec encoding, share hashing and share placement (stand-in records the encoder's input); real network, timers, disk failures; "
            "more chunks per file than the case list says (the loop bodies are the same for every further chunk)")


def _ir_label(j, nf, ns):
    return "%s,%d-chunk-file,%d-subchunks" % (("uninterrupted" if j < 0 else "cut-after-%d" % j), nf, ns)


def _tc_label(nf, a, lo, hi):
    return "%d-chunk-file,A-%s,B-joins-%d..%d" % (nf, ("stays" if a < 0 else "lost-after-%d" % a), lo, hi)


OBLIGATIONS = [
    chx("resume_fetch", "C44_h", "h_resume_fetch", timeout=T,
        cases={"quick": [{"nf": nf, "nskip": nk, "nsub": 2, "_label": "%d-requests,skip-%d-chunks" % (nf, nk)}
                         for nf in (0, 1, 2) for nk in (0, 1, 2) if (nf, nk) != (0, 0)],
               "thorough": [{"nf": nf, "nskip": nk, "nsub": 3, "_label": "%d-requests,skip-%d-chunks" % (nf, nk)}
                            for nf in (0, 1, 2, 3) for nk in (0, 1, 2, 3) if (nf, nk) != (0, 0)]},
        desc="CHKCiphertextFetcher (_start/_got_size/_start_reading/_loop/_fetch/_done/_done2) against the real RemoteEncryptedUploadable.remote_read_encrypted + "
             "EncryptAnUploadable of a FRESH client, from CHK_incoming holding ciphertext[0:have) for ANY have in [0,size] (symbolic size, helper chunk size, client "
             "chunk size): terminates; CHK_encoding ends up holding exactly ciphertext[0:size) (probe p), CHK_incoming gone, files closed; the requests tile "
             "[have,size) in order, each <= CHUNK_SIZE, minimal number of requests (every missing byte fetched once, nothing re-fetched); the client's cipher and "
             "plaintext hashers run over the whole file from byte 0 exactly once (skipped part hashed and passed through the cipher, not sent), so keystream "
             "position == file position; fetched-bytes accounting and resumes counter",
        outside=_OUT_ENC),
    chx("interrupted_state", "C44_h", "h_interrupted_state", timeout=T,
        cases={"quick": [{"j": j, "nf": nf, "ns": 2, "_label": "cut-after-%d,%d-chunk-file,2-subchunks" % (j, nf)}
                         for nf in (1, 2, 3) for j in range(0, nf)],
               "thorough": [{"j": j, "nf": nf, "ns": ns, "_label": "cut-after-%d,%d-chunk-file,%d-subchunks" % (j, nf, ns)}
                            for nf in (1, 2, 3, 4) for j in range(0, nf) for ns in (1, 2, 3)]},
        desc="whole flow Uploader.upload -> AssistedUploader -> Helper.remote_upload_chk -> CHKUploadHelper.remote_upload -> fetch, connection lost after the client "
             "answered J ciphertext requests (every J < number of chunks): the client's upload fails (does not hang, does not report success), nothing is encoded, "
             "CHK_incoming holds exactly ciphertext[0:J*CHUNK_SIZE) (probe p) and is closed, the upload is no longer registered as active, the dead client is not asked again",
        outside="loss of the connection in the middle of a chunk's transfer (foolscap delivers whole answers); helper process killed in mid-write (covered as an "
                "arbitrary `have` pre-state in resume_fetch/helper_upload_caps)"),
    chx("helper_upload_caps", "C44_h", "h_helper_upload_caps", timeout=T,
        cases={"quick": [{"pre": pre, "nf": nf, "ns": ns, "nskip": 2, "_label": "%s,%d-fetches,%d-subchunks" % (pre, nf, ns)}
                         for pre in ("none", "incoming") for nf in (0, 1, 2) for ns in (1, 2)
                         if not (pre == "none" and nf == 0) and not (pre == "incoming" and nf == 2 and ns == 2)]
                        + [{"pre": "encoding", "nf": 1, "ns": 1, "_label": "encoding-complete"}],
               "thorough": [{"pre": pre, "nf": nf, "ns": ns, "nskip": 3, "_label": "%s,%d-fetches,%d-subchunks" % (pre, nf, ns)}
                            for pre in ("none", "incoming") for nf in (0, 1, 2, 3) for ns in (1, 2) if not (pre == "none" and nf == 0)]
                           + [{"pre": "encoding", "nf": nf, "ns": 1, "_label": "encoding-complete,%d" % nf} for nf in (1, 2)]},
        desc="one whole upload through the helper (real Uploader.upload ... CHKUploadHelper._finished ... AssistedUploader._build_verifycap ... read cap) from an "
             "arbitrary state of the helper's directory (nothing / CHK_incoming with any prefix / CHK_encoding complete): the helper-side encoder is given the "
             "client's size, parameters, storage index and exactly ciphertext[0:size) (probe p); verify cap == (SI, H, k, N, size) and read cap == (key, H, k, N, size) "
             "with H = ideal UEB hash of exactly that input - the same expression direct_upload_caps proves for the direct upload; only the missing range is "
             "fetched (none when CHK_encoding was complete: the client neither reads nor encrypts); ciphertext_fetched, counters, directory clean, upload deregistered",
        outside=_OUT_ENC),
    chx("direct_upload_caps", "C44_h", "h_direct_upload_caps", timeout=T,
        bounds={"quick": {"nchunks": 3}, "thorough": {"nchunks": 5}},
        desc="reference: Uploader.upload without helper -> CHKUploader.start -> encoder stand-in: the encoder is given (size, parameters, SI, ciphertext[0:size)) and "
             "the caps are (SI | key, H(that input), k, N, size)",
        outside=_OUT_ENC),
    chx("interrupt_resume", "C44_h", "h_interrupt_resume", timeout={"quick": 120, "thorough": 1200},
        cases={"quick": [{"j": j, "nf": 1, "ns": ns, "_label": _ir_label(j, 1, ns)} for j in (-1, 0) for ns in (1, 2)]
                        + [{"j": -1, "nf": 2, "ns": 1, "_label": _ir_label(-1, 2, 1)}],
               "thorough": [{"j": j, "nf": nf, "ns": ns, "_label": _ir_label(j, nf, ns)} for nf in (1, 2) for j in range(-1, nf) for ns in (1, 2)]},
        desc="the history form in one run: upload cut after J answered requests (or uninterrupted), same file uploaded again through the same helper directory "
             "(same Helper object, or a new one = helper restarted), then uploaded directly: read cap and verify cap of the helper upload are literally equal to "
             "those of the direct upload, the helper-side encoder input equals the direct one, the resumed transfer fetched exactly [J*CHUNK_SIZE, size)",
        outside=_OUT_ENC + "; larger files in the one-step obligations interrupted_state + helper_upload_caps + direct_upload_caps"),
    chx("checker_decision", "C44_h", "h_checker_decision", timeout=T,
        cases={"quick": [{"P": 2, "S": 2, "N": n, "_label": "2servers,2shares,N=%d" % n} for n in (1, 2, 3)],
               "thorough": [{"P": 3, "S": 2, "N": n, "_label": "3servers,2shares,N=%d" % n} for n in (1, 2, 3)]
                           + [{"P": 2, "S": 3, "N": n, "_label": "2servers,3shares,N=%d" % n} for n in (2, 3, 4)]
                           + [{"P": 3, "S": 3, "N": 3, "_label": "3servers,3shares,N=3"}]},
        desc="CHKCheckerAndUEBFetcher.check (all methods), path-per-input: each server answers get_buckets with a symbolic set of shares / loses the connection / "
             "fails; the UEB read works / is refused as malformed / loses the connection: every server asked once, the check never fails, UEB fetched from exactly "
             "one reported share; answer is (sharemap, UEB data, UEB hash) iff that UEB was readable and >= N(UEB) distinct share numbers were reported, else False; "
             "sharemap == what the answering servers said",
        outside="share header parsing (ReadBucketProxy stand-in); a UEB that fails on the one share tried makes the file count as absent even if other shares are "
                "intact (documented in the code: 'If we get an error, declare the whole file unavailable'; errs on the side of uploading)"),
    chx("helper_decision", "C44_h", "h_helper_decision", timeout=T,
        cases={"quick": [{"S": 2, "N": n, "conc": c, "_label": "2shares,N=%d,%s" % (n, ("one-after-the-other", "concurrent")[c])}
                         for n in (1, 2) for c in (0, 1)],
               "thorough": [{"S": 2, "N": 3, "_label": "2shares,N=3"}] + [{"S": 3, "N": n, "_label": "3shares,N=%d" % n} for n in (1, 2, 3, 4)]},
        desc="Helper.remote_upload_chk/_check_chk/_did_chk_check/_make_chk_upload_helper with the real checker, two clients asking about the same storage index one "
             "after the other or concurrently (second request before the servers answered the first), symbolic grid contents, an upload of this / of another storage "
             "index possibly running: file completely in the grid => (results with the UEB hash/data found, sharemap, pushed_shares 0; no upload helper), nothing "
             "created, no file touched; otherwise (None, upload helper) and all clients of one storage index share ONE upload helper, registered as active; "
             "a running upload is re-used without asking the grid; other storage indexes untouched; counters",
        outside="more than two clients / two servers"),
    chx("present_flow", "C44_h", "h_present_flow", timeout=T,
        cases={"quick": [{"N": n, "e0": e, "_label": "N=%d,server0-%s-share0" % (n, ("lacks", "holds")[e])} for n in (1, 2) for e in (0, 1)],
               "thorough": [{"N": n, "_label": "N=%d" % n} for n in (1, 2, 3)]},
        desc="whole flow with the real checker: Uploader.upload -> AssistedUploader -> Helper.remote_upload_chk over a symbolic grid (2 servers x 2 share numbers, "
             "symbolic UEB-read outcome): file completely in the grid => caps (key | SI, hash of the UEB found there, k, N, size) and NOTHING is fetched, read, "
             "encrypted, encoded or written on the helper; otherwise exactly one upload happens and the caps carry that encoding's UEB hash",
        outside="the UEB found is not compared with the client's file beyond k, N, segment size and size (see client_cap_fields)"),
    chx("client_cap_fields", "C44_h", "h_client_cap_fields", timeout=T,
        desc="AssistedUploader.start/_contacted_helper/_build_verifycap against a scripted helper (already-present answer or upload helper), symbolic own "
             "(size,k,N,segsize) and symbolic UEB data in the helper's results: results agreeing with the client's own values are accepted and the verify cap is "
             "exactly (own SI, helper's UEB hash, own k, own N, own size); disagreeing results never yield a cap with foreign k/N/size (they are refused by "
             "assert statements); the file is neither read nor encrypted unless the helper asks for ciphertext",
        outside="the client does NOT check the helper's uri_extension_hash against anything (it cannot recompute the UEB: share hashes are made on the helper) nor "
                "crypttext_hash against its own ciphertext: integrity of the UEB-hash slot rests on the helper (the property does not state a check either); "
                "pre-1.3.0 helper result conversion"),
    chx("two_clients", "C44_h", "h_two_clients", timeout=T,
        cases={"quick": [{"nf": 1, "adie": a, "tmin": lo, "tmax": hi, "late": 0, "_label": _tc_label(1, a, lo, hi)}
                         for a in (-1, 0, 1, 2) for (lo, hi) in ((0, 3), (4, 7))]
                        + [{"nf": 2, "adie": 2, "tmin": lo, "tmax": hi, "late": 0, "_label": _tc_label(2, 2, lo, hi)} for (lo, hi) in ((0, 1), (2, 3))],
               "thorough": [{"nf": nf, "adie": a, "tmin": lo, "tmax": hi, "late": 0, "_label": _tc_label(nf, a, lo, hi)}
                            for nf in (1, 2, 3) for a in range(-1, 3 + nf) for (lo, hi) in ((0, 3), (4, 6), (7, 6 + nf))]},
        desc="message schedules: every remote call queued and delivered FIFO one per step; client B starts uploading the same file before any delivery step; client A's "
             "connection is lost after it answered ADIE calls (each ADIE, or never) - the helper fails over to B inside one transfer (AskUntilSuccessMixin.call) or B "
             "resumes from CHK_incoming/CHK_encoding with a new upload helper; B's upload() may also arrive after the upload it was attached to has ended (results are "
             "handed over; a failure is handed over as that failure and B starts again): B always ends with the caps of a direct upload, A too if it stayed connected; every "
             "encoder run got exactly the file's ciphertext; answered requests are contiguous (no byte fetched twice for one encoding, no transfer left incomplete); "
             "B arriving while A's upload runs => one upload helper, one transfer, one encoding",
        outside="more than two clients; reordering of messages of one connection"),
    chx("late_attach", "C44_h", "h_two_clients", timeout=T,
        cases={"quick": [{"nf": nf, "adie": -1, "tmin": 0, "tmax": 6 + nf, "late": 1, "_label": "%d-chunk-file" % nf} for nf in (1, 2)],
               "thorough": [{"nf": nf, "adie": -1, "tmin": 0, "tmax": 6 + nf, "late": 1, "_label": "%d-chunk-file" % nf} for nf in (1, 2, 3)]},
        desc="guard for fix 1f4e7ae, the late-attach schedules of two_clients on their own: B was handed the running upload helper by remote_upload_chk, and that upload "
             "finished (successfully) before B's upload() message arrived: B must still get the results (CHKUploadHelper keeps them in a one-shot observer list for "
             "late subscribers) and build the same caps, not an AttributeError",
        outside="the upload B was attached to ended in failure: covered in two_clients (B is handed that failure and starts over)"),
]
