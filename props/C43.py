from vlib.spec import chx

EXPLANATION = ("CrossHair symbolic execution (z3) of the real comparison methods uri._BaseURI.__eq__/__ne__/__hash__ (through every "
               "real cap class), ImmutableFileNode / _ImmutableFileNodeBase(LiteralFileNode) / MutableFileNode / UnknownNode "
               "__eq__/__ne__/__hash__ and DirectoryNode.__eq__/__ne__/__hash__. Inputs: symbolic class "
               "indices, symbolic token indices or short symbolic byte strings as capability strings, symbolic choice of the other "
               "operand (same class, other class, foreign object); real caps from the real constructors and real nodes from the real "
               "NodeMaker.create_from_cap. Oracle: a == b <=> same-family objects with equal capability strings; != is the negation "
               "in both operand orders; equal objects hash equally.")
ASSUMPTIONS = [
    "cap stand-ins are objects of the real uri classes made with __new__ whose to_string() returns a token; _BaseURI comparison reads nothing else",
    "node stand-ins are objects of the real node classes made with __new__ with only u/_uri/_node/_verifycap (UnknownNode: rw_uri/ro_uri/error) set",
    "'a node of class X around the cap object of a node of class Y' (share=True, X != Y) is a synthetic state: real constructors never do that; "
    "it is used only to demand that node classes are not confused",
    "UnknownNode: identity is the pair (rw_uri, ro_uri); it is unhashable (defines __eq__ only), so the hash clause is vacuous for it",
    "real caps: keys/fingerprints from small concrete tables selected by symbolic indices (path-per-input); sha256/base32 run concretely",
    "nodes_real: NodeMaker with None storage broker/secret holder/history/uploader and a recording terminator",
]
T = {"quick": 90, "thorough": 900}
OBLIGATIONS = [
    chx("cap_tokens", "C43_h", "h_cap_tokens",
        bounds={"quick": {"ntok": 3}, "thorough": {"ntok": 5, "full_kb": True}}, timeout=T,
        desc="_BaseURI.__eq__/__ne__/__hash__ via every real cap class (18 + one harness-defined subclass), token capability strings: "
             "== iff tokens equal, != negation (both orders), equal => same hash, never equal to None/int/the string/a duck/a list",
        outside="path-per-input over (class, token) indices"),
    chx("cap_symbytes", "C43_h", "h_cap_symbytes",
        bounds={"quick": {"toklen": 2}, "thorough": {"toklen": 4, "full_kb": True}}, timeout=T,
        cases={"quick": [{"ka": [0, 3, 9, 12, 18], "_label": "chk_ssk_dir_dirlit_future"}],
               "thorough": [{"ka": list(range(0, 10)), "_label": "k0-9"}, {"ka": list(range(10, 19)), "_label": "k10-18"}]},
        desc="same with SYMBOLIC bytes as capability strings (len <= toklen): == iff strings equal for all strings at once"),
    chx("cap_real", "C43_h", "h_cap_real",
        bounds={"quick": {"nkey": 2, "nfp": 2}, "thorough": {"nkey": 3, "nfp": 2, "full_kb": True}}, timeout=T,
        cases={"thorough": [{"ka": list(range(a, a + 6)), "_label": "k%d-%d" % (a, a + 5)} for a in (0, 6, 12)]},
        desc="real caps of all 18 kinds from the real constructors (keys/fingerprints by symbolic index): == iff (kind, secrets) equal "
             "iff to_string() equal; negation; hash",
        outside="path-per-input"),
    chx("node_tokens", "C43_h", "h_node_tokens", bounds={"quick": {"ntok": 2, "na": [0, 1, 2]}, "thorough": {"ntok": 4, "full": True}}, timeout=T,
        cases={"thorough": [{"na": [0], "_label": "ImmutableFileNode"}, {"na": [1], "_label": "LiteralFileNode"}, {"na": [2], "_label": "MutableFileNode"}]},
        desc="node stand-ins around cap stand-ins: == iff same node class and equal capability string (get_uri()); other node class "
             "(also around the very same cap object), the cap itself, the string, None, int: unequal; negation both orders; hash"),
    chx("node_symbytes", "C43_h", "h_node_symbytes", bounds={"quick": {"toklen": 2, "na": [0, 1, 2]}, "thorough": {"toklen": 6, "na": [0, 1, 2]}}, timeout=T,
        desc="same with symbolic bytes capability strings, other operand any of the five node classes"),
    chx("unknown_node", "C43_h", "h_unknown_node", bounds={"quick": {"ntok": 2}, "thorough": {"ntok": 4}}, timeout=T,
        desc="UnknownNode.__eq__/__ne__: == iff other is an UnknownNode with equal (rw_uri, ro_uri); negation both orders; never equal to "
             "known nodes / foreign objects", outside="hash (UnknownNode is unhashable)"),
    chx("nodes_real", "C43_h", "h_nodes_real", bounds={"quick": {"nkey": 2, "qa": [0, 1, 2, 3, 4, 5]}, "thorough": {"nkey": 4, "qa": [0, 1, 2, 3, 4, 5], "full": True}}, timeout=T,
        desc="real nodes from NodeMaker.create_from_cap (same or separate NodeMaker) for CHK/LIT/SSK/SSK-RO/MDMF/MDMF-RO cap strings against nodes "
             "of every node-producing kind: == iff capability strings equal; negation; hash", outside="path-per-input"),
    # DirectoryNode: __eq__/__ne__/__hash__ were added to /repo by a fix: commit after these two obligations had shown (replayed through
    # NodeMaker.create_from_cap) that the class compared by object identity; witness class "DirectoryNode-compares-by-identity".
    chx("dirnode_tokens", "C43_h", "h_node_tokens", bounds={"quick": {"ntok": 2, "na": [3]}, "thorough": {"ntok": 4, "na": [3], "full": True}},
        timeout=T,
        desc="DirectoryNode.__eq__/__ne__/__hash__ on stand-ins (all six directory cap classes): same oracle as node_tokens",
        outside="CiphertextFileNode (internal verifier node, not named by the property; it also compares by identity)"),
    chx("dirnode_real", "C43_h", "h_nodes_real",
        bounds={"quick": {"nkey": 2, "qa": [7, 8, 9, 10, 11, 12]}, "thorough": {"nkey": 4, "qa": [7, 8, 9, 10, 11, 12], "full": True}}, timeout=T,
        desc="real DirectoryNode objects from NodeMaker.create_from_cap (DIR2, DIR2-RO, DIR2-MDMF, DIR2-MDMF-RO, DIR2-CHK, DIR2-LIT; same or "
             "separate NodeMaker): same oracle as nodes_real",
        outside="CiphertextFileNode (internal verifier node, not named by the property)"),
    chx("imm_fields", "C43_h", "h_imm_fields", timeout=T,
        desc="real ImmutableFileNode objects from NodeMaker.create_from_cap whose CHK caps agree in everything or differ in exactly ONE field "
             "(key, UEB hash, needed_shares, total_shares, size; all 32 field combinations x 6 choices x same/other NodeMaker): == iff the "
             "capability strings are equal, != is the negation both ways, equal => equal hash",
        outside="path-per-input; two values per field"),
    chx("attenuated_nodes", "C43_h", "h_attenuated", timeout=T,
        desc="real MutableFileNode / DirectoryNode objects of the SAME object at different authority (SSK, MDMF, DIR2, DIR2-MDMF write cap vs "
             "its own get_readonly() cap, same or other NodeMaker, either operand order): nodes that compare equal have equal get_uri() and equal "
             "is_readonly(); write node == write node of the same cap",
        outside="path-per-input"),
]
