from vlib.spec import chx

EXPLANATION = ("CrossHair symbolic execution (z3) of the real comparison methods uri._BaseURI.__eq__/__ne__/__hash__ (through every "
               "real cap class), ImmutableFileNode / _ImmutableFileNodeBase(LiteralFileNode) / MutableFileNode / UnknownNode "
               "__eq__/__ne__/__hash__ and the inherited comparison of DirectoryNode / CiphertextFileNode. Inputs: symbolic class "
               "indices, symbolic token indices or short symbolic byte strings as capability strings, symbolic choice of the other "
               "operand (same class, other class, foreign object); real caps from the real constructors and real nodes from the real "
               "NodeMaker.create_from_cap. Oracle: a == b <=> same-family objects with equal capability strings; != is the negation "
               "in both operand orders; equal objects hash equally.")
ASSUMPTIONS = [
    "cap stand-ins are objects of the real uri classes made with __new__ whose to_string() returns a token; _BaseURI comparison reads nothing else",
    "node stand-ins are objects of the real node classes made with __new__ with only u/_uri/_node/_verifycap (UnknownNode: rw_uri/ro_uri/error) set",
    "'a node of class X around the cap object of a node of class Y' (share=True, X != Y) is a synthetic state: real constructors never do that; "
    "it is used only to demand that node classes are not confused",
    "UnknownNode: identity is the pair (rw_uri, ro_uri); it is unhashable (defines __eq__ only), so the hash clause is vacuous for it",
    "real caps: keys/fingerprints from small concrete tables selected by symbolic indices (path-per-input); sha256/base32 run concretely",
    "nodes_real: NodeMaker with None storage broker/secret holder/history/uploader and a recording terminator",
]
T = {"quick": 90, "thorough": 900}
OBLIGATIONS = [
    chx("cap_tokens", "C43_h", "h_cap_tokens",
        bounds={"quick": {"ntok": 3}, "thorough": {"ntok": 8, "full_kb": True}}, timeout=T,
        desc="_BaseURI.__eq__/__ne__/__hash__ via every real cap class (18 + one harness-defined subclass), token capability strings: "
             "== iff tokens equal, != negation (both orders), equal => same hash, never equal to None/int/the string/a duck/a list",
        outside="path-per-input over (class, token) indices"),
    chx("cap_symbytes", "C43_h", "h_cap_symbytes",
        bounds={"quick": {"toklen": 2}, "thorough": {"toklen": 4, "full_kb": True}}, timeout=T,
        cases={"quick": [{"ka": [0, 3, 9], "_label": "chk_ssk_dir"}, {"ka": [2, 12, 18], "_label": "lit_dirlit_future"}],
               "thorough": [{"ka": [k], "_label": "k%d" % k} for k in range(19)]},
        desc="same with SYMBOLIC bytes as capability strings (len <= toklen): == iff strings equal for all strings at once"),
    chx("cap_real", "C43_h", "h_cap_real",
        bounds={"quick": {"nkey": 2, "nfp": 2}, "thorough": {"nkey": 4, "nfp": 3, "full_kb": True}}, timeout=T,
        desc="real caps of all 18 kinds from the real constructors (keys/fingerprints by symbolic index): == iff (kind, secrets) equal "
             "iff to_string() equal; negation; hash",
        outside="path-per-input"),
    chx("node_tokens", "C43_h", "h_node_tokens", bounds={"quick": {"ntok": 2}, "thorough": {"ntok": 4}}, timeout=T,
        cases=[{"na": [0], "_label": "ImmutableFileNode"}, {"na": [1], "_label": "LiteralFileNode"}, {"na": [2], "_label": "MutableFileNode"}],
        desc="node stand-ins around cap stand-ins: == iff same node class and equal capability string (get_uri()); other node class "
             "(also around the very same cap object), the cap itself, the string, None, int: unequal; negation both orders; hash"),
    chx("node_symbytes", "C43_h", "h_node_symbytes", bounds={"quick": {"toklen": 2}, "thorough": {"toklen": 4}}, timeout=T,
        cases=[{"na": [0], "_label": "ImmutableFileNode"}, {"na": [1], "_label": "LiteralFileNode"}, {"na": [2], "_label": "MutableFileNode"}],
        desc="same with symbolic bytes capability strings, other operand any of the five node classes"),
    chx("unknown_node", "C43_h", "h_unknown_node", bounds={"quick": {"ntok": 2}, "thorough": {"ntok": 4}}, timeout=T,
        desc="UnknownNode.__eq__/__ne__: == iff other is an UnknownNode with equal (rw_uri, ro_uri); negation both orders; never equal to "
             "known nodes / foreign objects", outside="hash (UnknownNode is unhashable)"),
    chx("nodes_real", "C43_h", "h_nodes_real", bounds={"quick": {"nkey": 2}, "thorough": {"nkey": 4}}, timeout=T,
        cases=[{"qa": [0, 1], "_label": "immutable_files"}, {"qa": [2, 3, 4, 5], "_label": "mutable_files"}],
        desc="real nodes from NodeMaker.create_from_cap (same or separate NodeMaker) for CHK/LIT/SSK/SSK-RO/MDMF/MDMF-RO cap strings against nodes "
             "of every node-producing kind: == iff capability strings equal; negation; hash", outside="path-per-input"),
    # The two node classes below define no __eq__/__hash__ at all (object identity).  On the unchanged tree these
    # obligations are VIOLATED: the property statement is about 'file or directory node objects'.
    chx("identity_nodes_tokens", "C43_h", "h_node_tokens", bounds={"quick": {"ntok": 2}, "thorough": {"ntok": 4}}, timeout=T,
        cases=[{"na": [3], "_label": "DirectoryNode"}, {"na": [4], "_label": "CiphertextFileNode"}],
        desc="DirectoryNode / CiphertextFileNode stand-ins: same oracle as node_tokens"),
    chx("identity_nodes_real", "C43_h", "h_nodes_real", bounds={"quick": {"nkey": 2}, "thorough": {"nkey": 4}}, timeout=T,
        cases=[{"qa": [7, 8, 9, 10, 11, 12], "_label": "DirectoryNode"}, {"qa": [6], "_label": "CiphertextFileNode"}],
        desc="real DirectoryNode / CiphertextFileNode objects from NodeMaker.create_from_cap: same oracle as nodes_real"),
]
