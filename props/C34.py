from vlib.spec import chx

EXPLANATION = ("CrossHair symbolic execution (z3) of the real IntroducerClient.got_announcements/_process_announcement, "
               "unsign_from_foolscap and IntroducerService._publish under ideal signatures (symbolic verification outcome per announcement), "
               "symbolic stored/incoming sequence numbers, and a symbolic choice of malformed encodings per batch position.")
ASSUMPTIONS = [
    "Ed25519 is ideal: verify_signature's outcome is an arbitrary Boolean per announcement; forging = the bit is False",
    "histories are covered inductively: one announcement processed from an arbitrary stored state per (service, key) (stored announcement with an integer seqnum, without seqnum, or nothing stored)",
    "the stored announcement's seqnum, if present, is an integer (a stored non-integer seqnum can only come from the key owner's own first announcement; see outside=)",
]
OBLIGATIONS = [
    chx("process_announcement", "C34_h", "h_process_announcement", timeout={"quick": 120, "thorough": 600},
        desc="IntroducerClient._process_announcement + _deliver_announcements, one step from an arbitrary stored state: stored entry replaced iff subscribed and "
             "(nothing stored, or stored has no seqnum, or incoming seqnum is an int > stored) and not a byte-identical replay; rejected => nothing delivered, "
             "entry untouched; accepted => delivered once with its key, cache saved; other keys' entries untouched",
        outside="first announcement for an index is accepted with any seqnum value (also a non-integer); a later integer seqnum then raises TypeError in the comparison"),
    chx("unsign", "C34_h", "h_unsign", timeout={"quick": 60, "thorough": 60},
        desc="unsign_from_foolscap: verify_signature called exactly once with the claimed key's bytes, the decoded signature and the exact message; "
             "(announcement, key) returned iff it returned normally, attributed to that key; else BadSignature and nothing returned"),
    chx("unsign_twice", "C34_h", "h_unsign_twice", timeout={"quick": 60, "thorough": 60},
        desc="two unsign_from_foolscap calls in one process (same key; same or different message and signature): each call's outcome depends only on "
             "its own (message, key, signature) under the ideal signature scheme -- nothing cached from the first call vouches for the second"),
    chx("batch_bad_signature", "C34_h", "h_batch_bad_signature", timeout={"quick": 120, "thorough": 600},
        desc="IntroducerClient.got_announcements with 3 well-formed announcements from 3 keys, each signature valid or not: exactly the valid ones are stored under "
             "their key and delivered, whatever the positions of the forged ones; no exception"),
    chx("batch_malformed", "C34_h", "h_batch_malformed",
        cases={"quick": [{"kinds": [0, 1, 2], "_label": "unsigned_or_sigprefix"}, {"kinds": [0, 3, 4], "_label": "bad_key"},
                         {"kinds": [0, 5], "_label": "bad_body"}, {"kinds": [0, 6, 8], "_label": "unsigned_or_short"},
                         {"kinds": [0, 7, 10], "_label": "strkey_or_nottuple"}, {"kinds": [0, 9], "_label": "intkey"}],
               "thorough": [{"kinds": [0, 1, 2, 3, 4, 5, 6, 7, 8, 10], "_label": "all-but-intkey"}, {"kinds": [0, 9], "_label": "intkey"}]},
        timeout={"quick": 120, "thorough": 1200},
        desc="same batch where each position may also be a malformed encoding (no signature, non-v0 signature or key prefix, undecodable key, signed non-JSON body, "
             "unsigned (msg, None, None), text or integer key, tuple shorter than 3, not a tuple) "
             "run through the real unsign_from_foolscap: every good announcement in the batch is still stored and delivered; bad ones never are"),
    chx("batch_signed_content", "C34_h", "h_batch_signed_content",
        cases={"quick": [{"kinds": [0, k], "_label": lab} for (k, lab) in ((1, "list_body"), (2, "no_service_name"), (3, "nickname_int"),
                                                                             (4, "furl_int"), (5, "furl_str"), (6, "seqnum_str_then_int"))],
               "thorough": [{"kinds": [0, 1, 2, 3], "_label": "mix-a"}, {"kinds": [0, 4, 5, 6], "_label": "mix-b"}, {"kinds": [0, 2, 3, 6], "_label": "mix-c"}]},
        timeout={"quick": 120, "thorough": 1200},
        desc="got_announcements (unstripped) with 3 positions from 3 keys, each a good announcement or a CORRECTLY SIGNED one with malformed content "
             "(body is a list; dict without service-name; nickname 5; anonymous-storage-FURL 7 or 'x'; seqnum 'x' followed by seqnum 2 from the same key), "
             "signature bit symbolic per position: every good announcement of another key is still stored and delivered exactly once; forged ones and "
             "non-announcements yield nothing; for odd-field dicts anything delivered is the signed body, verified, in order, and agrees with the stored entry",
        outside="whether odd-field announcements should be accepted at all (the oracle allows either)"),
    chx("sig_length", "C34_h", "h_sig_length", timeout={"quick": 120, "thorough": 300},
        desc="real unsign_from_foolscap / got_announcements -> REAL ed25519.verify_signature (only the backend key.verify is ideal) with signature blobs of "
             "0, 1, 32, 63, 64, 65, 128 bytes: accepted iff the blob has 64 bytes and the ideal check passes; otherwise BadSignature is raised - "
             "verify_signature never returns a value other than None"),
    chx("batch_forged_copy", "C34_h", "h_batch_forged_copy", timeout={"quick": 120, "thorough": 300},
        desc="got_announcements with a genuine announcement of key A, one or two forged copies of it (same message and claimed key, signature that does not "
             "verify) before or after it, and key B's announcement at any position: the genuine one is delivered exactly once, verified; B's is unaffected"),
    chx("key_identity", "C34_h", "h_key_identity", timeout={"quick": 120, "thorough": 600},
        desc="got_announcements -> real unsign_from_foolscap -> real ed25519.verifying_key_from_string, ideal signature check keyed on the DECODED key: "
             "seqnum 2 under the canonical key string and a replay of seqnum 1 under another spelling of the same key (upper/mixed case, surrounding blanks, "
             "newline, non-canonical last base32 character), in either order: announcements vouched for by one key never end up under two index entries and "
             "no lower seqnum is delivered after a higher one",
        outside="spellings other than the 9 listed"),
    chx("server_publish", "C34_h", "h_server_publish", timeout={"quick": 120, "thorough": 600},
        desc="IntroducerService._publish (server side of the same rule), one step: relayed/stored iff signature valid and fresh by the same seqnum rule; "
             "BadSignature reported iff invalid; rejected => nothing relayed, stored entry untouched"),
]
