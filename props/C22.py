from vlib.spec import chx

EXPLANATION = ("CrossHair symbolic execution (z3) of the real BucketWriter / ShareFile / BucketReader / StorageServer methods on an "
               "in-memory file system model (harness/_fakefile.py) with the RangeMap stand-in; upload data is provenance "
               "(source, offset); one write from an arbitrary mid-upload state, and the allocate/close/abort/timeout/disconnect "
               "life cycle with symbolic sizes and event choices.")
ASSUMPTIONS = [
    "collections_extended.RangeMap is the stand-in from /verif/shims (the real package is absent from the image)",
    "mid-upload pre-state of `write_step`: 0..2 disjoint non-adjacent written ranges whose bytes all come from one agreeing source, "
    "holes elsewhere (what any sequence of accepted writes produces, since accepted writes agree on overlaps and RangeMap merges)",
    "two writes 'agree' at a position iff they carry the same provenance (source tag, source offset) there; different provenance "
    "is treated as different bytes",
    "the effect of an accepted write is asserted on the low-level call it makes (one write() of exactly the client's buffer at "
    "0xc + offset) in `write_step`, and on the resulting bytes position by position in `write2` (thorough)",
    "timers: recording clock; time.time (read latency statistics) constant; file system in-memory, no crashes (C29)",
    "the message literal of ConflictingWriteError is not formatted (str.format of symbolic offsets would enumerate them)",
]
T = {"quick": 120, "thorough": 900}
BD = {"quick": {"size_max": 2**40}, "thorough": {"size_max": 2**62}}
NC = {"quick": [{"n": i, "_label": "n%d" % i} for i in range(2)], "thorough": [{"n": i, "_label": "n%d" % i} for i in range(3)]}
OBLIGATIONS = [
    chx("write_step", "C22_h", "h_write_step", bounds=BD, timeout=T, cases=NC,
        desc="BucketWriter.write (+ShareFile.read_share_data/write_share_data) from an arbitrary mid-upload state, arbitrary "
             "(offset, length, source): ConflictingWriteError iff the write overlaps stored bytes with different provenance, "
             "DataTooLargeError iff it exceeds the allocated size, a rejected write changes neither the file nor the written-range "
             "map; an accepted write is exactly one write() of the client's buffer at 0xc+offset; return value == (written ranges "
             "now cover [0, size)); lease record and container size untouched; upload timeout pushed back",
        outside="more than 2 previously written ranges"),
    chx("write2", "C22_h", "h_write2", bounds=BD, timeout=T, tiers=("thorough",),
        desc="history form from a freshly constructed BucketWriter (real constructor: container creation + lease): two arbitrary "
             "writes, conflict verdicts, probe byte p after each, finished flag, required_ranges, lease intact"),
    chx("required_ranges", "C22_h", "h_required_ranges", bounds=BD, timeout=T,
        desc="BucketWriter.required_ranges / _is_finished / allocated_size on an arbitrary written-range map: required == complement "
             "within [0, size) (probe p); finished iff everything written"),
    chx("share_read", "C22_h", "h_share_read", bounds=BD, timeout=T,
        desc="BucketReader.read / get_length -> ShareFile.__init__/read_share_data on an arbitrary stored share (0..2 leases): bytes "
             "[offset, min(offset+length, data length)), nothing from the lease area, empty beyond the end, no write"),
    chx("lifecycle", "C22_h", "h_lifecycle", bounds=BD, timeout=T,
        cases=[{"ev1": 0, "other": False, "_label": "close-alone"}, {"ev1": 0, "other": True, "_label": "close-other"},
               {"ev1": 1, "_label": "abort"}, {"ev1": 2, "_label": "timeout"}, {"ev1": 3, "_label": "disconnect"}],
        desc="StorageServer.allocate_buckets -> BucketWriter -> close / abort / _abort_due_to_timeout / disconnected (then a second "
             "arbitrary event), StorageServer.get_shares/get_buckets/bucket_writer_closed/allocated_size: the share is invisible to "
             "get_buckets until close; after close it is visible with the allocated length and the written bytes; after "
             "abort/timeout/disconnect no share and no incoming file remain (another upload's incoming file is kept); in all cases "
             "the close handlers run exactly once, the reservation is released, the timer is no longer pending"),
    chx("foolscap_disconnect", "C22_h", "h_foolscap_disconnect", bounds=BD, timeout=T,
        desc="FoolscapStorageServer.remote_allocate_buckets with 2..3 shares in ONE call and a recording canary, one writer written to "
             "and possibly closed / aborted first (FoolscapBucketWriter.remote_write/close/abort), then every registered disconnect "
             "callback fires: every still-open upload of that call is aborted (no incoming file, no share, no reservation, no entry in "
             "_bucket_writers, no pending timer); only a share closed before the disconnect stays visible"),
]
