from vlib.spec import chx

EXPLANATION = ("CrossHair symbolic execution (z3) of the real ShareCrawler / LeaseCheckingCrawler slice machinery and state "
               "serializers over an in-memory file system; symbolic schedule variables: the clock-read indices at which the time slice "
               "is exceeded and the event index at which the process is killed and restarted from the persisted state.")
ASSUMPTIONS = [
    "prefix table cut to 3 prefixes; bucket layout fixed per case (the bucket set does not change during the run)",
    "the crawler is interrupted only where it reads the clock; at most two interruptions (no-crash form) / one interruption and one kill (crash form) per run of two cycles",
    "a kill happens right after a process_bucket call, right after a state/history file has been committed (rename / close), or - for a file written "
    "in place (not via *.tmp + rename) - between its open-for-writing (which truncates it) and its close; a partially written file is modelled as empty",
    "in-memory file system behind FilePath / move_into_place; real json encoding and decoding of the state",
]
L1 = [["aa1", "aa2"], [], ["ac1"]]
L2 = [[], ["ab1"], ["ac1", "ac2"]]
L3 = [["aa1"], ["ab1", "ab2"], []]
L4 = [["aa1", "aa2", "aa3"], ["ab1"], ["ac1", "ac2"]]
L6 = [["aa1", "aa2", "aa3"], ["ab1", "ab2"], []]
PQ = ["aa", "bq", "b3"]                      # generation order of the real table: q comes before 3 in the base32 alphabet
LQ = [["aa1"], ["bqx", "bqy"], ["b3a", "b3b"]]
OBLIGATIONS = [
    chx("crawl_no_crash", "C27_h", "h_crawl_no_crash",
        bounds={"quick": {"J": 40}, "thorough": {"J": 60}},
        cases={"quick": [{"layout": L1, "_label": "L1"}, {"layout": L2, "_label": "L2"}],
               "thorough": [{"layout": L, "_label": "L%d" % (i + 1)} for i, L in enumerate([L1, L2, L3, L4])]},
        timeout={"quick": 120, "thorough": 1200},
        desc="ShareCrawler.start_slice/start_current_prefix/process_prefixdir/save_state/load_state over two cycles with the slice budget "
             "exceeded at any two clock reads: every bucket processed exactly once per cycle in sorted order, hooks once per cycle, "
             "last-cycle-finished on disk counts 0,1; one timer re-armed per slice with the right kind of pause"),
    chx("crawl_transient", "C27_h", "h_crawl_transient",
        bounds={"quick": {"J": 40}, "thorough": {"J": 60}},
        cases={"quick": [{"layout": L1, "_label": "L1"}], "thorough": [{"layout": L1, "_label": "L1"}, {"layout": L3, "_label": "L3"}]},
        timeout={"quick": 120, "thorough": 1200},
        desc="as crawl_no_crash with one interruption, while one extra bucket in the middle prefix appears at / disappears from the k-th directory "
             "listing (symbolic k): the buckets that exist throughout are still processed exactly once per cycle, in order; the transient one at most once"),
    chx("crawl_order", "C27_h", "h_crawl_order",
        bounds={"quick": {"J": 40}, "thorough": {"J": 60}},
        cases=[{"layout": L6, "_label": "L6"}, {"prefixes": PQ, "layout": LQ, "_label": "digit-prefix"}],
        timeout={"quick": 120, "thorough": 1200},
        desc="as crawl_no_crash with one interruption, with every directory listing (os.listdir or os.scandir) returned in an arbitrary order "
             "(symbolic permutation of up to 3 names) and, in the digit-prefix case, a prefix table whose generation order (base32 alphabet: bq before b3) "
             "differs from ASCII order: every bucket exactly once per cycle, prefixes and buckets in ascending order"),
    chx("crawl_clean_restart", "C27_h", "h_crawl_clean_restart",
        bounds={"quick": {"J": 40, "restart_max": 5, "two_jumps": False}, "thorough": {"J": 45, "restart_max": 7, "two_jumps": True}},
        cases=[{"layout": L1, "_label": "L1"}, {"prefixes": PQ, "layout": LQ, "_label": "digit-prefix"}],
        timeout={"quick": 120, "thorough": 1500},
        desc="one (thorough: two) interruption(s) and a clean shutdown (real stopService) + restart from the state file after the r-th slice "
             "(symbolic r), in particular after a slice that ended inside a prefix: nobody was killed mid-slice, so every bucket is processed "
             "exactly once per cycle"),
    chx("crawl_new_bucket", "C27_h", "h_crawl_new_bucket",
        bounds={"quick": {"J": 40, "two_jumps": False}, "thorough": {"J": 40, "two_jumps": True}},
        cases=[{"layout": [None, ["ab1"], None], "_label": "only-middle-prefix"}, {"layout": [["aa1"], ["ab1", "ab2"], None], "_label": "two-prefixes"},
               {"layout": [None, ["ab1"], []], "_label": "middle-and-empty-last"}],
        timeout={"quick": 120, "thorough": 900},
        desc="two cycles in ONE process with missing prefix directories (os.listdir raises), one (thorough: two) interruption(s), and a bucket "
             "created right after cycle 0 finished: cycle 1 processes it (and every other bucket) exactly once - no stale directory listing survives a cycle"),
    chx("crawl_crash", "C27_h", "h_crawl_crash",
        bounds={"quick": {"J": 40, "crash_max": 14}, "thorough": {"J": 60, "crash_max": 30}},
        cases={"quick": [{"layout": L1, "_label": "L1"}],
               "thorough": [{"layout": L, "_label": "L%d" % (i + 1)} for i, L in enumerate([L1, L2, L3, L4])]},
        timeout={"quick": 120, "thorough": 1200},
        desc="same machinery with one interruption and a process kill after any event (process_bucket call / state file commit), restart through "
             "the real constructor + _LeaseStateSerializer.load: every bucket processed at least once in each cycle (exactly once if the kill "
             "index is never reached), cycle numbers on disk increase by one"),
    chx("lease_cycle_no_crash", "C27_h", "h_lease_cycle_no_crash",
        bounds={"quick": {"J": 50, "two_jumps": False}, "thorough": {"J": 50, "two_jumps": True}},
        cases={"quick": [{"layout": L1, "_label": "L1"}], "thorough": [{"layout": L1, "_label": "L1"}, {"layout": L3, "_label": "L3"}]},
        timeout={"quick": 120, "thorough": 1500},
        desc="LeaseCheckingCrawler (real __init__/add_initial_state/started_cycle/process_bucket/process_share/finished_cycle/get_state, "
             "_HistorySerializer, _LeaseStateSerializer) on the same skeleton, one (quick) / two (thorough) interruptions, no kill: coverage exactly "
             "once per cycle, history gets one entry per finished cycle whose counters equal the number of buckets (cycle-to-date reset by started_cycle)"),
    chx("lease_cycle_restart", "C27_h", "h_lease_cycle_restart",
        bounds={"quick": {"J": 24, "crash_max": 7}, "thorough": {"J": 50, "crash_max": 20}},
        cases={"quick": [{"layout": L1, "torn_writes": False, "_label": "L1"}, {"layout": L1, "torn_writes": True, "_label": "L1-torn"}],
               "thorough": [{"layout": L1, "torn_writes": False, "_label": "L1"}, {"layout": L3, "torn_writes": False, "_label": "L3"},
                            {"layout": L1, "torn_writes": True, "_label": "L1-torn"}]},
        timeout={"quick": 120, "thorough": 1500},
        desc="same, with one interruption and a process kill after any event (-torn: also inside a file written in place), restart through the real constructors and the JSON state file: "
             "both cycles still complete, every bucket examined at least once per cycle, history entries present with counters >= number of buckets"),
]
