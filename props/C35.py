from vlib.spec import chx

EXPLANATION = ("CrossHair symbolic execution (z3) of the real hashtree.HashTree / IncompleteHashTree code with an ideal "
               "(injective, piecewise-linear over integer ids) pair hash: adversary-supplied hash values are symbolic ids, "
               "tree shape and the set of supplied hash numbers are enumerated as paths (dict keys are concrete).")
ASSUMPTIONS = [
    "ideal hash: pair_hash is injective and its range is disjoint from leaf-like values and from empty_leaf_hash values; "
    "empty_leaf_hash(i) are distinct constants (collision-freedom, exactly what the property assumes)",
    "hash values are tokens (bytes subclass, 32 bytes) identified by an integer id; id 0 models the empty string (falsy)",
    "pre-state of the partial tree: trusted genuine root held; held set = root + both children of every 'expanded' internal node, "
    "expanded nodes closed under parent (shown inductive: every successful set_hashes ends in this family); all held values genuine and non-empty",
    "genuine leaves are arbitrary non-empty ids (not necessarily distinct, may coincide with empty-leaf constants)",
]
T = {"quick": 180, "thorough": 2400}
NS_Q = [1, 2, 3, 4]
STATES4 = [[], [0], [0, 1], [0, 2], [0, 1, 2]]   # expanded internal nodes of a 4-wide tree, closed under parent
OBLIGATIONS = [
    chx("build_padding", "C35_h", "h_build", bounds={"quick": {"n_max": 4, "ltier": 1}, "thorough": {"n_max": 8, "ltier": 0}}, timeout=T,
        desc="HashTree.__init__ == Merkle definition (leaves, empty_leaf_hash padding to a power of two, node i = pair(2i+1, 2i+2)); "
             "IncompleteHashTree has the same shape and starts empty; HashTree.needed_hashes == sibling chain"),
    chx("set_hashes_sound", "C35_h", "h_sound",
        bounds={"quick": {"vtier": 1, "ltier": 0}, "thorough": {"vtier": 1, "ltier": 0}},
        cases={"quick": [{"n": n, "_label": "n%d" % n} for n in (1, 2)] +
                        [{"n": n, "focus": f, "_label": "n%d_leaf%d" % (n, f)} for (n, f) in ((3, 0), (3, 2), (4, 0), (4, 3))],
               "thorough": [{"n": n, "_label": "n%d" % n} for n in (1, 2)] +
                           [{"n": n, "focus": f, "_label": "n%d_leaf%d" % (n, f)} for (n, f) in ((3, 0), (3, 1), (3, 2), (4, 0), (4, 1), (4, 2), (4, 3))] +
                           [{"n": n, "xs": xs, "_label": "n%d_all_x%s" % (n, "".join(map(str, xs)))} for n in (3, 4) for xs in STATES4] +
                           [{"n": n, "vtier": 2, "ltier": 1, "_label": "n%d_deepvalues" % n} for n in (1, 2)] +
                           [{"n": n, "focus": f, "onpath": True, "_label": "n%d_leaf%d" % (n, f)} for n in (5, 6, 7, 8) for f in range(n)]},
        timeout=T,
        desc="IncompleteHashTree.set_hashes from any reachable pre-state, ANY subset of hash numbers supplied with symbolic values "
             "(n>4: any subset of the nodes on/adjacent to one leaf's path) plus an optional leaves={leaf: value}: "
             "accepted => every stored node equals the genuine tree, supplied hashes remembered, accepted leaf == genuine leaf; "
             "rejected => BadHashError/NotEnoughHashesError and state identical to before "
             "(thorough: n=3,4 every subset of the 7 nodes, one case per pre-state; n=5..8: subsets of the 7 nodes on/adjacent to one leaf's path, pre-states expanded along that path)",
        outside="hash numbers outside the tree (see badnum_unchanged); more than one entry in leaves="),
    chx("needed_accept_any_order", "C35_h", "h_complete",
        bounds={"quick": {"ltier": 0}, "thorough": {"ltier": 0}},
        cases={"quick": [{"n": n, "_label": "n%d" % n} for n in NS_Q],
               "thorough": [{"n": n, "_label": "n%d" % n} for n in (1, 2, 3, 4)] + [{"n": 2, "ltier": 1, "_label": "n2_deepleaves"}] +
                           [{"n": n, "focus": f, "onpath": True, "_label": "n%d_first%d" % (n, f)} for n in (5, 6, 7, 8) for f in range(n)]},
        timeout=T,
        desc="needed_hashes(leaf[, include_leaf]) == sibling chain (+leaf) minus held nodes; feeding exactly those with genuine values is "
             "accepted for leaf a then leaf b (any a, b: any validation order), via hashes= or leaves=; afterwards nothing more is asked"),
    chx("badnum_unchanged", "C35_h", "h_badnum",
        bounds={"quick": {"vtier": 0, "ltier": 0}, "thorough": {"vtier": 1, "ltier": 0}},
        cases={"quick": [{"n": n, "_label": "n%d" % n} for n in (2, 4)],
               "thorough": [{"n": n, "_label": "n%d" % n} for n in (1, 2, 3, 4)]},
        timeout=T,
        desc="set_hashes with two hashes of which at least one has a hash number outside the tree (negative or >= len): "
             "rejected (any exception) and the tree state is identical to before"),
]
