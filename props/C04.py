from vlib.spec import chx, pyob

EXPLANATION = ("CrossHair symbolic execution (z3) of the real DownloadNode.read, Segmentation, DecryptingConsumer, LiteralFileNode.read and the "
               "DownloadNode segment-request queue methods; file sizes/offsets/lengths are unbounded integers (segment size concrete per case where "
               "it is a divisor), ciphertext is a provenance buffer checked through a universally quantified output position p.")
ASSUMPTIONS = [
    "the node answering Segmentation.get_segment is a model of the verified segment pipeline (C01/C02): segment k of a file of size F and "
    "segment size S is exactly the bytes [k*S, min((k+1)*S, F)); a request beyond the last segment fails with BadSegmentNumberError; the node "
    "knows its real segment size by the time it answers the first request",
    "a read touches at most 2 (thorough: 3) segments; longer reads repeat the same per-segment step (Segmentation keeps only _offset/_size between segments)",
    "AES is replaced by an identity cipher that records the IV and counts keystream bytes (counter positioning is what is decided, not AES)",
    "time.time replaced by a counter, logging replaced by a no-op, foolscap eventually() by a FIFO queue drained by the harness",
    "segment-queue pre-states: up to 4 queued requests with arbitrary (also equal) segment numbers; an active fetcher serves the segment of "
    "one of the queued requests; SegmentFetcher is a recorder",
    "queue delivery: _decode_blocks/_check_ciphertext_hash replaced by an already-fired result (decoding and hashing are C01/C02)",
    "real-reactor timing of pause/resume and four fully interleaved reads are not enumerated: the per-request invariants of the shared queue "
    "are shown for each single queue operation from an arbitrary queue state",
]
T = {"quick": 120, "thorough": 900}
_SG_Q = ((3, 2), (2, 3), (4, 4), (1, 5), (5, 1))
_SG_T = _SG_Q + ((2, 7), (7, 2), (3, 3), (6, 4), (4, 6), (1, 1), (8, 3))
OBLIGATIONS = [
    chx("node_read_clip", "C04_h", "h_node_read_clip", timeout=T,
        desc="DownloadNode.read: effective size == 0 if offset >= filesize else min(size or rest, filesize-offset); empty reads complete at once "
             "without a Segmentation/producer; otherwise exactly one Segmentation for [offset, offset+size) within the file; fires with the consumer"),
    chx("segmentation_known", "C04_h", "h_segmentation_known", timeout=T,
        bounds={"quick": {"maxsegs": 2}, "thorough": {"maxsegs": 3}},
        cases={"quick": [{"S": v, "_label": "S%d" % v} for v in (1, 3, 4)],
               "thorough": [{"S": v, "_label": "S%d" % v} for v in (1, 2, 3, 4, 5, 7, 8, 16)]},
        desc="Segmentation.start/_fetch_next/_got_segment (+overlap) with a known segment size: consumer receives exactly file[offset:offset+size] "
             "(probe p), requests are segments floor(offset/S)..floor((offset+size-1)/S) once each in order, _offset/_size advance by what was written"),
    chx("segmentation_symbolic_S", "C04_h", "h_segmentation_known", timeout=T,
        bounds={"quick": {"maxsegs": 2}, "thorough": {"maxsegs": 3}},
        desc="same with the segment size itself symbolic (nonlinear; discharges for 2-3 segments)"),
    chx("segmentation_guess", "C04_h", "h_segmentation_guess", timeout=T,
        bounds={"quick": {"maxsegs": 2}, "thorough": {"maxsegs": 3}},
        cases={"quick": [{"S": a, "G": b, "_label": "S%d,G%d" % (a, b)} for (a, b) in _SG_Q],
               "thorough": [{"S": a, "G": b, "_label": "S%d,G%d" % (a, b)} for (a, b) in _SG_T]},
        desc="Segmentation with only a guessed segment size G (real size S): first request is the guessed segment; a wrong guess "
             "(WrongSegmentError/BadSegmentNumberError) is retried once with the real size; output is still exactly file[offset:offset+size]"),
    chx("segmentation_bad_guess", "C04_h", "h_segmentation_guess", timeout=T,
        bounds={"quick": {"maxsegs": 2, "bad_guess": True}, "thorough": {"maxsegs": 3, "bad_guess": True}},
        cases=[{"S": a, "G": b, "_label": "S%d,G%d" % (a, b)} for (a, b) in ((3, 2), (5, 1), (4, 1))],
        desc="first read on a fresh node, offset > 0, the guessed segment number lies beyond the last real segment: the node answers BadSegmentNumberError, "
             "Segmentation retries once with the real segment size and the read fires exactly once with exactly file[offset:offset+size]"),
    chx("segmentation_wrong_segment", "C04_h", "h_segmentation_wrong_segment", timeout=T,
        desc="_got_segment: a segment that does not contain the first wanted byte is never written; read fails with WrongSegmentError; no retry when the size was not a guess"),
    chx("segmentation_pause_stop", "C04_h", "h_segmentation_pause_stop", timeout=T,
        desc="pauseProducing/stopProducing from inside the consumer's write(): no further segment is requested or written; resume completes the exact range; "
             "stop fails the read with DownloadStopped, unregisters the producer and stays stopped"),
    chx("segmentation_stop_outstanding", "C04_h", "h_segmentation_stop_outstanding", timeout=T,
        desc="stopProducing with an outstanding segment request cancels exactly that request once and fails the read; nothing is written"),
    chx("decrypting_consumer", "C04_h", "h_decrypting_consumer", timeout=T,
        bounds={"quick": {"offset_min": 0, "offset_max": 255}},
        cases={"quick": [{"_label": "0-255"}],
               "thorough": [{"offset_min": 256 * i, "offset_max": 256 * i + 255, "_label": "%d-%d" % (256 * i, 256 * i + 255)} for i in range(16)]},
        desc="DecryptingConsumer.__init__/write: 16-byte IV (big-endian block counter) * 16 + bytes skipped == read offset, 0 <= skipped < 16; "
             "later chunks meet the keystream at their own file offsets; ciphertext passed through in order",
        outside="offsets above the bound (the IV is built by '%032x' formatting, which is enumerated); AES itself"),
    chx("filenode_read", "C04_h", "h_filenode_read", timeout=T,
        desc="ImmutableFileNode.read: a fresh decryptor positioned at THIS read's offset, same (offset,size) to the ciphertext node, fires with the caller's consumer; "
             "a second concurrent read gets an independent decryptor"),
    chx("literal_read", "C04_h", "h_literal_read", timeout=T,
        bounds={"quick": {"lit_max": 55}, "thorough": {"lit_max": 40000}},
        desc="LiteralFileNode.read: delivers exactly data[offset:offset+size] clipped at the end (nothing at/after the end), for size None too"),
    chx("queue_get_segment", "C04_h", "h_queue_get_segment", timeout=T,
        desc="DownloadNode.get_segment/_start_new_segment on a queue of 0-3 requests: appended at the tail, nobody fired, running fetch untouched, "
             "a fetch is started iff none was running"),
    chx("queue_cancel", "C04_h", "h_queue_cancel", timeout=T,
        desc="Cancel.cancel/_cancel_request with symbolic victim index on 1-4 requests (arbitrary segnums): exactly that request removed, others keep "
             "order, Deferreds and live cancel handles; active fetch stopped iff no remaining request wants its segment, then the head of the queue is fetched; idempotent"),
    chx("queue_deliver", "C04_h", "h_queue_deliver", timeout=T,
        desc="process_blocks->_deliver / fetch_failed / _extract_requests / _deliver: every request for the finished segment gets exactly the result (or the failure) once, "
             "requests for other segments stay queued in order and a new fetch starts for them; a reader cancelling between arrival and delivery is never answered"),
]
