from vlib.spec import chx, pyob

EXPLANATION = ("CrossHair symbolic execution (z3) of the real uri.py cap classes (get_readonly/get_verify_cap/is_readonly/is_mutable/"
               "to_string/wrap_dirnode_cap), uri.from_string, unknown.UnknownNode.__init__/strip_prefix_for_ro and "
               "nodemaker.NodeMaker.create_from_cap under an ideal (injective) hash in place of ssk_readkey_hash/"
               "ssk_storage_index_hash/storage_index_hash. Symbolic: cap kind, key/fingerprint indices, prefix (none/ro./imm.), "
               "deep_immutable, which strings sit in the rw/ro slots. Oracles are tables and rules written from "
               "docs/specifications/uri.rst and the property statement.")
ASSUMPTIONS = [
    "ideal hash: uri.hashutil.{ssk_readkey_hash, ssk_storage_index_hash, storage_index_hash} replaced by an injective token constructor "
    "(fresh 16-byte token per distinct (function, argument)); one-wayness of the real SHA-256d is outside the claim",
    "keys / fingerprints / cap strings are distinct concrete table entries selected by symbolic indices (symbolic bytes do not survive "
    "base32 + regex in CrossHair): every obligation here is path-per-input over its index space",
    "base64.b32encode/b32decode run natively (outside tracing) on the concrete table entries",
    "is_mutable() of verify caps is not constrained (the property speaks of write and read authority only)",
    "get_verify_cap() / get_readonly() applied to a cap that already is a verify cap are outside the statement (write->read->verify and "
    "read->verify only); nothing is demanded of them for directory verifiers",
    "nodemaker: node constructors replaced by tagging recorders; the blacklist is None",
]
def prefix_all_strings(ctx):
    import C16_e2
    return C16_e2.ob_prefix_all_strings(ctx)


T = {"quick": 90, "thorough": 900}
OBLIGATIONS = [
    chx("derive", "C16_h", "h_derive", bounds={"quick": {"nkey": 2, "nfp": 2}, "thorough": {"nkey": 3, "nfp": 3}}, timeout=T,
        desc="all 18 cap classes (real constructors, wrap_dirnode_cap): classes of get_readonly()/get_verify_cap() per an independent table, "
             "is_readonly()/is_mutable()/string prefix of start, read and verify cap, idempotence, w.get_readonly().get_verify_cap() == "
             "w.get_verify_cap(), read key = H_rk(write key), storage index = H_si(read key) / H_chk(key) identical along the chain, same "
             "fingerprint / UEB hash / k / N / size, and neither the write key nor (in verify caps) the read key / CHK key occurs raw or "
             "base32 in any attribute (recursively) or in to_string() of a derived cap",
        outside="real hash one-wayness; path-per-input over (kind, key index, fingerprint index)"),
    chx("verify_of_verify", "C16_h", "h_verify_of_verify", bounds={"quick": {"nkey": 1, "nfp": 1}, "thorough": {"nkey": 3, "nfp": 3}}, timeout=T,
        desc="FILE-level verify caps (SSKVerifierURI, MDMFVerifierURI, CHKFileVerifierURI, reached from all 8 non-LIT file kinds): "
             "get_verify_cap() of a verify cap has the same class, string, storage index and stays read-only",
        outside="directory verify caps: verify-cap-of-a-verify-cap is not part of the property statement (MDMFDirectoryURIVerifier / "
                "ImmutableDirectoryURIVerifier.get_verify_cap() return a mis-typed DirectoryURIVerifier whose to_string() asserts; not demanded)"),
    chx("from_string", "C16_h", "h_from_string", timeout=T,
        desc="uri.from_string(prefix + cap, deep_immutable) for prefix in {none, ro., imm.} x deep_immutable x 25 strings (18 well-formed kinds, "
             "x-tahoe-future-test-writeable/-mutable, an unknown format, 4 malformed known kinds): never a write cap under ro./imm./deep, "
             "never a mutable cap under imm./deep; a violated constraint gives UnknownURI with MustBeDeepImmutableError (immutability required) "
             "else MustBeReadonlyError and the original string; a met constraint gives the same class and string as the unprefixed cap; "
             "unknown formats keep their full string including the prefix",
        outside="path-per-input (concrete strings per index); canonical parsing itself is C15"),
    chx("unknown_node", "C16_h", "h_unknown_node", timeout=T, bounds={"quick": {}, "thorough": {"wide": True}},
        cases={"quick": [{"rw": list(range(0, 8)), "_label": "rw0-7"}, {"rw": list(range(8, 14)), "_label": "rw8-13"},
                         {"rw": list(range(14, 20)), "_label": "rw14-19"}],
               "thorough": [{"rw": list(range(a, min(a + 6, 44))), "_label": "rw%d-%d" % (a, min(a + 6, 44) - 1)} for a in range(0, 44, 6)]},
        desc="UnknownNode(given_rw, given_ro, deep_immutable) over 20x20 (thorough 44x44: + MDMF, directory, LIT, verifier caps) slot contents "
             "(None, empty, unknown/future/known write/read/immutable caps, each bare / ro. / imm.): error => opaque; single unprefixed cap refused; deep => no rw_uri and ro_uri marked imm.; "
             "otherwise ro_uri marked ro. or imm.; caps are the given ones, an imm. mark is never weakened; is_alleged_immutable sound; "
             "ro_uri never parses to a write cap (nor to a mutable cap when imm.); strip_prefix_for_ro + reload in the same context is the identity",
        outside="path-per-input"),
    chx("nodemaker", "C16_h", "h_nodemaker", timeout=T,
        bounds={"quick": {"r": [0, 1, 2, 5, 9, 20]}, "thorough": {}},
        cases={"quick": [{"w": list(range(0, 26)), "_label": "w0-25"}, {"w": list(range(26, 50)), "_label": "w26-49"}],
               "thorough": [{"w": list(range(a, a + 5)), "_label": "w%d-%d" % (a, a + 4)} for a in range(0, 50, 5)]},
        desc="NodeMaker.create_from_cap(writecap, readcap, deep_immutable) with recording node constructors over 50 cap strings per slot: "
             "a cap that violates its prefix / deep-immutable context yields only an opaque UnknownNode with error; a known node is built "
             "from 'writecap or readcap', is read-only under ro./imm./deep and immutable under imm./deep",
        outside="path-per-input; real node classes (C43 builds them); blacklist"),
    chx("nodemaker_warm", "C16_h", "h_nodemaker_warm", timeout=T,
        cases={"quick": [{"kinds": list(range(0, 9)), "_label": "k0-8"}, {"kinds": list(range(9, 18)), "_label": "k9-17"}],
               "thorough": [{"kinds": list(range(a, a + 3)), "_label": "k%d-%d" % (a, a + 2)} for a in range(0, 18, 3)]},
        desc="NodeMaker.create_from_cap on ONE NodeMaker whose node cache is cold or warm (the bare cap was opened before, in the write slot, the "
             "read slot or both, and the node is still alive): 18 well-formed kinds x prefix {none, ro., imm.} x slot {write, read} x deep_immutable: "
             "a cap presented with ro./imm. (or deep) never comes back as a writeable node, with imm. (or deep) never as a mutable node; a "
             "contradicting cap gives an opaque UnknownNode with error",
        outside="path-per-input; recording node constructors; cache eviction (weak references) is not modelled: earlier nodes are kept alive"),
    pyob("prefix_all_strings", "prefix_all_strings", timeout=T,
         desc="E2 (z3 strings over the live regexes and the startswith chain/guards read from from_string's AST, context flags symbolic): for ALL "
              "strings, an entry returning a write-cap kind (URI:SSK:, URI:MDMF:, URI:DIR2:, URI:DIR2-MDMF:) requires can_be_writeable and an entry "
              "returning any mutable kind (those + the -RO kinds) requires can_be_mutable; model validated against the real from_string on a corpus "
              "in all six contexts",
         outside="the three lines of from_string that derive the flags from prefix/deep_immutable are hand-modelled here (the CrossHair obligation "
                 "from_string runs them for real)"),
]
