from vlib.spec import chx, pyob

EXPLANATION = ("CrossHair symbolic execution (z3) of the real HTTP storage client and server code against the real Foolscap-side adapters, both on the real "
               "StorageServer over an in-memory file system; transport, header text and CBOR replaced by structure-preserving stand-ins.")
ASSUMPTIONS = []
T = {"quick": 120, "thorough": 900}
K = 65536
OBLIGATIONS = [
    chx("read_immutable", "C31_h", "h_read_immutable", timeout=T,
        bounds={"quick": {"size_max": 2**40, "ln_min": 1, "ln_max": 2 * K}, "thorough": {"size_max": 2**62, "ln_min": 1, "ln_max": 4 * K}},
        cases=[{"other": 0, "_label": "one-share"}, {"other": 1, "_label": "two-shares"}, {"ln_min": 0, "ln_max": 1, "_label": "length-0-or-1"}],
        desc="..."),
    chx("read_mutable", "C31_h", "h_read_mutable", timeout=T,
        bounds={"quick": {"size_max": 2**40, "ln_min": 1, "ln_max": K}, "thorough": {"size_max": 2**62, "ln_min": 1, "ln_max": 2 * K}},
        cases=[{"mode": 0, "nv": 2, "_label": "shares=[0],2-vectors"}, {"mode": 1, "nv": 1, "_label": "shares=[]"},
               {"mode": 2, "nv": 1, "_label": "shares=[2,0]"}, {"mode": 3, "nv": 1, "_label": "shares=[0,1]"},
               {"mode": 0, "nv": 1, "ln_min": 0, "ln_max": 1, "_label": "length-0-or-1"}],
        desc="..."),
    chx("upload", "C31_h", "h_upload", timeout=T,
        bounds={"quick": {"size_max": 2**40, "ln_min": 1, "ln_max": 2 * K}, "thorough": {"size_max": 2**62, "ln_min": 1, "ln_max": 3 * K}},
        cases=[{"n": 1, "_label": "1-chunk"}, {"n": 2, "conflict": 0, "_label": "2-chunks"}, {"n": 2, "conflict": 1, "_label": "2-chunks,conflict"}],
        desc="..."),
    chx("rtw", "C31_h", "h_rtw", timeout=T, bounds={"quick": {"size_max": 2**40}, "thorough": {"size_max": 2**62}},
        cases=[{"nlkind": k, "good_we": 1, "_label": "new-length-%s" % n} for (k, n) in ((0, "none"), (1, "0"), (2, "n"))]
              + [{"nlkind": 0, "good_we": 0, "_label": "bad-enabler"}],
        desc="..."),
    chx("list_lease", "C31_h", "h_list_lease", timeout=T, bounds={"quick": {"size_max": 2**40}, "thorough": {"size_max": 2**62}},
        cases=[{"mutable": 0, "_label": "immutable"}, {"mutable": 1, "_label": "mutable"}],
        desc="..."),
]
