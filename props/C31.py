from vlib.spec import chx, pyob

EXPLANATION = ("CrossHair symbolic execution (z3) of the real HTTP storage client (storage/http_client.py, the _HTTPStorageServer adapter of storage_client.py) "
               "wired by a loopback transport to the real HTTP storage server routes (storage/http_server.py), compared operation by operation with the real "
               "Foolscap-side adapters (_StorageServer -> FoolscapStorageServer / FoolscapBucketWriter / FoolscapBucketReader); both end in the real StorageServer, "
               "BucketWriter, BucketReader, ShareFile and MutableShareFile on an in-memory file system whose contents are provenance runs with symbolic offsets.  "
               "Header text and CBOR are carried by structure-preserving stand-ins so that offsets, lengths and share sizes stay symbolic; the stand-ins are tied to "
               "real werkzeug / cbor2 / pycddl by differential tests and by obligations that run the untouched text path on small integers.")
ASSUMPTIONS = [
    "PARTIAL CLAIM.  Decided: one IStorageServer operation (or a 1-3 chunk upload history) from an arbitrary consistent server state gives the same client-visible "
    "result and the same file-system state through the HTTP path and through the direct (Foolscap-adapter) path.  Not decided: arbitrary long operation histories, "
    "concurrency between clients, aborts / timeouts / disconnects (C22), advise_corrupt_share, get_version, TLS / NURL / authorization headers (C30), "
    "real HTTP framing (treq, twisted.web, Klein request rendering), real CBOR bytes (cbor2 / pycddl are C extensions)",
    "transport: Loopback.request (harness/_httploop.py) stands for treq + TLS + TCP + twisted.web + KleinResource.render: it hands the client's real Headers object, "
    "method, URL path and body to the endpoint found by the REAL Klein/werkzeug url map of HTTPServer, runs the real authorization decorator, the real registered error "
    "handlers, drives pull producers until they unregister, and returns status, the real response Headers object and the written body pieces",
    "header text: werkzeug Range / ContentRange / parse_range_header / parse_content_range_header are stand-ins in the namespaces of http_client and http_server: "
    "to_header() is a concrete placeholder string (it travels through the real twisted Headers), parsing looks the symbolic integers up again; the validity rules of the "
    "werkzeug classes (Range rejects start >= end, ContentRange asserts is_byte_range_valid, the parsers return None for empty ranges) are re-stated and checked "
    "against real werkzeug for all small values at import and by the *_strings obligations on the untouched text path",
    "CBOR: cbor2.dumps/dump give, and pycddl Schema.validate_cbor takes, a token holding a normalised deep copy (tuple -> list, set stays set); the CDDL schemas are "
    "re-stated as validators (differentially tested against real cbor2 + pycddl on 20 accept/reject samples at import)",
    "share data is provenance (source tag, source offset) with a universally quantified probe position: two byte strings are equal iff they have the same length and "
    "the same provenance at every position; containers are arbitrary states under the representation invariants of C22/C23 (mk_immutable / mk_mutable)",
    "upload histories: no chunk is sent after the share is complete (the HTTP server finalises the share at that moment, the Foolscap server at close(): a later "
    "write is a client error on both, with different symptoms); close() is compared only for complete uploads (Foolscap's close() of an incomplete upload finalises a "
    "short share, the HTTP adapter's close() waits for completion: documented protocol difference)",
    "a wrong write enabler surfaces as BadWriteEnablerError on the direct path and as RemoteException on the HTTP path (what a real Foolscap caller sees is a "
    "RemoteException too); both count as the same outcome",
    "eliot actions are no-ops, defer_to_thread runs inline, twisted.web.http is a plain namespace of its constants, os.urandom (upload secret) and the clock are constant, "
    "log sinks are dropped; f-string error messages that format integers are not formatted (message text only); CrossHair's optional short-circuiting of repr() is off",
    "collections_extended.RangeMap is the stand-in from /verif/shims (the real package is absent from the image)",
    "four input classes on which the unchanged tree DOES disagree are separated by CLASSIFY/EXCLUDED in the harness (zero-length-read, zero-length-write, "
    "readv-names-missing-share, rejected-chunk-longer-than-64KiB); unless they are listed in known_findings.json the cases that contain them report VIOLATED",
]
T = {"quick": 120, "thorough": 900}
K = 65536
BIG = {"quick": 2**40, "thorough": 2**62}


def _b(**kw):
    """bounds per tier: scalars apply to both tiers, (quick, thorough) tuples are split"""
    out = {"quick": {"size_max": BIG["quick"]}, "thorough": {"size_max": BIG["thorough"]}}
    for (k, v) in kw.items():
        if isinstance(v, tuple):
            out["quick"][k], out["thorough"][k] = v
        else:
            out["quick"][k] = out["thorough"][k] = v
    return out


_RM = [{"mode": 0, "nv": 1, "has2": 0, "_label": "shares=[0]"},
       {"mode": 1, "nv": 2, "has2": 1, "dl": 100, "second": [98, 5], "_label": "shares=[],2-shares,2-vectors"},
       {"mode": 2, "nv": 1, "has2": 1, "dl": 100, "_label": "shares=[2,0]"}]
_SOURCES = ((0, "same-source"), (1, "other-source"))
_SHAPES = ((0, "before"), (2, "after"), (10, "covers-start"), (11, "covers-all"), (12, "inside"), (13, "covers-end"))

OBLIGATIONS = [
    # ---- range reads -----------------------------------------------------------------------------------------------------
    chx("read_immutable", "C31_h", "h_read_immutable", timeout=T, bounds=_b(ln_min=1, ln_max=(2 * K, 4 * K)),
        cases={"quick": [{"other": 0, "_label": "one-share"}, {"other": 1, "_label": "two-shares"}],
               "thorough": [{"other": 0, "nl": 1, "_label": "one-share"}, {"other": 1, "nl": 2, "_label": "two-shares,2-leases"},
                            {"other": 0, "nl": 0, "_label": "one-share,no-lease"}, {"ln_min": 0, "ln_max": 1, "_label": "length-0-or-1"}]},
        desc="get_buckets + read(offset, length) of an immutable share (symbolic data length <= 2^40, 1 lease, optionally a second share; offset unbounded, "
             "1 <= length <= 2*65536 so that the server's 64 KiB producer loop runs 1-3 times) through _HTTPStorageServer.get_buckets / _HTTPBucketReader.read / "
             "http_client.read_share_chunk / HTTPServer.list_shares + read_share_chunk / read_range / _ReadRangeProducer versus _StorageServer.get_buckets / "
             "FoolscapBucketReader.remote_read: same share numbers, same bytes [offset, min(offset+length, share length)) incl. empty past the end (204), no state change",
        outside="witness class zero-length-read (case length-0-or-1): a read of length 0 raises ValueError in the HTTP client (werkzeug refuses the empty Range) "
                "where the direct read returns b''"),
    chx("read_mutable", "C31_h", "h_read_mutable", timeout=T, bounds=_b(ln_min=1, ln_max=(K, 2 * K)),
        cases={"quick": _RM + [{"mode": 3, "nv": 1, "has2": 1, "dl": 100, "_label": "shares=[0,1]"}],
               "thorough": _RM + [{"mode": 3, "nv": 1, "dl": 100, "_label": "shares=[0,1],share-1-stored-or-not"},
                                  {"mode": 0, "nv": 1, "has2": 0, "dl": 100, "ln_min": 0, "ln_max": 1, "_label": "length-0-or-1"}]},
        desc="slot_readv(storage index, shares, read vector) on mutable containers through _HTTPStorageServer.slot_readv / StorageClientMutables.read_share_chunk + "
             "list_shares / HTTPServer.read_mutable_chunk + enumerate_mutable_shares / read_range versus _StorageServer.slot_readv / remote_slot_readv: same share "
             "numbers answered, per share one result per vector in order, same bytes (clipped at the data length, empty past the end); symbolic container geometry for "
             "one share and one vector, concrete geometry with symbolic offsets for the share-list / multi-vector structure",
        outside="witness classes: readv-names-missing-share (a named share that does not exist is skipped by the direct path but makes the HTTP path fail with 404) "
                "and zero-length-read"),
    chx("server_read_range", "C31_h", "h_server_read_range", timeout=T, bounds=_b(body_max=(3 * K, 6 * K)),
        desc="http_server.read_range + _ReadRangeProducer / _ReadAllProducer alone on an abstract share (unbounded start, end, share length; body <= 3*65536): no Range "
             "header -> 200 with the whole share; one closed byte range -> 206, Content-Range announcing exactly [start, min(end, share length)), body exactly those "
             "bytes in pieces of at most 65536, 204 without reading when the range selects nothing; other unit / several ranges / open-ended / suffix / garbage -> 416 "
             "before anything is read"),
    chx("client_read_chunk", "C31_h", "h_client_read_chunk", timeout=T, bounds=_b(body_max=(2**40, 2**62)),
        desc="http_client.read_share_chunk alone against canned answers (status 204/206/200/404/416/500/201 x content type right/wrong/absent x Content-Range "
             "valid/absent/garbage/unsatisfied, symbolic announced range and body length, body in two pieces): the request is a GET of the share URL whose Range denotes "
             "exactly [offset, offset+length); 204 -> b''; data is returned only from a 206 with application/octet-stream whose Content-Range parses, announces at most "
             "`length` bytes and matches the body length exactly; every other answer raises (ClientException carrying the status for a wrong status)"),
    chx("read_strings", "C31_h", "h_read_strings", timeout=T, bounds=_b(d_max=(5, 9), l_max=(3, 5), l_min=(1, 0)),
        desc="the same read comparison (immutable read / mutable slot_readv) with the REAL werkzeug Range / ContentRange classes and parsers and real header text, "
             "for every data length <= 5, offset <= 6, length <= 3 (path per input, run concretely): Range text is 'bytes=first-last', Content-Range text "
             "'bytes first-last/*' of the bytes sent, same bytes as the direct read",
        outside="decides nothing symbolically: it ties the header stand-ins of the symbolic obligations to the real text path"),
    # ---- chunked uploads -------------------------------------------------------------------------------------------------
    chx("upload", "C31_h", "h_upload", timeout=T, bounds=_b(ln_min=1, ln_max=K),
        cases={"quick": [{"n": 1, "has1": 0, "_label": "1-chunk,up-to-64KiB"},
                         {"n": 1, "has1": 0, "l1_min": K + 1, "ln_max": 2 * K, "fits": 1, "_label": "1-chunk,over-64KiB,inside-the-allocated-size"},
                         {"n": 1, "has1": 1, "_label": "1-chunk,share-1-stored"}]
                        + [{"n": 2, "has1": 0, "conflict": c, "shape": sh, "_label": "2-chunks,%s,second-%s" % (cn, shn)}
                           for (c, cn) in _SOURCES for (sh, shn) in _SHAPES if sh in (0, 2, 12)]
                        + [{"n": 2, "has1": 0, "conflict": c, "shape": sh, "complete": 1, "_label": "2-chunks,%s,second-%s,complete" % (cn, shn)}
                           for (c, cn) in _SOURCES for (sh, shn) in _SHAPES if sh in (10, 11, 13)]
                        + [{"n": 2, "has1": 0, "conflict": c, "shape": sh, "complete": 0, "probe": pr, "_label": "2-chunks,%s,second-%s,incomplete,probe-%s" % (cn, shn, prn)}
                           for (c, cn) in _SOURCES for (sh, shn) in _SHAPES if sh in (10, 11, 13) for (pr, prn) in ((0, "before-the-chunks"), (1, "from-the-chunks-on"))],
               "thorough": [{"n": 1, "has1": h, "ln_max": 3 * K, "_label": "1-chunk,has1=%d" % h} for h in (0, 1)]
                           + [{"n": 2, "has1": 0, "conflict": c, "shape": sh, "ln_max": 2 * K, "_label": "2-chunks,%s,second-%s" % (cn, shn)}
                              for (c, cn) in _SOURCES for (sh, shn) in _SHAPES]
                           + [{"n": 3, "has1": 0, "conflict": 0, "shape": 0, "third": "from-end-of-second", "ln_max": K,
                               "_label": "3-chunks,second-before,third-continues-the-second"}]
                           + [{"n": 1, "has1": 0, "ln_min": 0, "ln_max": 1, "_label": "length-0-or-1"}]},
        desc="allocate_buckets({0,1}) (share 1 optionally stored already, symbolic allocated size) then a history of chunks with symbolic (offset, length) -- quick: "
             "one chunk <= 2*65536 (so the server applies it in 1-2 pieces), two chunks <= 65536 each in every relative position (second before / after / covering "
             "the start / everything / a part / the end of the first), same bytes or bytes from another source (conflict); thorough: up to 3*65536 resp. 2*65536 and "
             "a three-chunk history -- then close() when complete, through _HTTPStorageServer.allocate_buckets / _HTTPBucketWriter / "
             "StorageClientImmutables.create + write_share_chunk / HTTPServer.allocate_buckets + write_share_data / UploadsInProgress versus "
             "_StorageServer.allocate_buckets / FoolscapBucketWriter.remote_write + remote_close: same already-have / allocated sets; each chunk accepted or refused alike "
             "(conflict with different bytes, beyond the allocated size); the HTTP `finished` flag after each chunk is true exactly when the written ranges cover "
             "[0, size) (independent interval-union model), the share is finalised exactly then and close() fires exactly then; `required` is exactly the set of unwritten "
             "bytes (probe); same visible shares and byte-identical file system afterwards",
        outside="witness classes (CLASSIFY in the harness): rejected-chunk-longer-than-64KiB (a refused chunk longer than the 65536-byte pieces in which the HTTP "
                "server applies a PATCH is partly applied there, not at all on the direct path) and zero-length-write; aborts, timeouts, disconnects (C22)"),
    chx("server_write_chunk", "C31_h", "h_server_write_chunk", timeout=T, bounds=_b(body_max=(3 * K, 5 * K)),
        cases=[{"mode": "ok", "_label": "accepted"}, {"mode": "conflict", "_label": "a-piece-refused"}, {"mode": "bad-header", "_label": "no-byte-content-range"}],
        desc="HTTPServer.write_share_data + UploadsInProgress.get_write_bucket + StorageClientImmutables.write_share_chunk alone on a RECORDING bucket (unbounded "
             "offset, body <= 3*65536, the bucket reports `finished` from a symbolic piece on, refuses a symbolic piece with ConflictingWriteError, and reports a "
             "symbolic required range): the body is written in order in contiguous pieces of at most 65536 bytes starting at the announced offset; 409 and no close at "
             "the first refused piece; otherwise the client sees finished == the bucket's answer for the last piece, the bucket is closed exactly then, and `required` "
             "is the bucket's required_ranges(); a PATCH whose Content-Range is missing or not in bytes -> 416, nothing written"),
    chx("upload_strings", "C31_h", "h_upload_strings", timeout=T, bounds=_b(d_max=(3, 4), l_max=(2, 3), l_min=(1, 0)),
        desc="two-chunk uploads with the REAL werkzeug ContentRange class / parser and real Content-Range text for every size <= 3, offsets <= 3, lengths <= 2, same or "
             "other source (path per input, run concretely): accepted/refused alike, finished flags, completion, visibility and file system as on the direct path",
        outside="decides nothing symbolically: ties the Content-Range stand-in to the real text path"),
    # ---- read-test-write ---------------------------------------------------------------------------------------------------
    chx("rtw_marshalling", "C31_h", "h_rtw_marshalling", timeout=T, bounds=_b(),
        desc="slot_testv_and_readv_and_writev through both paths onto a RECORDING storage server: 8 request shapes (0-2 shares incl. share numbers 0/1/3/7/200/255, "
             "0-2 test vectors, 0-2 write vectors, 0-2 read vectors, new_length None or a number) with every offset / size / new_length an unbounded symbolic integer: "
             "both paths call StorageServer.slot_testv_and_readv_and_writev exactly once with (storage index, the three secrets, the caller's vectors with the b'eq' "
             "operator, read vector, renew_leases=True); the server's (success, {share: [data]}) comes back unchanged; BadWriteEnablerError -> RemoteException"),
    chx("rtw_bad_enabler", "C31_h", "h_rtw_bad_enabler", timeout=T, bounds=_b(),
        desc="real containers made with the right / another write enabler (shares 0 and 2), request with the right / wrong one, optionally creating share 1: both "
             "paths fail exactly when some existing share was made with a different enabler, nothing is modified then; otherwise same state"),
    chx("rtw", "C31_h", "h_rtw", timeout=T, bounds=_b(),
        cases={"quick": [{"vary": "write", "nlkind": 0, "has2": 0, "create1": 0, "renewing": 0, "wshape": w, "_label": "write-" + n}
                         for (w, n) in ((0, "inside"), (1, "extending"), (2, "beyond-the-end"))] + [
                         {"vary": "test", "nlkind": 0, "has2": 0, "create1": 1, "renewing": 1, "dl": 100, "_label": "test,create-share-1,renew"},
                         {"vary": "read", "nlkind": 0, "has2": 1, "create1": 0, "renewing": 0, "dl": 100, "_label": "read,2-shares"},
                         {"vary": "new-length", "nlkind": 2, "has2": 0, "create1": 0, "renewing": 0, "dl": 100, "_label": "new-length-n"},
                         {"vary": "none", "nlkind": 1, "has2": 1, "create1": 0, "renewing": 0, "dl": 100, "_label": "new-length-0-deletes"}],
               "thorough": [{"vary": "write", "nlkind": 0, "has2": 0, "create1": 0, "renewing": 0, "wshape": w, "_label": "write-" + n}
                            for (w, n) in ((0, "inside"), (1, "extending"), (2, "beyond-the-end"))] + [
                            {"vary": "test", "nlkind": 0, "has2": 0, "create1": 1, "renewing": 1, "_label": "test,create-share-1,renew"},
                            {"vary": "read", "nlkind": 0, "has2": 1, "create1": 0, "renewing": 0, "_label": "read,2-shares"},
                            {"vary": "new-length", "nlkind": 2, "has2": 0, "create1": 0, "renewing": 0, "_label": "new-length-n"},
                            {"vary": "none", "nlkind": 1, "has2": 1, "create1": 0, "renewing": 0, "_label": "new-length-0-deletes"}]},
        desc="slot_testv_and_readv_and_writev through both paths onto the REAL StorageServer and MutableShareFile containers, one part of the request symbolic per case "
             "(write vector on a symbolic container; test vector length and specimen; read vector and probe; new_length), the rest concrete: same success flag (== the "
             "test vector's outcome), same read data (the data before the write), same file system afterwards incl. the renewed / added lease, created and deleted shares"),
    # ---- listing and leases -------------------------------------------------------------------------------------------------
    chx("list_lease", "C31_h", "h_list_lease", timeout=T, bounds=_b(),
        cases=[{"mutable": 0, "_label": "immutable"}, {"mutable": 1, "_label": "mutable"}],
        desc="share listing (get_buckets; for mutables slot_readv with empty share list and empty read vector) and add_lease(storage index, renew, cancel) through both "
             "paths on symbolic containers: shares 0 and 2 present or not, a non-share file in the bucket directory, the caller's lease already present (renewal) or not "
             "(addition), symbolic free space: same share numbers; add_lease returns None on both or fails on both (no space); nothing changes without shares (HTTP 404 "
             "is swallowed); byte-identical file system afterwards; share 0 then carries exactly one lease with the caller's secrets expiring 31 days from now"),
]
