from vlib.spec import chx

EXPLANATION = ("CrossHair symbolic execution (z3) of the real MutableFileNode/MutableFileVersion._do_serialized through the real "
               "public entry points, on a real Twisted Deferred chain; the schedule (request/fire/notify interleaving, failure kinds) "
               "is a vector of symbolic integers constrained to be a valid permutation; every feasible schedule within the bound is a "
               "solver-decided path.")
ASSUMPTIONS = [
    "the private serialized implementations (_overwrite, _modify, ...) are replaced by harness operations; what is checked is the "
    "serializer chain and the routing of the public methods through it, not what the operations do",
    "foolscap's eventual-send is a harness-owned queue: entries run one at a time from the top of the stack, in the order chosen by the schedule",
    "operations do not invoke serialized methods of the same node from inside their body (documented restriction of _do_serialized)",
]

_N = {"node": 0, "version": 1}


def _cases(n, kinds, rots, raw=False, need_sync=False, classes=("node", "version"), split=False):
    out = []
    for c in classes:
        for m in (range(2 ** n) if split else [None]):
            out.append({"cls": _N[c], "n": n, "kinds": kinds, "nrot": rots, "raw": raw, "need_sync": need_sync, "kmask": m,
                        "_label": "%s-n%d%s%s" % (c, n, "-raw" if raw else "", "" if m is None else "-m%d" % m)})
    return out


OBLIGATIONS = [
    chx("serialized_order", "C13_h", "h_serialized",
        cases={"quick": _cases(3, [0, 1], 1, split=True) + _cases(2, [0, 1], 2, raw=True),
               "thorough": _cases(3, [0, 1], 2) + _cases(3, [0, 1], 1, raw=True)},
        timeout={"quick": 150, "thorough": 1500},
        desc="n operations requested through the real public methods of one node; every interleaving of the requests (in order) with the "
             "firing of the operations' inner Deferreds (any order, also before the operation was requested/started; each succeeding or "
             "failing): operation i+1's callable is not invoked before operation i's inner Deferred fired, no two run at once, each is "
             "invoked exactly once with the caller's arguments, every operation starts once its predecessors are done (a failure does "
             "not block later ones), every caller is notified exactly once with its own result/failure, no failure leaks into the chain",
        outside="what the operations themselves do; more than n operations (the chain is memoryless: after each operation it is a fired "
                "Deferred with an empty callback list, checked at the end of each schedule)"),
]
