from vlib.spec import chx

EXPLANATION = ("CrossHair symbolic execution (z3) of the real MutableFileNode/MutableFileVersion._do_serialized through the real "
               "public entry points, on a real Twisted Deferred chain; the schedule (request/fire/notify interleaving, failure kinds) "
               "is a vector of symbolic choice integers (c_t picks one of the actions enabled at step t, enabledness being defined by what was "
               "requested/fired, never by the code's state); every schedule within the bound is exactly one solver-decided path. "
               "NodeMaker cache: symbolic choice among real cap strings and flags. Directory edits: real DirectoryNode methods over the real serializer.")
ASSUMPTIONS = [
    "the private serialized implementations (_overwrite, _modify, ...) are replaced by harness operations; what is checked is the "
    "serializer chain and the routing of the public methods through it, not what the operations do",
    "foolscap's eventual-send is a harness-owned queue: entries run one at a time from the top of the stack, in the order chosen by the schedule",
    "operations do not invoke serialized methods of the same node from inside their body (documented restriction of _do_serialized)",
    "node identity is claimed per NodeMaker and while the first node object is still referenced (the cache is a WeakValueDictionary)",
    "directory contents are a {name: (child, metadata)} dict (pack/unpack replaced by copies); an edit whose publish fails changes nothing",
]

_N = {"node": 0, "version": 1}


def _cases(n, kinds, rot=0, raw=False, need_sync=False, classes=("node", "version"), split=False, split2=False):
    out = []
    for c in classes:
        for k0 in ([[kinds[0]], kinds[1:]] if split else [None]):
            for k1 in ([[kinds[0]], kinds[1:]] if split2 else [None]):
                out.append({"cls": _N[c], "n": n, "kinds": kinds, "rot": rot, "raw": raw, "need_sync": need_sync, "k0in": k0, "k1in": k1,
                            "_label": "%s-n%d-r%d%s%s%s" % (c, n, rot, "-raw" if raw else "", "" if k0 is None else "-k0_" + "".join(map(str, k0)),
                                                            "" if k1 is None else "-k1_" + "".join(map(str, k1)))})
    return out


_ORDER_DESC = ("operation i+1's callable is not invoked before operation i's inner Deferred fired (success or failure), no two run at once, "
               "each is invoked exactly once with the caller's arguments, every operation starts once its predecessors are done (a failed "
               "operation does not block later ones), every caller is notified exactly once with its own result/failure, no failure leaks "
               "into the chain, the chain ends as a fired non-failed Deferred")
_OUTSIDE = ("what the operations themselves do (servermap update, retrieve, publish); more than n operations (the chain is memoryless: "
            "after each schedule it is checked to be a fired, unpaused, non-failed Deferred again)")

OBLIGATIONS = [
    chx("serialized_order", "C13_h", "h_serialized",
        cases={"quick": _cases(3, [0, 1], classes=("node",), split=True) + [_cases(3, [0, 1], classes=("version",), split=True)[1]] + _cases(2, [0, 1], raw=True)
               + _cases(2, [0, 1], rot=3, classes=("node",)) + _cases(2, [0, 1], rot=2, classes=("version",)),
               "thorough": _cases(3, [0, 1], rot=0, split=True) + _cases(3, [0, 1], rot=1, split=True) + _cases(3, [0, 1], rot=2, split=True) + _cases(3, [0, 1], raw=True, split=True)
               + _cases(4, [0], rot=0) + _cases(4, [1], rot=3)},
        timeout={"quick": 150, "thorough": 1500},
        desc="n operations requested through the real public methods of one node (download_best_version/overwrite/upload/modify/get_servermap; "
             "version: overwrite/modify/read/update; raw: _do_serialized itself with args and kwargs); every interleaving of the requests (in "
             "order) with the firing of the operations' inner Deferreds (any order, also before the operation was requested or started; each "
             "succeeding or failing): " + _ORDER_DESC,
        outside=_OUTSIDE),
    chx("serialized_sync_bodies", "C13_h", "h_serialized",
        cases={"quick": _cases(3, [0, 1, 2, 3], need_sync=True, classes=("node",)) + _cases(2, [0, 1, 2, 3], rot=1, need_sync=True, classes=("version",)),
               "thorough": _cases(3, [0, 1, 2, 3], rot=1, need_sync=True, split=True)},
        timeout={"quick": 150, "thorough": 1500},
        desc="same, where at least one operation body returns a plain value or raises synchronously instead of returning a Deferred: " + _ORDER_DESC,
        outside=_OUTSIDE),
    chx("serialized_notify", "C13_h", "h_serialized_notify",
        cases={"quick": _cases(2, [0, 1], rot=1) ,
               "thorough": _cases(3, [0, 1], rot=1, split=True, split2=True)},
        timeout={"quick": 150, "thorough": 1800},
        desc="same, with the delivery of each caller's notification (the eventual-send queued by _do_serialized) as separate schedule actions "
             "in any order relative to later requests/firings: the notification of caller i is queued as soon as operations 0..i are complete "
             "(it does not wait for later operations), later operations do not wait for it, and it carries caller i's own result",
        outside=_OUTSIDE),
    chx("node_cache", "C13_h", "h_node_cache",
        cases={"thorough": [{"ar1": a, "bl1": b, "_label": "first-%s-%s" % ("readcap" if a else "writecap", "blacklisted" if b else "plain")}
                            for a in (False, True) for b in (False, True)]},
        bounds={"quick": {"ncaps": 15, "pairs": "near"}, "thorough": {"ncaps": 15, "pairs": "all"}}, timeout={"quick": 150, "thorough": 1500},
        desc="NodeMaker.create_from_cap twice on one NodeMaker with caps chosen from 15 real cap strings (SSK x2, SSK-RO, MDMF, MDMF-RO, DIR2, "
             "DIR2-RO, DIR2-MDMF, CHK, DIR2-CHK, LIT, and MDMF / MDMF-RO / DIR2-MDMF / DIR2-MDMF-RO spelled with a ':k:segsize' extension suffix), deep_immutable flags, cap passed as writecap or readcap, blacklist on/off (quick: second cap = the same or one of the next two table entries, first call plain; thorough: all pairs and flags): equal cap string and "
             "equal deep_immutable for a mutable object => the very same node object (hence one serializer), also behind a ProhibitedNode "
             "wrapper, and the same backing file node for directories; different keys => different objects; every node carries the cap asked "
             "for; a mutable cap under deep_immutable yields an UnknownNode",
        outside="the cache is weak: identity is claimed while the first node is still referenced. The file node inside a DirectoryNode is NOT "
                "shared with a node created from the bare SSK/MDMF cap of the same file (different capability strings; outside the statement). "
                "Cap strings are drawn from a fixed table (symbolic index), not symbolic bytes"),
    chx("dir_edits_no_lost_update", "C13_h", "h_dir_edits",
        cases={"quick": [{"n": 2, "kinds": [0, 1], "_label": "n2"}],
               "thorough": [{"n": 3, "kinds": [0], "e0": e, "_label": "n3-allok-e%d" % e} for e in range(4)]
               + [{"n": 2, "kinds": [0, 1], "_label": "n2"}]},
        timeout={"quick": 150, "thorough": 1500},
        desc="real DirectoryNode.set_node/delete/set_metadata_for (Adder/Deleter/MetadataSetter.modify) on a real MutableFileNode whose "
             "serialized _modify is a read-at-start / write-at-finish store with schedule-controlled latency and failures: for every schedule "
             "and every choice of edits the final directory equals the sequential application, in request order, of the edits whose publish "
             "succeeded (no lost update), and every caller gets its own result",
        outside="pack/unpack of directory contents (C19/C20), retries inside modify (UncoordinatedWriteError loop), edits through two different "
                "node objects"),
]
