from vlib.spec import chx

EXPLANATION = ("CrossHair symbolic execution (z3) of the real directory modifiers (update_metadata, Adder/Deleter/MetadataSetter.modify) "
               "and of the real DirectoryNode.set_node/set_nodes/delete/set_metadata_for/move_child_to on a fake backing file, "
               "one operation from a symbolic pre-state, compared with an independent map model name -> (child, metadata).")
ASSUMPTIONS = [
    "histories are covered inductively: each operation maps a directory that equals the map model to one that equals the updated model "
    "(plus a bounded 2-operation history obligation); 30-step histories are not enumerated",
    "directory serialisation replaced by an identity codec that keeps the AuxValueDict cache semantics of _pack_normalized_children "
    "(real packing/unpacking is C19); pre-state = entry under U+00C5 with symbolic presence/kind/metadata shape + one bystander entry",
    "names come from a fixed table of 7 raw names (ASCII, precomposed, decomposed and compatibility forms of U+00C5 / U+00E9) with their "
    "NFC forms written down in the harness; other names / Unicode versions are outside the claim",
    "timestamps are symbolic integers supplied through a fake dirnode.time (no monotonicity assumed); metadata values are symbolic ints",
    "children are token nodes providing IFileNode / IDirectoryNode / IFilesystemNode only; MutableFileNode.modify modelled by its "
    "contract (exception or None => contents unchanged), with an optional injected UncoordinatedWriteError",
]
T = {"quick": 120, "thorough": 900}
ALLRAW = list(range(7))
OBLIGATIONS = [
    chx("update_metadata", "C20_h", "h_update_metadata", timeout=T,
        desc="dirnode.update_metadata: linkmotime=now; linkcrtime kept, else old ctime, else now; caller's 'tahoe' ignored, other old "
             "tahoe keys kept; metadata replaces user keys, None keeps them; result == metadata model; caller's dict not modified"),
    chx("adder", "C20_h", "h_adder", timeout=T,
        cases={"quick": [{"raw": [0, 4], "_label": "fresh_or_bystander"}, {"raw": [1], "_label": "same"}, {"raw": [2, 3], "_label": "nfc_equiv"}],
               "thorough": [{"raw": [i], "_label": "raw%d" % i} for i in ALLRAW]},
        desc="Adder.modify (entries= and set_node): symbolic overwrite mode, name (incl. NFC-equivalent spellings), presence/kind/read-only-ness "
             "of the existing child, shape of old and new metadata, no-write: result == map-model add, or ExistingChildError exactly when "
             "overwrite=False and present / ONLY_FILES and a directory is present, with the contents unchanged"),
    chx("adder_two", "C20_h", "h_adder_two", timeout=T,
        cases={"quick": [{"raw": [0, 1, 2], "_label": "k_A_A"}, {"raw": [2, 3, 4], "_label": "A_A_z"}],
               "thorough": [{"raw": [0, 1, 2, 3], "_label": "a"}, {"raw": [1, 2, 3, 4], "_label": "b"}, {"raw": [3, 4, 5, 6], "_label": "c"}]},
        desc="Adder.modify with two entries whose names may collide after normalisation: equals two sequential map-model adds; a refused "
             "second add leaves the contents unchanged"),
    chx("deleter", "C20_h", "h_deleter", timeout=T,
        desc="Deleter.modify: NoSuchChildError iff missing and must_exist and first_time (else no-op, returns None); ChildOfWrongTypeError iff "
             "must_be_directory and a file / must_be_file and a directory (unknown children always removable); else exactly that name removed, "
             "old_child is the removed child"),
    chx("mdsetter", "C20_h", "h_mdsetter", timeout=T,
        desc="MetadataSetter.modify: NoSuchChildError iff missing; else only that entry's metadata changes, per the metadata model; child kept "
             "(diminished to read-only iff resulting no-write is true and a create_readonly_node is given)"),
    chx("move", "C20_h", "h_move", timeout=T,
        desc="DirectoryNode.move_child_to with real set_node/delete/get_child_and_metadata on two fake-backed directories (or the same directory, "
             "also through a second node object): read-only => NotWriteableError; rename to the same normalised name in the same directory is a "
             "no-op; missing source => NoSuchChildError; refused or failed add (overwrite mode, injected UncoordinatedWriteError) => both "
             "directories unchanged (child stays under the old name); else target gains the child per the map-model add and the source loses exactly that name"),
    chx("dir_ops", "C20_h", "h_dir_ops", timeout=T,
        cases={"quick": [{"raw": [0, 1], "_label": "k_A"}, {"raw": [2, 4], "_label": "A2_z"}],
               "thorough": [{"raw": [i], "_label": "raw%d" % i} for i in ALLRAW]},
        desc="DirectoryNode.set_node / set_nodes / delete / set_metadata_for (real, incl. _create_readonly_node) on a fake backing file: result "
             "and final contents == map model; documented exception and contents unchanged otherwise; read-only directory => NotWriteableError "
             "without touching the backing file; has_child agrees"),
]
