from vlib.spec import chx

EXPLANATION = ("CrossHair symbolic execution (z3) of the real directory modifiers (update_metadata, Adder/Deleter/MetadataSetter.modify) "
               "and of the real DirectoryNode.set_node/set_nodes/delete/set_metadata_for/move_child_to on a fake backing file, "
               "one operation from a symbolic pre-state, compared with an independent map model name -> (child, metadata).")
ASSUMPTIONS = [
    "histories are covered inductively: each operation maps a directory that equals the map model to one that equals the updated model "
    "(plus a bounded 2-operation history obligation); 30-step histories are not enumerated",
    "directory serialisation replaced by an identity codec that keeps the AuxValueDict cache semantics of _pack_normalized_children "
    "(real packing/unpacking is C19); pre-state = entry under U+00C5 with symbolic presence/kind/metadata shape + one bystander entry",
    "names come from a fixed table of 7 raw names (ASCII, precomposed, decomposed and compatibility forms of U+00C5 / U+00E9) with their "
    "NFC forms written down in the harness; other names / Unicode versions are outside the claim",
    "timestamps are symbolic integers supplied through a fake dirnode.time (no monotonicity assumed); metadata values are symbolic ints",
    "children are token nodes providing IFileNode / IDirectoryNode / IFilesystemNode only; MutableFileNode.modify modelled by its "
    "contract (exception or None => contents unchanged), with an optional injected UncoordinatedWriteError",
]
T = {"quick": 150, "thorough": 1200}
R7 = list(range(7))
F, TR = [False], [True]


def _c(label, **kw):
    kw["_label"] = label
    return kw


OBLIGATIONS = [
    chx("update_metadata", "C20_h", "h_update_metadata", timeout=T,
        desc="dirnode.update_metadata: linkmotime=now; linkcrtime kept, else old ctime, else now; caller's 'tahoe' ignored, other old "
             "tahoe keys kept; metadata replaces user keys, None keeps them; result == metadata model; caller's dict not modified"),
    chx("adder", "C20_h", "h_adder", timeout=T,
        cases={"quick": [_c("overwrite", ow=[0, 1, 2], raw=[1, 2], a=[0, 1, 2, 3], shape=[0], n=[0], nm=[0, 6]),
                         _c("metadata", ow=[0], raw=[3], a=[0, 1, 4], n=[0]),
                         _c("diminish", ow=[0], raw=[0, 1], a=[0, 1], shape=[0], nm=[0, 3, 4, 5]),
                         _c("names", raw=R7, a=[0, 2], shape=[0], n=[0], nm=[0])],
               "thorough": [_c("raw%d_ow%d" % (r, o), raw=[r], ow=[o]) for r in R7 for o in range(3)]},
        desc="Adder.modify (entries= and set_node): symbolic overwrite mode, name (incl. NFC-equivalent spellings), presence/kind/read-only-ness "
             "of the existing child, shape of old and new metadata, no-write: result == map-model add, or ExistingChildError exactly when "
             "overwrite=False and present / ONLY_FILES and a directory is present, with the contents unchanged. Selector lists of each case are in its bounds "
             "(absent key = full range: ow 0..2, raw 0..6, a 0..4, shape 0..3, n 0..4, nm 0..7, 7 = a copy of the entry's current user metadata); first_time (retry flag) symbolic"),
    chx("adder_two", "C20_h", "h_adder_two", timeout=T,
        cases={"quick": [_c("collide", raw=[0, 1, 2], a=[0, 2], k=[0]),
                         _c("only_files", raw=[1, 2], ow=[2], a=[0, 1, 2], k=[0, 1]),
                         _c("bystander", raw=[3, 4], a=[0, 1], k=[0, 1], ow=[0, 1])],
               "thorough": [_c("r012", raw=[0, 1, 2]), _c("r1234", raw=[1, 2, 3, 4]), _c("r3456", raw=[3, 4, 5, 6])]},
        desc="Adder.modify with two entries whose names may collide after normalisation: equals two sequential map-model adds; a refused "
             "second add leaves the contents unchanged"),
    chx("deleter", "C20_h", "h_deleter", timeout=T,
        desc="Deleter.modify: NoSuchChildError iff missing and must_exist and first_time (else no-op, returns None); ChildOfWrongTypeError iff "
             "must_be_directory and a file / must_be_file and a directory (unknown children always removable); else exactly that name removed, "
             "old_child is the removed child"),
    chx("mdsetter", "C20_h", "h_mdsetter", timeout=T,
        cases={"quick": [_c("names", raw=R7, a=[0, 1], shape=[0], nm=[1]),
                         _c("metadata", raw=[2], a=[1, 2, 3, 4])],
               "thorough": [_c("raw%d" % r, raw=[r]) for r in R7]},
        desc="MetadataSetter.modify: NoSuchChildError iff missing; else only that entry's metadata changes, per the metadata model; child kept "
             "(diminished to read-only iff resulting no-write is true and a create_readonly_node is given); also when the requested metadata equals the current user metadata or is {}: "
             "new contents are returned and linkmotime == now"),
    chx("move", "C20_h", "h_move", timeout=T,
        cases={"quick": [_c("readonly", ow=[0], src_raw=[1], dst_raw=[0], sa=[1], ta=[0], fail_add=F),
                         _c("cross_overwrite", where=[0], src_raw=[2], dst_raw=[1, 3], sa=[1, 2], fail_add=F, src_rdonly=F, dst_rdonly=F),
                         _c("cross_fail", where=[0], ow=[0, 1], src_raw=[1, 2], dst_raw=[0, 3], sa=[0, 1], ta=[0, 1], src_rdonly=F, dst_rdonly=F),
                         _c("same_dir", where=[1, 2], src_rdonly=F, dst_rdonly=F, fail_add=F, ta=[0])],
               "thorough": [_c("readonly", ow=[0], sa=[0, 1], ta=[0, 1], fail_add=F),
                            _c("cross_ow0", where=[0], ow=[0], src_rdonly=F, dst_rdonly=F),
                            _c("cross_ow1", where=[0], ow=[1], src_rdonly=F, dst_rdonly=F),
                            _c("cross_ow2", where=[0], ow=[2], src_rdonly=F, dst_rdonly=F),
                            _c("same_dir", where=[1, 2], src_rdonly=F, dst_rdonly=F, fail_add=F, ta=[0])]},
        desc="DirectoryNode.move_child_to with real set_node/delete/get_child_and_metadata on two fake-backed directories (or the same directory, "
             "also through a second node object): read-only => NotWriteableError; rename to the same normalised name in the same directory is a "
             "no-op; missing source => NoSuchChildError; refused or failed add (overwrite mode, injected UncoordinatedWriteError) => both "
             "directories unchanged (child stays under the old name); else target gains the child per the map-model add and the source loses exactly that name"),
    chx("dir_ops", "C20_h", "h_dir_ops", timeout=T,
        cases={"quick": [_c("add", op=[0, 1], raw=[0, 2], a=[0, 1, 2], shape=[0], n=[0], nm=[0, 4]),
                         _c("delete", op=[2], raw=[0, 2, 4]),
                         _c("setmd", op=[3], raw=[0, 3], a=[0, 1, 3, 4], shape=[0, 1], nm=[1, 4, 6, 7])],
               "thorough": [_c("add_raw%d" % r, op=[0, 1], raw=[r], shape=[0, 1]) for r in (0, 1, 2, 3, 4, 6)] +
                           [_c("delete", op=[2]), _c("setmd", op=[3])]},
        desc="DirectoryNode.set_node / set_nodes / delete / set_metadata_for (real, incl. _create_readonly_node) on a fake backing file: result "
             "and final contents == map model; documented exception and contents unchanged otherwise; read-only directory => NotWriteableError "
             "without touching the backing file; has_child agrees"),
    chx("history2", "C20_h", "h_history2", timeout=T,
        cases={"quick": [_c("add_add", op1=[0], op2=[0], sa=[0, 2], pa=[0], raws=[1, 2], nm=[False]),
                         _c("add_setmd_delete", op1=[0], op2=[1, 2], sa=[0, 1], pa=[0], ow=[0, 2], nm=[False, True]),
                         _c("move_then", op1=[3], op2=[0, 3], sa=[1], pa=[0, 2], ow=[0, 1], raws=[1, 2], dsts=[2, 4], nm=[False]),
                         _c("rename_then", op1=[4], op2=[2, 4], sa=[1, 2], pa=[0], ow=[0, 2], raws=[1, 2], dsts=[0, 2], nm=[False]),
                         _c("setmd_twice", op1=[2], op2=[2], sa=[0, 1, 2], pa=[0])],
               "thorough": [_c("op%d_op%d" % (a, b), op1=[a], op2=[b], nm=[False, True] if (a == 0 and b in (1, 2)) else [False],
                               pa=[0, 2] if 3 in (a, b) else [0], dsts=[2, 4] if 3 in (a, b) else [0, 2, 4]) for a in range(5) for b in range(5)]},
        desc="every pair of operations from {set_node, delete, set_metadata_for, move to another directory, rename within the directory} on two fake-backed real "
             "DirectoryNodes with symbolic names (same / NFC-equivalent / other), overwrite modes and symbolic timestamps now1, now2: outcome and both directories equal the "
             "map model after each step (in particular: a link's linkcrtime survives the second operation while its linkmotime becomes now2; a failed step changes nothing)"),
]
