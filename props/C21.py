from vlib.spec import chx

EXPLANATION = ("CrossHair (z3) exploration of the real DirectoryNode.deep_traverse/_deep_traverse_dirnode/_deep_traverse_dirnode_children, ManifestWalker and DeepStats over "
               "all directory graphs on a fixed small set of objects: the adjacency bits are symbolic (path-per-input: every graph within the bound is explored, the solver "
               "decides the bit arithmetic), compared with a reachability model computed by fixpoint iteration.")
ASSUMPTIONS = [
    "graphs of at most 3 objects in the quick tier and 4 in the thorough tier (at most 3 of them directories; root directory + directories/files of fixed kinds per case), every subset of edges incl. self-loops, "
    "back edges and shared subdirectories; optionally a second node object for the same storage object (same verify cap) linked next to it; 40-node graphs are outside the claim",
    "directory nodes are real DirectoryNode instances whose list() returns an already-fired Deferred (no mutable-file retrieval, no ConcurrencyLimiter, no turn breaks: "
    "fireEventually is only used after 100 files in one directory); DeepChecker (check/repair per node) is not driven",
    "'exactly once' is claimed for objects that have a verify cap (directories, CHK and mutable files); literal files, literal (DIR2-LIT) directories and unknown caps have none: as "
    "the code documents, they are reported (and literal directories descended into) once per link from a visited directory; literal directories hold immutable files only",
]
T = {"quick": 150, "thorough": 1200}


def _c(label, kinds, alias_pairs=(), walkers=None):
    d = {"_label": label, "kinds": list(kinds), "alias_pairs": [list(p) for p in alias_pairs]}
    if walkers is not None:
        d["walkers"] = walkers
    return d


OBLIGATIONS = [
    chx("traverse", "C21_h", "h_traverse", timeout=T,
        cases={"quick": [_c("DDD_rec", "DDD", walkers=[0]), _c("DDC_stats", "DDC", walkers=[1, 2]),
                         _c("DDC_alias", "DDC", alias_pairs=[(0, 2), (1, 1)], walkers=[0]), _c("DML", "DML", alias_pairs=[(0, 1)]),
                         _c("DDU", "DDU", alias_pairs=[(1, 0)], walkers=[0]), _c("DDL_stats", "DDL", walkers=[1, 2]),
                         _c("DEC_litdir", "DEC"), _c("DEL_litdir", "DEL", walkers=[0, 1])],
               "thorough": [_c("DDD_all", "DDD"), _c("DDDC_rec", "DDDC", walkers=[0]),
                            _c("DDC_alias", "DDC", alias_pairs=[(0, 2), (1, 1), (1, 0)]), _c("DDCL", "DDCL", alias_pairs=[(1, 2)]),
                            _c("DDMU", "DDMU", alias_pairs=[(1, 0)]), _c("DCML", "DCML", alias_pairs=[(0, 1), (0, 2)]),
                            _c("DDEC_litdir", "DDEC"), _c("DECL_litdir", "DECL")]},
        desc="deep_traverse with a recording walker, build_manifest (ManifestWalker) and start_deep_stats (DeepStats) on every graph over the case's objects: the traversal finishes "
             "(cycles terminate); every reachable object with a verify cap is reported exactly once and no unreachable one; each directory is listed and entered exactly once; every "
             "reported path resolves, name by name from the root, to the reported node; the root comes first with the empty path; manifest entries/verifycaps/storage-index sets and the "
             "deep-stats counters and sizes equal the model's"),
]
