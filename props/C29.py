from vlib.spec import chx

EXPLANATION = ("CrossHair symbolic execution (z3) of real storage operations on an in-memory file system with a SYMBOLIC CRASH INDEX c: "
               "the first c low-level mutating calls are applied, the next one kills the process; the container is then re-opened "
               "with the real constructors and compared with the pre-state. Known crash windows are narrow witness classes "
               "(known_findings.json) that are excluded after being hit; every other crash point is still decided.")
ASSUMPTIONS = [
    "crash = process kill between two low-level mutating calls (open-for-create, write, truncate, rename, unlink, rmdir, makedirs); "
    "each such call is atomic and durable once it returned (page cache survives a process kill); flush() is not a separate point",
    "torn single write() calls, fsync/rename durability across power loss, and concurrent operations are outside the claim",
    "pre-states: immutable share with 1..2 (thorough 3) leases; mutable container satisfying its representation invariant with "
    "4 in-header leases and 0..1 (thorough 2) extra leases; sizes symbolic",
    "for the share being written by an interrupted data write only its leases and header geometry are asserted (the property exempts "
    "its data)",
    "cancel_lease is included because the lease expirer calls it on live shares",
]
T = {"quick": 120, "thorough": 900}
BD = {"quick": {"dlen_max": 2**40, "n_max": 2, "nx_max": 1}, "thorough": {"dlen_max": 2**62, "n_max": 3, "nx_max": 2}}
NX = {"quick": [{"nx": 0, "_label": "nx0"}, {"nx": 1, "_label": "nx1"}], "thorough": [{"nx": i, "_label": "nx%d" % i} for i in range(3)]}
OBLIGATIONS = [
    chx("imm_add_lease", "C29_h", "h_imm_add_lease", bounds=BD, timeout=T,
        desc="ShareFile.add_lease killed after c calls, re-opened with ShareFile.__init__ (size-derived offsets): data length and probe "
             "byte unchanged, old leases intact, lease list is old or old+new"),
    chx("imm_renew_lease", "C29_h", "h_imm_renew_lease", bounds=BD, timeout=T,
        desc="ShareFile.renew_lease killed after c calls: data unchanged, other leases intact, renewed lease is old or new record"),
    chx("imm_cancel_lease", "C29_h", "h_imm_cancel_lease", bounds=BD, timeout=T,
        desc="ShareFile.cancel_lease (used by the lease expirer) killed after c calls: data unchanged, no non-cancelled lease lost; the "
             "file disappears only when its last lease was cancelled and only as the final step"),
    chx("mut_write", "C29_h", "h_mut_write", bounds=BD, cases=NX, timeout=T,
        desc="MutableShareFile.writev (container growth, lease relocation, zero fill) killed after c calls: header geometry consistent, "
             "all in-header and extra leases still readable and unchanged"),
    chx("mut_add_lease", "C29_h", "h_mut_add_lease", bounds=BD, timeout=T,
        desc="MutableShareFile.add_lease (free slot / new extra lease) killed after c calls: data length and probe byte unchanged, old "
             "leases intact and readable, list is old or old+new"),
    chx("mut_renew_lease", "C29_h", "h_mut_renew_lease", bounds=BD, timeout=T,
        desc="MutableShareFile.renew_lease killed after c calls: data unchanged, other leases intact, renewed lease old or new"),
    chx("upload", "C29_h", "h_upload", bounds=BD, timeout=T,
        desc="BucketWriter.__init__ / write (two out-of-order writes) / close killed after c of the ~10 calls, then restart "
             "(StorageServer._clean_incomplete, get_shares): incoming/ is discarded; the share is either absent or visible with the "
             "full length, the written bytes (probe) and its lease"),
    chx("delete_sibling", "C29_h", "h_delete_sibling", bounds=BD, timeout=T,
        desc="StorageServer._evaluate_write_vectors deleting one or two of the 2..3 mutable shares of a slot (new_length == 0), killed "
             "after c calls or completing: the share the request does not name keeps its container, data (probe) and all leases"),
]
