from vlib.spec import chx

EXPLANATION = ("CrossHair symbolic execution (z3) over a symbolic SegmentFetcher state (share records, k, flags) and a symbolic event; every path realises one "
               "(state, event) pair (path-per-state, DESIGN 1.4) and runs the real SegmentFetcher methods on it; the outcome is compared with an independent "
               "set-level model of which share numbers are validated / outstanding / untried.")
ASSUMPTIONS = [
    "one-step (inductive) form: the pre-state is any fetcher state satisfying the representation invariant (at most one active request per share number, outstanding "
    "requests per server <= diversity limit, observers/_shares_from_server consistent, fewer than k validated blocks while running); the step is checked to re-establish it",
    "events are processed one at a time with the eventual-send queue drained after each (foolscap eventually() replaced by a FIFO harness queue); two notifications "
    "arriving before the loop runs, Deferred/eventual ordering, ShareFinder (DYHB queries, overdue timers) and Share internals are outside the claim",
    "the finder reports each (server, share number) at most once; all shares have the same round-trip time",
    "availability_read: downloader.share.Share is replaced by a scripted share whose fate (good/corrupt/dead/late) is symbolic; servers answer with already-fired Deferreds; "
    "decode is an injected success (zfec is C36); see harness/C46_h.py",
    "path-per-state: 'Confirmed over all paths' is bounded-exhaustive over the stated numbers of share records / share numbers / servers / k",
    "after every input is fixed by a solver-decided fork the real code runs on the realised state with opcode tracing off (identical result on concrete data)",
]

OBLIGATIONS = [
    chx("commonshare_authoritative", "C03_h", "h_commonshare", bounds={"quick": {"NSEGMAX": 3}, "thorough": {"NSEGMAX": 5}}, timeout={"quick": 120, "thorough": 900},
        cases={"quick": [{"real": r, "_label": "real%d" % r} for r in (1, 2, 3)], "thorough": [{"real": r, "_label": "real%d" % r} for r in (1, 2, 3, 4, 5)]},
        desc="real ShareFinder._create_share / update_num_segments / CommonShare for every sequence of up to 4 events (a DYHB answer announces share number 0..2, or the UEB "
             "is validated - at most once), guessed and real segment counts symbolic: shares with the same number get the same CommonShare; once the UEB is known EVERY CommonShare - "
             "also one created afterwards for a share number not seen before - is authoritative, sized for the real segment count and accepts its block hash root (otherwise a good "
             "late share is abandoned and the read can fail with >= k good shares); before that it carries the guess",
        outside="the rest of validate_and_store_UEB (hash check, parsing: C02/C01)"),
    chx("desire_real_geometry", "C03_h", "h_desire", bounds={"quick": {"MMAX": 3, "SIZEMAX": 16, "SEGMAX": 3}, "thorough": {"MMAX": 4, "SIZEMAX": 30, "SEGMAX": 5}},
        cases={"quick": [{"k": k, "_label": "k%d" % k} for k in (1, 2, 3)], "thorough": [{"k": k, "_label": "k%d" % k} for k in (1, 2, 3)]},
        timeout={"quick": 120, "thorough": 1200},
        desc="real Share.__init__/_guess_offsets/get_block/_desire/_desire_data for a Share created while the node was still guessing the segment size and that did NOT validate "
             "the UEB itself: after the node's real geometry is known (guess and real segment size symbolic, equal or not) and the share has its real offset table, the bytes it "
             "desires inside the block-data region for segment s are exactly the writer's block span offsets['data'] + s*block_size (tail block length for the last segment), and "
             "they are 'needed' (otherwise it asks at the wrong offset and its request never completes: the fetcher stalls)",
        outside="guessing phase (no offset table yet); hash-chain spans (C02)"),
    chx("share_truncated", "C03_h", "h_share_trunc", bounds={"quick": {"SPAN": 2}, "thorough": {"SPAN": 4}}, timeout={"quick": 120, "thorough": 1200},
        cases={"thorough": [{"nobs": n, "fr": f, "_label": "obs%d%s" % (n, ".readfail" if f else "")} for n in (1, 2) for f in (0, 1)]},
        desc="real Share.get_block/loop/_do_loop/_send_requests/_got_data/_got_error/_trigger_loop/_fail against a server holding a share image of symbolic length (answers "
             "past the end are short or EMPTY) or whose reads fail, with symbolic wanted/needed spans and 1-2 waiting block requests: exactly the desired bytes are requested; "
             "if a needed byte can never arrive the share is abandoned and every waiting request gets DEAD (DataUnavailable for a truncated image), so the fetcher can fail over "
             "(fetcher_step shows it then uses other shares); otherwise the share stays alive, nothing is left pending, received/unavailable are exactly what the server did and "
             "did not supply; the loop terminates",
        outside="what Share validates from the received bytes (_get_satisfaction is stubbed: C02)"),
    chx("availability_read", "C46_h", "h_read",
        bounds={"quick": {"NSRV": 2, "NF": 3}, "thorough": {"NSRV": 3, "NF": 3}},
        cases={"quick": [{"k": k, "LATE": l, "a0both": b, "_label": "k%d%s%s" % (k, ".late" if l else "", ".both" if b else "")}
                         for k in (1, 2) for l in (0, 1) for b in (0, 1)]
                        + [{"k": k, "LATE": 2, "FATEMAP": [0, 1, 5], "a0both": b, "_label": "k%d.idle%s" % (k, ".both" if b else "")} for k in (1, 2) for b in (0, 1)],
               "thorough": [{"k": k, "a0": a, "_label": "3srv.k%da%d" % (k, a)} for k in (1, 2) for a in range(5)]
                           + [{"k": k, "a0": a, "LATE": 1, "_label": "3srv.late.k%da%d" % (k, a)} for k in (1, 2) for a in range(5)]
                           + [{"k": k, "a0": a, "LATE": 2, "FATEMAP": [0, 1, 5], "_label": "3srv.idle.k%da%d" % (k, a)} for k in (1, 2) for a in range(5)]
                           + [{"k": k, "a0": a, "NSRV": 2, "NF": 5, "_label": "2srv5f.k%da%d" % (k, a)} for k in (1, 2) for a in (2, 3, 4)]
                           + [{"k": k, "a0": a, "NSRV": 2, "NF": 5, "LATE": 1, "_label": "2srv5f.late.k%da%d" % (k, a)} for k in (1, 2) for a in (2, 3, 4)]},
        timeout={"quick": 150, "thorough": 1500},
        desc="the property statement at the level of one segment read: real ShareFinder + real SegmentFetcher + real DownloadNode request life cycle against NSRV servers, each "
             "answering the share query with an error / nothing / share 0 / share 1 / both, each share good, dead, overdue-then-good (thorough: also corrupt, overdue-then-dead), "
             "notifications oldest-first or newest-first, optionally a second read on the same node; LATE cases: at least one server answers the share query only after the finder's "
             "overdue timer for that query has fired (the harness fires the timer, then delivers the answer): the read delivers data iff at least k distinct share numbers have a good "
             "share on ANY server that eventually answers (and decodes only from good blocks), otherwise it fails with NotEnoughSharesError/NoSharesError; it fires exactly once. IDLE cases: at least one late answer "
             "(it may land while the node is idle after the first read), shares may be good for the first read and dead afterwards, and a second read on the same node must "
             "succeed iff k distinct share numbers are still good on the servers that have answered by then (shares announced while idle are not lost)",
        outside="Share internals (block/hash validation is scripted as the share's fate), overdue timers firing by time, more than 2 share numbers / 3 servers, other interleavings"),
    chx("fetcher_step", "C03_h", "h_step",
        bounds={"quick": {"NREC": 2, "NSH": 2, "NSV": 2, "KMAX": 2, "LIMIT": 2}, "thorough": {"NREC": 3, "NSH": 3, "NSV": 2, "KMAX": 3, "LIMIT": 2}},
        cases={"quick": [{"k": k, "nms": m, "limit": l, "s0lo": z, "_label": "k%dm%dl%d%s" % (k, m, l, "a" if z else "b")}
                         for k in (1, 2) for m in (0, 1) for l in (1, 2) for z in (1, 0)],
               "thorough": [{"k": k, "nms": m, "limit": l, "NREC": 2, "NSH": 3, "_label": "2rec3sh.k%dm%dl%d" % (k, m, l)} for k in (1, 2, 3) for m in (0, 1) for l in (1, 2)]
                           + [{"k": k, "nms": m, "limit": l, "NREC": 3, "NSH": 2, "n": 3, "_label": "3rec2sh.k%dm%dl%d" % (k, m, l)} for k in (1, 2) for m in (0, 1) for l in (1, 2)]
                           + [{"k": 2, "nms": m, "limit": 1, "NREC": 3, "NSH": 3, "n": 3, "_label": "3rec3sh.k2m%dl1" % m} for m in (0, 1)]},
        timeout={"quick": 150, "thorough": 1500},
        desc="SegmentFetcher.loop/_do_loop/_find_and_use_share/_block_request_activity/_no_shares_error/add_shares/no_more_shares/stop: one event (loop run, add_shares, "
             "no_more_shares, or OVERDUE/COMPLETE/CORRUPT/DEAD/BADSEGNUM from an outstanding request) from an arbitrary valid state. (a) fetch_failed only when the finder is "
             "exhausted and fewer than k distinct share numbers are validated/outstanding/untried, NoSharesError iff nothing at all, else NotEnoughSharesError; (b) process_blocks "
             "exactly when k validated blocks exist, with exactly those blocks; (c) otherwise the fetcher is alive: a request is outstanding or it asked the finder for more, and it "
             "fails the fetch when the finder is exhausted and too few share numbers remain; (d) with fewer than k numbers validated/active no usable share is left unused (the "
             "diversity limit only postpones); get_block is called once per started share; the representation invariant is re-established; BadSegmentNumberError past the end",
        outside="ShareFinder, Share, timers, transport-level disconnects, interleavings of notifications inside the eventual-send queue"),
]
