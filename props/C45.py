from vlib.spec import chx

EXPLANATION = ("CrossHair symbolic execution (z3) of the real verifier / checker code (immutable/checker.py, filenode._gather_repair_results) with symbolic "
               "UEB fields, symbolic adversarial hash lists and block contents (ideal hash), and symbolic per-(server,share) verdict bits.")
ASSUMPTIONS = [
    "ideal hash as in C35/C02 (pair_hash injective; block_hash / uri_extension_hash map a symbolic content id injectively to a hash id)",
    "UEB string codec (uri.unpack_extension, codec.parse_params / get_serialized_params) replaced by identity stubs on field values (C38 covers the codec)",
    "health classification: <= 2 servers x <= 3 share numbers, share numbers < N (in check-without-verify mode the servers' claims are believed by design)",
    "the verifier's per-share call sequence is the one in Checker._download_and_verify (get_all_sharehashes, get_all_blockhashes, get_block(0..n-1)); "
    "remote calls return already-fired Deferreds",
    "the repair upload itself, 'never alters existing good shares', and reading back from repaired shares are outside (C01/C02 cover the read path)",
]
T = {"quick": 120, "thorough": 1500}
KS_Q = [1, 2, 3]
GROUPS = ["cp", "tcp", "sizes", "kn"]
KN2 = [[1, 1], [1, 2], [2, 2]]
KN3 = KN2 + [[1, 3], [2, 3], [3, 3]]
OBLIGATIONS = [
    chx("ueb_consistency", "C45_h", "h_ueb_sound", timeout=T,
        bounds={"quick": {"size_max": 2**32, "seg_max": 2**24}, "thorough": {"size_max": 2**48, "seg_max": 2**32}},
        cases={"quick": [{"k": k, "group": g, "_label": "k%d_%s" % (k, g)} for k in (1, 3) for g in GROUPS],
               "thorough": [{"k": k, "group": g, "_label": "k%d_%s" % (k, g)} for k in (1, 2, 3, 4, 5, 7, 16) for g in GROUPS] +
                           [{"k": 3, "_label": "k3_anysubset"}]},
        desc="ValidatedExtendedURIProxy._parse_and_validate with symbolic UEB fields (each redundant field present or absent): accepted <=> every present redundant "
             "field (codec_name, codec_params, tail_codec_params, num_segments, size, needed_shares, total_shares, crypttext_hash length) equals the value derived "
             "from the cap and segment_size; derived block_size/num_segments/tail sizes/share_size are the ceil/least-multiple definitions"),
    chx("ueb_completeness", "C45_h", "h_ueb_complete", timeout=T,
        bounds={"quick": {"size_max": 2**32, "seg_max": 2**24}, "thorough": {"size_max": 2**48, "seg_max": 2**32}},
        cases={"quick": [{"k": k, "_label": "k%d" % k} for k in KS_Q], "thorough": [{"k": k, "_label": "k%d" % k} for k in (1, 2, 3, 4, 5, 7, 16)]},
        desc="the UEB produced by Encoder._got_all_encoding_parameters for any (size, max_segment_size, k, N) is accepted by _parse_and_validate, the verifier's derived "
             "sizes equal the encoder's, and ValidatedReadBucketProxy.get_block requests exactly the encoder's tail block size for the last block"),
    chx("last_block_size", "C45_h", "h_last_block", timeout=T,
        desc="ValidatedReadBucketProxy.get_block: requests block_size bytes for every block but the last and exactly the tail block size for the last one "
             "(share_size = (n-1)*block_size + tail_block_size, symbolic)"),
    chx("ueb_hash_gate", "C45_h", "h_ueb_hash", timeout=T,
        desc="ValidatedExtendedURIProxy._check_integrity: returns the bytes iff their hash is the cap's uri_extension_hash, else BadURIExtensionHashValue"),
    chx("health_classification", "C45_h", "h_format", timeout=T, bounds={"quick": {"nsh": 2}, "thorough": {"nsh": 3}},
        cases={"quick": [{"kn": kn, "_label": "k%d_n%d" % tuple(kn)} for kn in KN2], "thorough": [{"kn": kn, "_label": "k%d_n%d" % tuple(kn)} for kn in KN3]},
        desc="Checker._format_results with symbolic verified/corrupt/incompatible bits for 2 servers x 3 shares: healthy <=> N distinct verified share numbers, "
             "recoverable <=> >= k, counts/sharemap/corrupt+incompatible lists/servers_responding exact, happiness == maximum matching (path-per-input)"),
    chx("repair_classification", "C45_h", "h_repair_results", timeout=T, bounds={"quick": {"nsh": 2}, "thorough": {"nsh": 3}},
        cases={"quick": [{"kn": kn, "_label": "k%d_n%d" % tuple(kn)} for kn in KN2], "thorough": [{"kn": kn, "_label": "k%d_n%d" % tuple(kn)} for kn in KN3]},
        desc="CiphertextFileNode._gather_repair_results: post-repair sharemap == old good shares + uploaded shares; healthy/repair_successful <=> N distinct, "
             "recoverable <=> >= k; pre-repair results not modified (path-per-input)"),
    chx("verify_share_gate", "C45_h", "h_verify_share", timeout=T, bounds={"quick": {"vtier": 1}},
        cases={"quick": [{"nb": nb, "m": m, "_label": "nb%d_m%d" % (nb, m)} for nb in (1, 2) for m in (0, 1, 2)],
               "thorough": [{"nb": nb, "m": m, "vtier": vt, "_label": "nb%d_m%d_vt%d" % (nb, m, vt)} for nb in (1, 2) for m in (0, 1, 2) for vt in (1, 2)]},
        desc="ValidatedReadBucketProxy driven as Checker._download_and_verify does (get_all_sharehashes, get_all_blockhashes, get_block for every block) against an "
             "adversarial bucket (symbolic share-hash chain entries, block hash list, block contents): all blocks returned (share reported good) => every block is the "
             "genuine block and both trees hold only genuine nodes; failure => BadOrMissingHash; a completely genuine share verifies"),
    chx("verify_ciphertext_hashes", "C45_h", "h_verify_ct", timeout=T, bounds={"quick": {"vtier": 1}},
        desc="ValidatedReadBucketProxy.get_all_crypttext_hashes: accepted <=> the complete list equals the genuine ciphertext hash tree; else BadOrMissingHash, tree unchanged"),
    chx("download_and_verify_verdict", "C45_h", "h_download_verify", timeout=T, bounds={"quick": {"vtier": 1}},
        cases=[{"m": m, "_label": "m%d" % m} for m in (0, 1, 2)],
        desc="Checker._download_and_verify end to end for one share (real ValidatedExtendedURIProxy + ValidatedReadBucketProxy, adversarial UEB bytes, share-hash chain, "
             "block/ciphertext hash lists and block; 1 segment, k=1, N=2): verdict (True, sharenum, None) => UEB, block and both hash lists are the genuine ones; "
             "anything else => (False, sharenum, 'corrupt'), never an errback; a genuine share is reported good"),
    chx("all_blocks_verified", "C45_h", "h_all_blocks", timeout=T, bounds={"quick": {"n_max": 4}, "thorough": {"n_max": 6}},
        desc="Checker._download_and_verify/_get_blocks with recording stand-ins for the two validated proxies (num_segments 1..n_max, symbolic failing block; block fetches answered asynchronously, "
             "i.e. their Deferreds fire only after the fetch chain has been built): "
             "share/block/ciphertext hash validation run first with the UEB's parameters; the share is reported good only after get_block was called for exactly "
             "0..num_segments-1 in order and none failed; a failing block gives (False, sharenum, 'corrupt')"),
    chx("repairer_parameters", "C45_h", "h_repairer_params", timeout=T,
        desc="Repairer.start + its IEncryptedUploadable methods (symbolic size, k, N, segment size, read lengths): the encoder gets (k, N) from the verify cap, the size "
             "from the filenode and exactly the file's own segment size from filenode.get_segment_size() (so the re-encoded UEB can equal the original, with "
             "ueb_completeness); ciphertext is read sequentially from offset 0",
        outside="the upload itself (CHKUploader, server selection), 'never alters existing good shares', reading back from repaired shares"),
    chx("repair_reports_written_shares", "C45_h", "h_repair_chain", timeout=T,
        desc="real CHKUploader._encrypted_done output fed into real CiphertextFileNode._gather_repair_results (N=3, symbolic old good shares, buckets allocated on a "
             "new server, symbolic subset of them whose writer completed = Encoder.get_shares_placed()): the post-repair sharemap lists exactly old good shares + "
             "completed writers (never an allocated bucket whose writer failed); healthy/repair_successful <=> those are N distinct shares; pushed_shares == completed",
        outside="the push itself and the encoder's bookkeeping of failed writers (C06 reported_placements / C01); byte-completeness of a completed share (C22)"),
]
