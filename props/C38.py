from vlib.spec import chx, pyob

EXPLANATION = ("z3 bit-vector/integer queries generated from the live base32 tables, regex constants and struct format strings; CrossHair "
               "symbolic execution of the real base32/base62/netstring/UEB/lease/header codecs (byte-level inputs pinned over small alphabets, "
               "integer fields symbolic through FakeStruct).")
ASSUMPTIONS = [
    "base32 mathematical definition (RFC 3548/4648 without padding): q characters carry 5q bits of which the first 8*floor(5q/8) are data; "
    "q is legitimate iff fewer than 5 bits are left over; the left-over low bits of the last character must be zero",
    "byte-level obligations are path-per-input over a small alphabet / one varying byte (CrossHair enumerates the pinned values on the real functions)",
    "lease records and container headers: struct pack/unpack replaced by FakeStruct (field lists, real range checks and sizes); the real struct "
    "module's byte layout is tied in by the z3 size obligations",
    "base62 is not called by production code (tests only); its a2b does not reject bytes outside the alphabet (translate() leaves them unchanged) — "
    "only the round trip is claimed for base62",
]


def _b32_live():
    from vlib import hlib
    hlib.ensure_shims()
    from allmydata.util import base32
    hlib.encoded(base32.init_s8, base32.get_trailing_chars_without_lsbs, base32._get_trailing_chars_without_lsbs,
                 base32.could_be_base32_encoded, base32.a2b, base32.b2a)
    return base32


def b32_trailing_table(ctx):
    """z3: the table s8 behind could_be_base32_encoded accepts a last character exactly when the string length is
    legitimate and the character's left-over low bits are zero (canonical encodings only, all of them)."""
    import time
    import z3
    base32 = _b32_live()
    t0 = time.time()
    r = z3.BitVec("r", 8)        # len(s) % 8
    c = z3.BitVec("c", 8)        # last character (byte value)
    # live tables -> z3 functions
    accepted = z3.BoolVal(False)
    for rr in range(8):
        for cc in range(256):
            if base32.s8[rr][cc]:
                accepted = z3.Or(accepted, z3.And(r == rr, c == cc))
    in_alpha = z3.BoolVal(False)
    val = z3.BitVecVal(0, 8)
    for i, ch in enumerate(base32.chars):
        in_alpha = z3.Or(in_alpha, c == ch)
        val = z3.If(c == ch, z3.BitVecVal(i, 8), val)
    # mathematical definition
    left = z3.URem(5 * r, 8)                      # bits left over after whole bytes: 5q mod 8
    legit = z3.ULT(left, 5)
    mask = (z3.BitVecVal(1, 8) << left) - 1
    spec = z3.And(in_alpha, legit, (val & mask) == 0)
    dom = z3.ULT(r, 8)
    q = 0
    res = {}
    for name, f in (("accepts_noncanonical", z3.And(dom, accepted, z3.Not(spec))),
                    ("rejects_canonical", z3.And(dom, spec, z3.Not(accepted))),
                    ("nonvacuous", z3.And(dom, accepted, spec, r != 0))):
        s = z3.Solver()
        s.add(f)
        q += 1
        res[name] = (s.check(), s.model() if s.check() == z3.sat else None)
    out = {"queries": q, "solver_s": round(time.time() - t0, 3), "nonvacuous": res["nonvacuous"][0] == z3.sat}
    for name in ("accepts_noncanonical", "rejects_canonical"):
        if res[name][0] == z3.sat:
            m = res[name][1]
            rr, cc = m[r].as_long(), m[c].as_long()
            length = rr if rr else 8
            s_ = "a" * (length - 1) + chr(cc)
            out.update(status="violated", model={"len_mod_8": rr, "last_char": chr(cc), "string": s_, "kind": name})
            out["replay_src"] = (
                "import sys\nsys.path.insert(0, '/verif')\nfrom vlib import hlib\nhlib.ensure_shims()\n"
                "from allmydata.util import base32\ns = %r\n"
                "ok = base32.could_be_base32_encoded(s)\nprint('string', s, 'accepted:', bool(ok))\n"
                "if %r == 'accepts_noncanonical':\n"
                "    if not ok: sys.exit(0)\n"
                "    d = base32.a2b(s)\n    print('decodes to', d, 'whose encoding is', base32.b2a(d))\n"
                "    sys.exit(1 if base32.b2a(d) != s else 0)\n"
                "else:\n    sys.exit(1 if not ok else 0)\n" % (s_.encode("latin-1"), name))
            return out
        if res[name][0] != z3.unsat:
            out.update(status="inconclusive", info="solver said %s" % (res[name][0],))
            return out
    out.update(status="discharged", info="s8 accepts exactly the canonical last characters for every length residue")
    return out


def b32_length_tables(ctx):
    """z3: NUM_OS_TO_NUM_QS / NUM_QS_TO_NUM_OS / NUM_QS_LEGIT / NUM_QS_TO_NUM_BITS and the BASE32CHAR_nbits classes used by the
    cap regexes agree with the arithmetic definition."""
    import re
    import time
    import z3
    base32 = _b32_live()
    t0 = time.time()
    q = 0
    bad = []
    n = z3.Int("n")
    qq = z3.Int("q")

    def table(t, idx):
        e = z3.IntVal(-1)
        for i, v in enumerate(t):
            e = z3.If(idx == i, z3.IntVal(int(v)), e)
        return e
    checks = [
        ("NUM_OS_TO_NUM_QS", z3.And(0 <= n, n < 5, z3.Not(z3.And(5 * table(base32.NUM_OS_TO_NUM_QS, n) >= 8 * n,
                                                                  5 * (table(base32.NUM_OS_TO_NUM_QS, n) - 1) < 8 * n)))),
        # entries for illegitimate quintet counts (1, 3, 6 mod 8) are never used: only the legitimate ones are constrained
        ("NUM_QS_TO_NUM_OS", z3.And(0 <= qq, qq < 8, (5 * qq) % 8 < 5, table(base32.NUM_QS_TO_NUM_OS, qq) != (5 * qq) / 8)),
        ("NUM_QS_TO_NUM_BITS", z3.And(0 <= qq, qq < 8, (5 * qq) % 8 < 5, table(base32.NUM_QS_TO_NUM_BITS, qq) != 8 * ((5 * qq) / 8))),
        ("NUM_QS_LEGIT", z3.And(0 <= qq, qq < 8, (table(base32.NUM_QS_LEGIT, qq) != 0) != ((5 * qq) % 8 < 5))),
    ]
    for name, f in checks:
        s = z3.Solver()
        s.add(f)
        q += 1
        if s.check() != z3.unsat:
            bad.append((name, str(s.model()) if s.check() == z3.sat else "unknown"))
    # character classes: BASE32CHAR_<k>bits must be { chars[v] : low (5-k) bits of v are zero }
    c = z3.BitVec("c", 8)
    val = z3.BitVecVal(255, 8)
    for i, ch in enumerate(base32.chars):
        val = z3.If(c == ch, z3.BitVecVal(i, 8), val)
    for k, const in ((4, base32.BASE32CHAR_4bits), (3, base32.BASE32CHAR_3bits), (2, base32.BASE32CHAR_2bits), (1, base32.BASE32CHAR_1bits),
                     (5, base32.BASE32CHAR)):
        members = const[1:-1]
        inclass = z3.Or([c == m for m in members])
        spec = z3.And(val != 255, (val & ((1 << (5 - k)) - 1)) == 0)
        s = z3.Solver()
        s.add(inclass != spec)
        q += 1
        if s.check() != z3.unsat:
            bad.append(("BASE32CHAR_%dbits" % k, str(s.model()) if s.check() == z3.sat else "unknown"))
    # the per-length regexes pair the right class with the right length: total characters q, last class keeps (5 - 5q mod 8) bits
    for nbytes, const in ((1, base32.BASE32STR_1byte), (2, base32.BASE32STR_2bytes), (3, base32.BASE32STR_3bytes), (4, base32.BASE32STR_4bytes)):
        m = re.fullmatch(rb"\[([a-z2-7]+)\](?:\{(\d+)\})?\[([a-z2-7]+)\]", const)
        if not m:
            bad.append(("BASE32STR_%dbyte" % nbytes, "unexpected shape %r" % (const,)))
            continue
        total = int(m.group(2) or 1) + 1
        last = m.group(3)
        s = z3.Solver()
        inclass = z3.Or([c == x for x in last])
        left = (5 * total) % 8
        s.add(z3.Or(z3.IntVal(total) != base32.NUM_OS_TO_NUM_QS[nbytes], inclass != z3.And(val != 255, (val & ((1 << left) - 1)) == 0),
                    z3.BoolVal(set(m.group(1)) != set(base32.chars))))
        q += 1
        if s.check() != z3.unsat:
            bad.append(("BASE32STR_%dbyte" % nbytes, "class/length mismatch"))
    if bad:
        return {"status": "violated", "queries": q, "solver_s": round(time.time() - t0, 3), "nonvacuous": True, "model": bad,
                "replay_src": "import sys\nprint(%r)\nsys.exit(1)\n" % (bad,)}
    return {"status": "discharged", "queries": q, "solver_s": round(time.time() - t0, 3), "nonvacuous": True,
            "info": "length tables and regex character classes agree with floor/ceil(5q/8) arithmetic"}


def struct_sizes(ctx):
    """z3: sizes implied by the live struct format strings equal the hard-coded record/header constants."""
    import time
    import struct
    import z3
    from vlib import hlib
    hlib.ensure_shims()
    from allmydata.storage import lease as lease_mod, mutable as mutable_mod, mutable_schema, immutable as immutable_mod, immutable_schema
    hlib.encoded(lease_mod.LeaseInfo.to_immutable_data, lease_mod.LeaseInfo.to_mutable_data, mutable_schema._header, immutable_schema._Schema.header)
    t0 = time.time()
    width = {"B": 1, "H": 2, "L": 4, "I": 4, "Q": 8}

    def fmt_size(fmt):
        """sum of field widths of a big-endian ('>') format, as a z3 integer term"""
        if isinstance(fmt, bytes):
            fmt = fmt.decode("ascii")
        assert fmt[0] == ">", fmt
        total = z3.IntVal(0)
        num = ""
        for ch in fmt[1:]:
            if ch.isdigit():
                num += ch
                continue
            if ch == "s":
                total = total + int(num or "1")
            else:
                total = total + int(num or "1") * width[ch]
            num = ""
        return total
    facts = []
    LI = lease_mod.LeaseInfo()
    facts.append(("immutable lease record = 4+32+32+4 = 72", fmt_size(lease_mod.IMMUTABLE_FORMAT), 72))
    facts.append(("mutable lease record = 4+4+32+32+20 = 92", fmt_size(lease_mod.MUTABLE_FORMAT), 92))
    facts.append(("LeaseInfo.immutable_size()", fmt_size(lease_mod.IMMUTABLE_FORMAT), LI.immutable_size()))
    facts.append(("LeaseInfo.mutable_size()", fmt_size(lease_mod.MUTABLE_FORMAT), LI.mutable_size()))
    facts.append(("ShareFile.LEASE_SIZE", fmt_size(lease_mod.IMMUTABLE_FORMAT), immutable_mod.ShareFile.LEASE_SIZE))
    facts.append(("immutable header >LLL = 12 = ShareFile._lease_offset base (0x0c)", fmt_size(">LLL"), 0x0c))
    facts.append(("mutable header size", fmt_size(mutable_schema._HEADER_FORMAT), mutable_schema._HEADER_SIZE))
    facts.append(("MutableShareFile.HEADER_SIZE", fmt_size(mutable_schema._HEADER_FORMAT), mutable_mod.MutableShareFile.HEADER_SIZE))
    facts.append(("MutableShareFile.LEASE_SIZE", fmt_size(lease_mod.MUTABLE_FORMAT), mutable_mod.MutableShareFile.LEASE_SIZE))
    facts.append(("MutableShareFile.DATA_OFFSET = header + 4 leases", fmt_size(mutable_schema._HEADER_FORMAT) + 4 * fmt_size(lease_mod.MUTABLE_FORMAT),
                  mutable_mod.MutableShareFile.DATA_OFFSET))
    facts.append(("_EXTRA_LEASE_OFFSET", fmt_size(mutable_schema._HEADER_FORMAT) + 4 * fmt_size(lease_mod.MUTABLE_FORMAT), mutable_schema._EXTRA_LEASE_OFFSET))
    facts.append(("DATA_LENGTH_OFFSET = magic+nodeid+write_enabler", fmt_size(">32s20s32s"), mutable_mod.MutableShareFile.DATA_LENGTH_OFFSET))
    facts.append(("EXTRA_LEASE_OFFSET field position", fmt_size(">32s20s32sQ"), mutable_mod.MutableShareFile.EXTRA_LEASE_OFFSET))
    # real struct agrees with the width model
    for f in (lease_mod.IMMUTABLE_FORMAT, lease_mod.MUTABLE_FORMAT, mutable_schema._HEADER_FORMAT, ">LLL", ">L", ">Q"):
        facts.append(("struct.calcsize(%s)" % (f,), fmt_size(f), struct.calcsize(f)))
    q = 0
    bad = []
    for (name, term, const) in facts:
        s = z3.Solver()
        s.add(term != int(const))
        q += 1
        if s.check() != z3.unsat:
            bad.append((name, int(const), str(z3.simplify(term))))
    # header as written: magic(32) nodeid(20) write_enabler(32) datalen(8) extra_lease_offset(8), 4 blank leases, count(4)
    hdr = mutable_schema._header(b"m" * 32, mutable_schema._EXTRA_LEASE_OFFSET, b"n" * 20, b"w" * 32)
    s = z3.Solver()
    s.add(fmt_size(mutable_schema._HEADER_FORMAT) + 4 * fmt_size(lease_mod.MUTABLE_FORMAT) + 4 != len(hdr))
    q += 1
    if s.check() != z3.unsat:
        bad.append(("initial mutable container size", len(hdr), "header+4 leases+4"))
    if bad:
        return {"status": "violated", "queries": q, "solver_s": round(time.time() - t0, 3), "nonvacuous": True, "model": bad,
                "replay_src": "import sys\nprint(%r)\nsys.exit(1)\n" % (bad,)}
    return {"status": "discharged", "queries": q, "solver_s": round(time.time() - t0, 3), "nonvacuous": True,
            "info": "%d size/offset identities" % len(facts)}


T = {"quick": 120, "thorough": 900}
OBLIGATIONS = [
    pyob("b32_trailing_table", "b32_trailing_table", timeout=120,
         desc="z3 over the live s8 table: could_be_base32_encoded accepts a last character iff length residue is legitimate and the left-over low bits are zero"),
    pyob("b32_length_tables", "b32_length_tables", timeout=120,
         desc="z3: NUM_OS_TO_NUM_QS / NUM_QS_TO_NUM_OS / NUM_QS_LEGIT / NUM_QS_TO_NUM_BITS and BASE32CHAR_kbits / BASE32STR_kbytes agree with the 5q-vs-8n arithmetic"),
    chx("b32_accepts_only_canonical", "C38_h", "h_b32_accepts_only_canonical", timeout=T,
        cases={"quick": [{"prefix": p, "_label": "len%d" % (len(p) + 2)} for p in ("", "ab", "abc", "abcde")],
               "thorough": [{"prefix": p, "_label": "len%d" % (len(p) + 2)} for p in ("", "a", "ab", "abc", "abcd", "abcde", "abcdef", "abcdefgh",
                                                                                            "abcdefghij", "abcdefghijk", "abcdefghijklmnopqrstuvwx")]},
        desc="real could_be_base32_encoded/a2b/b2a: any string (fixed prefix + 2 arbitrary characters from the alphabet plus '=A18 ') that a2b accepts "
             "re-encodes to itself; rejected strings do not decode"),
    chx("b32_roundtrip", "C38_h", "h_b32_roundtrip", timeout=T,
        cases={"quick": [{"n": i, "_label": "%dbytes" % i} for i in (1, 3, 5)],
               "thorough": [{"n": i, "_label": "%dbytes" % i} for i in (1, 2, 3, 4, 5, 6, 7, 8, 9, 10, 16, 20, 32)]},
        desc="real b2a/a2b: a2b(b2a(x)) == x, length == ceil(8n/5), alphabet, accepted by could_be_base32_encoded; x of n bytes whose first or last byte is arbitrary"),
    chx("b62_roundtrip", "C38_h", "h_b62_roundtrip", timeout=T,
        cases={"quick": [{"n": 1, "_label": "1byte"}, {"n": 2, "_label": "2bytes"}],
               "thorough": [{"n": i, "_label": "%dbytes" % i} for i in (1, 2)]},
        desc="base62.b2a_l/a2b_l integer loops on symbolic byte values (byte-string plumbing replaced by identity): digits < 62, count as documented, decode(encode(x)) == x",
        outside="3 or more symbolic bytes (measured: not confirmed in 900 s CPU; the chained %62 / //62 arithmetic on a 24-bit symbolic value is too hard for z3); "
                "longer inputs are covered with one arbitrary byte by b62_real_bytes"),
    chx("b62_real_bytes", "C38_h", "h_b62_real_bytes", timeout=T,
        cases={"quick": [{"n": i, "_label": "%dbytes" % i} for i in (1, 4)],
               "thorough": [{"n": i, "_label": "%dbytes" % i} for i in (1, 2, 3, 4, 5, 8, 16, 32)]},
        desc="untouched base62.b2a/a2b on real bytes (n bytes, first or last byte arbitrary): round trip, alphabet, agreement with the integer core"),
    chx("netstring_roundtrip", "C38_h", "h_netstring_roundtrip", timeout=T, bounds={"quick": {"len_max": 12}, "thorough": {"len_max": 16}},
        desc="netstring/split_netstring: two netstrings (payloads made of framing characters, lengths 0..12) split back exactly, positions, trailer, "
             "too-few and leftover errors"),
    chx("netstring_canonical", "C38_h", "h_netstring_canonical", timeout=T, bounds={"quick": {"field_max": 2}, "thorough": {"field_max": 3}},
        desc="split_netstring on netstring(b'a') + '<field>:<payload>,' with an arbitrary 1-2 character length field over the alphabet 0-9 + - space _ tab nl x : , : "
             "whatever is accepted decodes to exactly [b'a', payload] with position at the end and the field's natural integer value equal to the payload length "
             "(never negative); canonical fields are accepted",
        outside="non-canonical spellings of the length that int() reads with their natural value (b'01:x,', b'+1:x,', b' 1:x,', b'1_0:..') are accepted by "
                "split_netstring and uri.unpack_extension; by decision this is tolerated (not 'read as a different value') and is not reported"),
    chx("netstring_terminator", "C38_h", "h_netstring_terminator", timeout=T,
        desc="split_netstring: '<len>:<payload><t>' is accepted only when t is ',' and len is the payload length (len off by one either way, arbitrary t)"),
    chx("ueb_roundtrip", "C38_h", "h_ueb_roundtrip", timeout=T,
        desc="uri.pack_extension/unpack_extension: dict with the five integer fields (size from a list of boundary values 0..2^64) and hash-like byte values full of "
             "':' and ',' round-trips and re-packs identically"),
    chx("lease_roundtrip", "C38_h", "h_lease_roundtrip", timeout=T,
        desc="LeaseInfo.to_immutable_data/from_immutable_data and to_mutable_data/from_mutable_data: owner, expiration (all 32-bit values), both secrets, nodeid "
             "come back in the right fields; record length == declared size"),
    chx("lease_out_of_range", "C38_h", "h_lease_out_of_range", timeout=T,
        desc="lease fields that do not fit 32 bits raise struct.error instead of being truncated"),
    chx("immutable_header", "C38_h", "h_immutable_header", timeout=T,
        desc="immutable_schema header: 12 bytes, (version, min(max_size, 2^32-1), 0 leases)"),
    chx("mutable_magic", "C38_h", "h_mutable_magic", timeout=T,
        desc="mutable_schema.schema_from_header/_Schema.magic_matches on every prefix (0..40 bytes) of a real v1/v2 container header, optionally with one flipped "
             "bit inside the magic: recognised iff the full 32-byte magic is present and intact, never as the other version"),
    chx("immutable_version", "C38_h", "h_immutable_version", timeout=T,
        desc="immutable_schema.schema_from_version on an arbitrary (unbounded symbolic) version number: a schema iff version is 1 or 2"),
    pyob("struct_sizes", "struct_sizes", timeout=120,
         desc="z3: widths of the live format strings equal LEASE_SIZE / HEADER_SIZE / DATA_OFFSET / DATA_LENGTH_OFFSET / EXTRA_LEASE_OFFSET constants of "
              "ShareFile / MutableShareFile and struct.calcsize; initial mutable container size"),
]
