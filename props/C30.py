from vlib.spec import chx, pyob

EXPLANATION = ("CrossHair symbolic execution (z3) of the real _authorization_decorator/_extract_secrets and UploadsInProgress methods "
               "(storage/http_server.py) with header carriers whose secret lengths are symbolic integers; the handler is a recorder.")
ASSUMPTIONS = [
    "timing_safe_compare is an equality test (ideal hash); eliot start_action is a no-op; Klein routing, CBOR body validation and the response rendering of "
    "_HTTPError are outside (that every route is declared through _authorized_route is not decided here)",
    "Authorization header: one of 7 representative values (absent, correct, correct+1 char, correct-1 char, lower-cased, scheme only, not UTF-8 encodable)",
    "each X-Tahoe-Authorization value: key = one of the four real names / an unknown name / a value without a space; decoded secret of symbolic length "
    "(0 = empty); up to 3 header values; duplicate names are accepted by the code (the last value wins) and by the model",
    "upload-secret obligation: up to 3 share numbers, 3 secret tokens (one empty), another client's upload under a different storage index present",
]
T = {"quick": 120, "thorough": 900}
_MASKS = {"none": 0, "lease": 3, "lease+upload": 7, "upload": 4, "write-enabler": 8, "lease+write-enabler": 11}
OBLIGATIONS = [
    chx("authorization_header", "C30_h", "h_authorization", timeout=T, bounds={"quick": {"nh_max": 1}},
        cases=[{"mask": m, "_label": n} for (n, m) in (("none", 0), ("upload", 4))],
        desc="_authorization_decorator, all 7 Authorization values x 0-1 secret header: handler runs only with exactly the swissnum header; anything else is 401 "
             "(400 if the header cannot be encoded) before secrets are looked at and the handler is not called"),
    chx("authorization_secrets", "C30_h", "h_authorization", timeout=T, bounds={"quick": {"auth": 1}},
        cases={"quick": [{"mask": m, "nh_max": 2, "_label": n} for (n, m) in sorted(_MASKS.items())]
                        + [{"mask": m, "nh_max": 3, "nh": 3, "k0": k0, "_label": n + ",3headers,first-name-%s" % (k0 if k0 < 3 else "3-5")}
                           for (n, m) in sorted(_MASKS.items()) if m in (7, 11) for k0 in (0, 1, 2, 3)],
               "thorough": [{"mask": m, "nh_max": 3, "_label": "mask%d" % m} for m in range(16)]},
        desc="_authorization_decorator/_extract_secrets with the correct swissnum, 0-3 secret headers (any of the 4 names, unknown name, malformed; symbolic decoded "
             "length) against each required set used by the routes: handler runs iff every header is well formed, no secret is empty, lease secrets are 32 bytes and "
             "the set of names equals the required set exactly; then it receives exactly those secrets; otherwise 400 and no call"),
    chx("upload_secret", "C30_h", "h_upload_secret", timeout=T,
        cases=[{"second": 0, "_label": "one-client"}, {"second": 1, "other": 0, "_label": "second-client-sibling-share,same-si-query"},
               {"second": 1, "other": 1, "_label": "second-client-sibling-share,other-si-query"}],
        desc="(optionally a second client then allocates another share of the same storage index with its own secret: each upload keeps the secret it was "
             "allocated with) UploadsInProgress.add_write_bucket/get_write_bucket/validate_upload_secret/remove_write_bucket: a bucket is returned iff that (storage index, share) upload "
             "exists and the presented secret equals its own; wrong secret 401 before anything is returned; unknown 404; removal forgets the upload and leaves other "
             "clients' uploads alone"),
    chx("extract_secrets_real", "C30_h", "h_extract_secrets_real", timeout=T,
        desc="untouched _extract_secrets on real header text with real base64 (one header; names x lengths 0/16/32/33 x all 16 required sets): agrees with the model, "
             "decoded secret is what was sent"),
]
