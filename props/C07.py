from vlib.spec import chx

EXPLANATION = ("CrossHair symbolic execution (z3) over symbolic read-only flags, existing-share relation bits and insertion orders; every path "
               "realises one layout (path-per-input, DESIGN 1.4), runs the real happiness_upload.share_placement on it and compares with "
               "optima decided by separate z3 queries over assignment variables (no augmenting-path code in the oracle).")
ASSUMPTIONS = [
    "precondition taken from the only call site (upload.py PeerSelector.get_share_placements): peers = writable servers, non-empty; readonly_peers disjoint "
    "from peers; peers_to_shares keys are servers of either kind, values non-empty sets of share numbers < N; shares = range(N)",
    "path-per-input: 'Confirmed over all paths' is bounded-exhaustive over the stated servers x shares bound",
    "server ids are distinct ints (only hashed/compared/sorted by the code); a relabelling of servers is another layout of the same bound and therefore covered",
    "max_spread / max_happiness use the canonical insertion order (ascending server id) for the sets and the dict; complete_readonly also varies the insertion orders",
    "after every input bit is fixed by a solver-decided fork the real function runs on the realised input with opcode tracing off (identical result on concrete data)",
    "max_happiness_merged idealises the rest of the upload: every server accepts exactly the shares the placement gives it",
]


def _ro_cases(P, nfix=0, S=3):
    out = []
    for m in range(2 ** P - 1):
        ro = [(m >> p) & 1 for p in range(P)]
        for i in range(2 ** nfix):
            fix = [(i >> j) & 1 for j in range(nfix)]
            out.append({"ro": ro, "fix": fix, "_label": "ro" + "".join(map(str, ro)) + ("." + "".join(map(str, fix)) if nfix else "")})
    return out


def _quick_cases():
    """3 servers x 3 shares: one case per read-only mask; the masks with exactly one read-only server (where the
    known max-spread findings live) are split further so that each exclusion round explores few paths."""
    out = []
    for c in _ro_cases(3):
        if sum(c["ro"]) == 1:
            out.extend(x for x in _ro_cases(3, 2) if x["ro"] == c["ro"])
        else:
            out.append(c)
    return out


def _wide_cases():
    """3 servers x 4 shares and 4 servers x 3 shares, canonical insertion order (complete_readonly_wide)."""
    out = []
    for c in _ro_cases(3, 2):
        out.append(dict(c, P=3, S=4, _label="3x4." + c["_label"]))
    for c in _ro_cases(4, 3):
        out.append(dict(c, P=4, S=3, _label="4x3." + c["_label"]))
    return out


def _spread_thorough_cases():
    """3x3 as in the quick tier plus 3 servers x 4 shares; masks with exactly one read-only server (where the known
    findings live) are split 16-way so that each exclusion round explores few paths."""
    out = [dict(c, P=3, S=3) for c in _quick_cases()]
    for c in _ro_cases(3):
        nfix = 4 if sum(c["ro"]) == 1 else 1
        for x in _ro_cases(3, nfix):
            if x["ro"] == c["ro"]:
                out.append(dict(x, P=3, S=4, _label="3x4." + x["_label"]))
    return out


OBLIGATIONS = [
    chx("complete_readonly", "C07_h", "h_valid",
        bounds={"quick": {"P": 3, "S": 3, "orders": [0, 5], "tie_orders": True}, "thorough": {"P": 3, "S": 3, "orders": [0, 5]}},
        cases={"quick": _ro_cases(3), "thorough": _ro_cases(3, 1)},
        timeout={"quick": 150, "thorough": 1500},
        desc="share_placement(peers, readonly_peers, shares, peers_to_shares): every share number is mapped to one of the servers (never None); a read-only server "
             "only gets shares it already holds; arguments are not mutated; calculate_happiness(result) == number of distinct servers. All layouts within the bound; "
             "insertion order of the peer sets and of the existing-share dict ascending or descending (quick: both together, thorough: independently)",
        outside="server counts/shares beyond the bound; the seeded random 20x30 layouts named in the property text (not a solver technique)"),
    chx("complete_readonly_wide", "C07_h", "h_valid", tiers=("thorough",),
        bounds={"thorough": {}},
        cases={"thorough": _wide_cases()},
        timeout={"thorough": 1500},
        desc="same as complete_readonly for 3 servers x 4 shares and 4 servers x 3 shares (canonical insertion order)"),
    chx("max_spread", "C07_h", "h_spread",
        bounds={"quick": {"P": 3, "S": 3}, "thorough": {}},
        cases={"quick": _quick_cases(), "thorough": _spread_thorough_cases()},
        timeout={"quick": 150, "thorough": 1500},
        desc="the number of distinct servers used by the returned placement equals the largest number achievable by any total assignment that gives read-only servers "
             "only shares they hold (z3: SAT(>= h), UNSAT(>= h+1) over assignment variables). Counterexamples are classified by their exact input "
             "'ro=<flags>;rel=<rows>' and compared with known_findings.json",
        outside="non-canonical insertion orders"),
    chx("max_happiness_merged", "C07_h", "h_happy",
        bounds={"quick": {"P": 3, "S": 3}, "thorough": {}},
        cases={"quick": _quick_cases(), "thorough": _spread_thorough_cases()},
        timeout={"quick": 150, "thorough": 1500},
        desc="consequence clause ('never declared unhappy when a happy layout was reachable'): the maximum matching of (existing shares U returned placement) - what the "
             "uploader's servers_of_happiness test sees if every server accepts its shares - equals the largest such value over all constraint-respecting assignments (z3)",
        outside="non-canonical insertion orders; servers that refuse or already hold other shares (C06)"),
    chx("servermap_flow_graph", "C07_h", "h_flow_graph",
        bounds={"quick": {"P": 3, "S": 2}, "thorough": {"P": 3, "S": 3}}, timeout={"quick": 90, "thorough": 900},
        desc="_servermap_flow_graph: source -> every peer vertex, peer vertex -> exactly the vertices of the shares that peer holds (per peer, not shared between peers), "
             "share -> sink, sink empty; servers outside `peers` and shares outside `shares` ignored; every peer-set insertion order"),
    chx("distribute_homeless", "C07_h", "h_homeless",
        bounds={"quick": {"P": 2, "S": 3}, "thorough": {"P": 3, "S": 3}},
        cases={"quick": [{"fix": [a], "_label": "%d" % a} for a in (0, 1)],
               "thorough": [{"fix": [a, b, c, d], "_label": "%d%d%d%d" % (a, b, c, d)} for a in (0, 1) for b in (0, 1) for c in (0, 1) for d in (0, 1)]},
        timeout={"quick": 150, "thorough": 1500},
        desc="_distribute_homeless_shares from an arbitrary mapping (each share: None / a candidate peer / some other peer): shares with a home are untouched; a homeless share "
             "some candidate already holds goes to such a holder (lease renewal); the others go to candidates, each time to a least-loaded one (final loads: a receiver is "
             "never more than one above any candidate); no candidates => stays None; peers_to_shares not mutated"),
]
