from vlib.spec import chx

EXPLANATION = ("CrossHair symbolic execution (z3) of the real lease methods of ShareFile / MutableShareFile, LeaseInfo / "
               "HashedLeaseInfo, the v1/v2 serializers and StorageServer.add_lease/renew_lease on the in-memory file model; "
               "secrets are distinct concrete tokens chosen by a symbolic index, expiry times / space / geometry symbolic.")
ASSUMPTIONS = [
    "secrets are distinct concrete 32-byte tokens; blake2b (real, run untraced) is assumed collision-free on them",
    "expiry times < 2^32 (the on-disk field; a larger value makes struct.pack raise in the real code)",
    "existing leases have pairwise different renew secrets (what add_or_renew maintains)",
    "immutable containers: 0..2 (quick) / 0..3 (thorough) leases; mutable: any occupancy of the 4 in-header slots, 0..1 extra lease "
    "(quick: 6 representative occupancy/version cases, thorough: all 64)",
    "lease survival across data writes and container growth: `leases_survive_growth` here (mutable, through get_leases), in more "
    "detail C23 `write_leases` (raw records, geometry) and C22 `write_step` (immutable); crash behaviour is C29",
]
T = {"quick": 120, "thorough": 900}
BD = {"quick": {"dlen_max": 2**40, "n_max": 2}, "thorough": {"dlen_max": 2**62, "n_max": 3}}
V = [{"version": 1, "_label": "v1"}, {"version": 2, "_label": "v2"}]


def _mc(occ, nx, v):
    return {"occ": occ, "nx": nx, "version": v, "_label": "%s-nx%d-v%d" % (occ, nx, v)}


MC = {"quick": [_mc("1111", 0, 2), _mc("1111", 1, 2), _mc("1011", 0, 2), _mc("0000", 0, 2), _mc("1101", 1, 2), _mc("1111", 1, 1)],
      "thorough": [_mc("".join("01"[(m >> i) & 1] for i in range(4)), nx, v) for m in range(16) for nx in (0, 1) for v in (1, 2)]}
OBLIGATIONS = [
    chx("imm_add_or_renew", "C25_h", "h_imm_add_or_renew", bounds=BD, cases=V, timeout=T,
        desc="ShareFile.add_or_renew_lease / renew_lease / add_lease: secret of an existing lease => that lease's expiry becomes "
             "max(old, new), count and all other records unchanged, no NoSpace; unknown secret: renew_lease raises IndexError and "
             "writes nothing; add needs 72 bytes: NoSpace and nothing written if not available, else exactly one record appended "
             "(owner, stored secrets, expiry); v2 records never contain a cleartext secret token; data length unchanged on re-open"),
    chx("mut_add_or_renew", "C25_h", "h_mut_add_or_renew", bounds=BD, cases=MC, timeout=T,
        desc="MutableShareFile.add_or_renew_lease / renew_lease / add_lease: same for mutable containers; a fresh lease fills the "
             "first empty in-header slot (no space needed) else is appended as an extra lease (92 bytes or NoSpace); data length and "
             "extra_lease_offset unchanged; no cleartext secret in v2"),
    chx("leases_survive_growth", "C25_h", "h_leases_survive_growth", bounds=BD, timeout=T,
        cases={"quick": [{"nx": 1, "version": 2, "_label": "5-leases"}, {"nx": 2, "version": 2, "_label": "6-leases"}],
               "thorough": [{"nx": n, "version": v, "_label": "%d-leases-v%d" % (4 + n, v)} for n in (1, 2, 3) for v in (1, 2)]},
        desc="MutableShareFile.writev -> _write_share_data -> _change_container_size with more than 4 leases, arbitrary offset/length "
             "(including growth by a few bytes, old and new lease block overlapping): get_leases() after == before (all fields)"),
    chx("imm_write_keeps_leases", "C25_h", "h_imm_write_keeps_leases", bounds=BD, timeout=T,
        cases=[{"version": 2, "_label": "v2"}],
        desc="ShareFile.write_share_data on an upload in progress (allocated size, 1..2 leases behind the data): refused with "
             "DataTooLargeError iff it reaches beyond the allocated size; an accepted write leaves lease count, every lease field "
             "and the container size unchanged"),
    chx("serializers", "C25_h", "h_serializers", bounds=BD, cases=V, timeout=T,
        desc="lease_schema v1/v2 (im)mutable serializers, LeaseInfo/HashedLeaseInfo: v2 stores blake2b(secret) and never the secret; "
             "round trip recognises the right secret and rejects another token, the cancel secret and the stored hash itself; "
             "renew() changes only the expiry and does not re-hash"),
    chx("server_leases", "C25_h", "h_server_leases", bounds=BD, timeout=T,
        desc="StorageServer.add_lease / renew_lease / _add_or_renew_leases / _iter_share_files over 1..2 immutable shares: known "
             "secret => every share renewed to max(old, now+31d), no duplicate; unknown secret: renew_lease raises IndexError and "
             "changes nothing, add_lease adds one lease expiring now+31d to every share or raises NoSpace"),
]
