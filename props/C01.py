from vlib.spec import chx

ASSUMPTIONS = [
    "zfec (compiled Reed-Solomon) replaced by an ideal erasure code: any k blocks of the declared size decode to the k primary blocks",
    "byte contents abstracted to provenance (ProvBuf); AES/SHA not executed",
    "Deferred chains run synchronously on already-fired Deferreds; server response orderings are outside the claim",
]
OBLIGATIONS = [
    chx("param_agreement", "C01_h", "h_param_agreement",
        bounds={"quick": {"size_max": 2**40, "seg_max": 2**24, "n_max": 16}, "thorough": {"size_max": 2**48, "seg_max": 2**32, "n_max": 16}},
        cases={"quick": [{"k": i, "_label": "k%d" % i} for i in (1, 2, 3, 5, 16)],
               "thorough": [{"k": i, "_label": "k%d" % i} for i in range(1, 17)]},
        timeout={"quick": 120, "thorough": 1200},
        desc="uploadable segsize rule -> Encoder._got_all_encoding_parameters -> UEB -> DownloadNode._parse_and_store_UEB/_calculate_sizes/"
             "_build_guessed_tables, CRSEncoder/CRSDecoder.set_params agree on num_segments, block sizes, tail padding, share size; segments tile the file",
        outside="zfec itself; file_size 0 (literal files never reach the encoder)"),
    chx("gather_padding", "C01_h", "h_gather", bounds={"quick": {"k_max": 3}, "thorough": {"k_max": 6}},
        timeout={"quick": 120, "thorough": 1200},
        desc="Encoder._gather_data: one read of k*block bytes, pieces equal-sized, concatenation == ciphertext then zero padding, hashers fed unpadded data (probe p)"),
    chx("decode_trim", "C01_h", "h_decode_trim",
        bounds={"quick": {"size_max": 2**40, "seg_max": 2**24}, "thorough": {"size_max": 2**48, "seg_max": 2**32}},
        cases={"quick": [{"k": 1, "_label": "k1"}, {"k": 2, "_label": "k2"}, {"k": 3, "_label": "k3"}],
               "thorough": [{"k": i, "_label": "k%d" % i} for i in range(1, 8)]},
        timeout={"quick": 120, "thorough": 1200},
        desc="DownloadNode._decode_blocks/_check_ciphertext_hash: tail decoder sized for padded tail, padding trimmed, delivered segment == file bytes [segnum*segsize, ...), offset right"),
    chx("ct_offset", "C01_h", "h_ct_offset", bounds={"quick": {"segnum_max": 6}, "thorough": {"segnum_max": 40}},
        timeout={"quick": 60, "thorough": 600},
        desc="DownloadNode._check_ciphertext_hash: leaf index == segnum, hash over the delivered segment, file offset == segnum*segment_size "
             "(segnum is a dict key => realised; bounded)"),
    chx("share_layout", "C01_h", "h_layout", bounds={"quick": {"ns_max": 2**16, "bs_max": 2**40}, "thorough": {"ns_max": 2**32, "bs_max": 2**60}},
        timeout={"quick": 120, "thorough": 1200},
        desc="make_write_bucket_proxy/WriteBucketProxy(_v2)._create_offsets/get_allocated_size/put_block vs Share._satisfy_offsets/_satisfy_data_block: "
             "sections tile the share, v1 iff everything < 2^32, reader parses the writer's header (field positions/widths), reader's block range == writer's block range, "
             "delivered block is the checked block",
        outside="write batching (_WriteBuffer), hash-section contents, ReadBucketProxy (legacy reader)"),
    chx("guess_vs_real", "C01_h", "h_guess_vs_real",
        bounds={"quick": {"size_max": 2**40, "seg_max": 2**24, "n_max": 16}, "thorough": {"size_max": 2**48, "seg_max": 2**32, "n_max": 16}},
        cases={"quick": [{"k": i, "_label": "k%d" % i} for i in (1, 3)], "thorough": [{"k": i, "_label": "k%d" % i} for i in (1, 2, 3, 5, 16)]},
        timeout={"quick": 120, "thorough": 1200},
        desc="DownloadNode._build_guessed_tables with an ARBITRARY guess followed by _parse_and_store_UEB: every table the reader uses afterwards "
             "(ciphertext hash tree size, its leaf count used by get_desired_ciphertext_hashes, roots) reflects the real segment count, for every real segnum"),
]
