from vlib.spec import chx

EXPLANATION = ("CrossHair symbolic execution (z3) of the real MutableChecker health classification and Repairer refusal rules on a real "
               "ServerMap populated from symbolic version descriptors; descriptor values end up in dict keys, so every feasible "
               "combination within the bounds is one solver-decided path (path-per-input).")
ASSUMPTIONS = [
    "versions are (seqnum, root-hash rank, k) with distinct concrete root hashes; one k and one N per run; a (server, shnum) slot holds one version",
    "the servermap handed to the checker/repairer is what a MODE_CHECK / MODE_REPAIR update produced (how it is filled is not decided here)",
    "share verification (verify=True, Retrieve in verify mode marking bad shares) is not executed: a corrupt share shows up as a share missing from the map",
    "the publish that performs the repair (node.upload) is a recorder; that it places N shares is C47/C06 territory",
]


def _b(nv, seq_max, rank_max, k, N, cs, dups=True, s0=None, dmax=1, writable=True, seqs=None):
    b = {"nv": nv, "seq_max": seq_max, "rank_max": rank_max, "k": k, "N": N, "cs": cs, "dups": dups, "s0": s0, "dmax": dmax, "writable": writable,
         "seqs": seqs}
    b["_label"] = "%dv-seq%d-rank%d-k%d-N%d-c%s%s%s" % (nv, seq_max, rank_max + 1, k, N, "".join(map(str, cs)), ("-dup%d" % dmax) if dups else "",
                                                       ("" if s0 is None else "-s0_%d" % s0) + ("" if writable else "-readonly")
                                                       + ("" if seqs is None else "-seqs" + "_".join(map(str, seqs))))
    return b


T = {"quick": 150, "thorough": 1500}
OBLIGATIONS = [
    chx("health", "C14_h", "h_health", timeout=T,
        cases={"quick": [_b(2, 2, 1, 2, 3, [1, 2, 3], dups=False, s0=s) for s in (1, 2)] + [_b(2, 1, 1, 2, 3, [1, 2, 3], dups=True)]
               + [_b(2, 3, 0, 2, 3, [2, 3], dups=False, seqs=[9, 10, 100])],
               "thorough": [_b(2, 3, 1, k, 3, [k - 1, k, 3] if k < 3 else [2, 3], s0=s) for k in (1, 2, 3) for s in (1, 2, 3)]
               + [_b(2, 2, 1, 2, 3, [1, 2, 3], dups=True, s0=s) for s in (1, 2)]
               + [_b(3, 2, 1, 2, 3, [1, 2, 3], dups=False, s0=s) for s in (1, 2)]},
        desc="MutableChecker._got_mapupdate_results + _make_checker_results on a real ServerMap with <= 2 (thorough 3) versions: healthy <=> "
             "exactly one version in the map, recoverable, N distinct shares (duplicates do not count); need_repair <=> not healthy; "
             "recoverable flag, version counters, best version = newest recoverable (root hash on ties), share counters of the best "
             "version, wrong-share and good-host counts, summary text, servermap copy",
        outside="verify=True (reading every share); happiness count; report text"),
    chx("repair_rules", "C14_h", "h_repair", timeout=T,
        cases={"quick": [_b(2, 2, 1, 2, 3, [1, 2], dups=True), _b(2, 2, 0, 3, 4, [2, 3], dups=True, dmax=2),
                         _b(2, 2, 0, 2, 3, [1, 2], dups=False, writable=False),
                         _b(2, 3, 0, 2, 3, [1, 2], dups=False, seqs=[9, 10, 100]), _b(2, 2, 0, 2, 3, [1, 2], dups=False, seqs=[99, 100])],
               "thorough": [_b(3, 2, 1, 2, 3, [1, 2], dups=False, s0=s) for s in (1, 2)] + [_b(2, 3, 2, 2, 3, [1, 2, 3], dups=True, s0=s) for s in (1, 2, 3)]
               + [_b(2, 2, 1, 3, 4, [2, 3], dups=True, dmax=2)]},
        desc="Repairer._got_full_servermap(smap, force) with force symbolic, writecap by case, copies of one share number on several servers (they are not distinct shares): nothing recoverable -> unsuccessful result, grid "
             "untouched; unforced and (an unrecoverable version newer than every recoverable one, or a competing recoverable version at the "
             "best seqnum) -> MustForceRepairError before any download/upload; it refuses only if a newer unrecoverable version or two "
             "recoverable versions with one seqnum exist; no writecap -> RepairRequiresWritecapError; otherwise downloads exactly the best "
             "version (with privkey), uploads exactly those contents against the same servermap and reports success",
        outside="the publish performed by node.upload (placement of N shares, bad-share checkstrings); Repairer.start's MODE_REPAIR map update"),
    chx("repair_entry", "C14_h", "h_repair_entry", timeout=T,
        cases={"quick": [dict(_b(2, 2, 1, 2, 3, [1, 2, 3], dups=False), r0=0, entry=e, _label="2v-r0_0-entry%d" % e) for e in (1, 2)]
               + [dict(_b(2, 2, 1, 2, 3, [1, 2, 3], dups=False, s0=s), r0=0, entry=0, _label="2v-r0_0-s0_%d-entry0" % s) for s in (1, 2)],
               "thorough": [dict(_b(2, 3, 1, 2, 3, [1, 2, 3], dups=False, s0=s), entry=e, _label="2v-seq3-s0_%d-entry%d" % (s, e))
                            for s in (1, 2, 3) for e in (0, 1, 2)]},
        desc="the way into the repairer on a real MutableFileNode: MutableCheckAndRepairer._maybe_repair(pre-repair results) / "
             "node.repair(results, force=False|True) -> Repairer.__init__/start -> _got_full_servermap: a healthy file is not repaired; "
             "the repairer's servermap update is MODE_REPAIR on a fresh map with the caller's monitor; without force (check-and-repair "
             "never forces) a newer unrecoverable version or competing versions at the newest seqnum end in MustForceRepairError with the "
             "grid untouched and repair_attempted/unsuccessful recorded; otherwise exactly the best version is republished and the "
             "check-and-repair results record it",
        outside="what MODE_REPAIR makes the updater do; the publish itself"),
    chx("verify_marks", "C14_h", "h_verify_marks", timeout=T,
        cases={"quick": [_b(1, 1, 0, 2, 3, [2, 3], dups=True), _b(2, 2, 0, 2, 3, [2, 3], dups=False)],
               "thorough": [_b(2, 2, 1, 2, 3, [1, 2, 3], dups=True, s0=s) for s in (1, 2)] + [_b(2, 2, 0, 3, 4, [3, 4], dups=True, dmax=2)]},
        desc="check(verify=True) path: real _got_mapupdate_results -> _verify_all_shares -> _process_bad_shares -> _make_checker_results with a "
             "stand-in verifier that marks a symbolic subset of the best version's share copies bad on the map object it was GIVEN: the "
             "verifier reads the best version in verify mode, and healthy / recoverable / good-share count / need_repair / corrupt-share list "
             "reflect exactly the shares not found bad (so the map handed to the verifier must be the one classified afterwards)",
        outside="Retrieve's verify mode itself (which shares it finds bad)"),
]
